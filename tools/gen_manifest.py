#!/usr/bin/env python3
"""Regenerates /verif/MANIFEST.json from the table below (keeps the manifest valid and in one place)."""
import importlib.util
import json
import os

ROOT = os.path.dirname(os.path.dirname(os.path.abspath(__file__)))
PY = "/venv/bin/python"

spec = importlib.util.spec_from_file_location("claims", os.path.join(ROOT, "tools", "claims.py"))
claims = importlib.util.module_from_spec(spec)
spec.loader.exec_module(claims)

checks = []
na = []
props = [json.loads(l)["id"] for l in open(os.path.join(ROOT, "properties.jsonl")) if l.strip()]
for pid in props:
    c = claims.CLAIMS.get(pid)
    if c is None or not os.path.exists(os.path.join(ROOT, "qcolint", "rules", pid.lower() + ".py")):
        na.append(dict(property_id=pid, reason=claims.NOT_APPLICABLE.get(pid, "check not built yet; no claim is made for this property")))
        continue
    checks.append(dict(
        property_id=pid,
        quick_cmd=f"{PY} -m qcolint check {pid} --tier quick",
        thorough_cmd=f"{PY} -m qcolint check {pid} --tier thorough",
        evidence_file=f"/verif/evidence/{pid}.json",
        replay_cmd_template=PY + " -m qcolint explain {path}",
        engine="qcolint",
        level_claimed=dict(category="other", text=c["text"], design_ref=c.get("design_ref", f"DESIGN.md section 2, {pid}")),
        level_note=c["note"],
        technique=c["technique"],
    ))

manifest = dict(
    version=1,
    setup_cmd=f"{PY} -m compileall -q qcolint",
    hooks=dict(
        guard="QCE_CIRCUIT_VERIF",
        enable="not needed: the static checks read /repo/src and never import it; no hook or instrumentation exists in /repo",
        baseline_off_cmd="cd /repo && /venv/bin/python -m pytest -ra -q -p no:cacheprovider --timeout=900 --continue-on-collection-errors",
        source_commits=[],
        add_only=True,
    ),
    engines=[dict(name="qcolint", path="/verif/qcolint", serves_properties=[c["property_id"] for c in checks],
                  kind_free_text="repository-specific static analysis on the Python ast: source model with MRO/dataclass metadata, "
                                 "annotation-driven resolver, symbolic normal forms (affine / Boolean truth tables), path enumeration, "
                                 "effect sets, literal table evaluation; pure stdlib, never imports qce_circuit")],
    checks=checks,
    notes=claims.NOTES,
    not_applicable=na,
)
with open(os.path.join(ROOT, "MANIFEST.json"), "w") as fh:
    json.dump(manifest, fh, indent=1)
print(f"checks={len(checks)} not_applicable={len(na)}")
