#!/bin/sh
# usage: tools/rf.sh <Cxx-rk> <prop...> : scratch worktree /tmp/rf/<id> with the stored refactor applied; run the given checks on it
id=$1; shift
wt=/tmp/rf/$id
if [ ! -d $wt ]; then
  mkdir -p /tmp/rf
  git -C /repo worktree add --detach $wt HEAD -q || exit 3
  (cd $wt && git apply /verif/refactors/$id/patch.diff) || exit 3
fi
for p in "$@"; do
  (cd /verif && /venv/bin/python -m qcolint check $p --src $wt/src --no-write 2>&1 | tail -${TAIL:-12})
done
