#!/usr/bin/env python3
"""Runs every check on every stored behaviour-preserving refactoring (/verif/refactors/<id>/patch.diff) and prints which raise an alarm
(exit 1 = false alarm of the checker) or give up (exit 2).  Scratch copies live under a temporary directory and are removed."""
import glob
import json
import os
import shutil
import subprocess
import sys
import tempfile
from concurrent.futures import ProcessPoolExecutor

VERIF = os.path.dirname(os.path.dirname(os.path.abspath(__file__)))
sys.path.insert(0, VERIF)
PROPS = sorted(os.path.basename(p)[:-3].upper() for p in glob.glob(os.path.join(VERIF, "qcolint/rules/c[0-9][0-9].py")))


def one(job):
    rid, props = job
    from qcolint.__main__ import run_check
    tmp = tempfile.mkdtemp(prefix="qcolint_rf_")
    try:
        shutil.copytree("/repo/src", os.path.join(tmp, "src"), ignore=shutil.ignore_patterns("__pycache__", "*.pyc", "*.egg-info"))
        r = subprocess.run(["git", "apply", os.path.join(VERIF, "refactors", rid, "patch.diff")], cwd=tmp, capture_output=True, text=True)
        if r.returncode:
            return rid, {"*": (3, [r.stderr.strip()[:200]])}
        out = {}
        for p in props:
            code, rep, err = run_check(p, "quick", os.path.join(tmp, "src"), write=False, quiet=True)
            if code:
                rules = sorted({f"{v['rule']} {v['construct']}" for v in (getattr(rep, "new_violations", []) or [])}) if rep else []
                out[p] = (code, rules or [(err or "").strip()[:300]])
        return rid, out
    finally:
        shutil.rmtree(tmp, ignore_errors=True)


def main():
    ids = sorted(os.path.basename(d) for d in glob.glob(os.path.join(VERIF, "refactors", "C*-r*")))
    sel = [a for a in sys.argv[1:] if not a.startswith("-")]
    if sel:
        ids = [i for i in ids if any(i.startswith(s) for s in sel)]
    bad = 0
    with ProcessPoolExecutor(max_workers=16) as ex:
        for rid, out in ex.map(one, [(i, PROPS) for i in ids], chunksize=1):
            if not out:
                print(f"{rid}: silent")
                if "--update" in sys.argv:
                    mp = os.path.join(VERIF, "refactors", rid, "meta.json")
                    m = json.load(open(mp))
                    if m.get("false_alarms") or m.get("analysis_errors"):
                        m["false_alarms"], m["analysis_errors"] = {}, {}
                        json.dump(m, open(mp, "w"), indent=1)
                continue
            bad += 1
            for p, (code, rules) in sorted(out.items()):
                print(f"{rid}: {p} exit {code}: " + " | ".join(str(x) for x in rules)[:400])
            if "--update" in sys.argv:
                mp = os.path.join(VERIF, "refactors", rid, "meta.json")
                m = json.load(open(mp))
                m["false_alarms"] = {p: r for p, (c, r) in out.items() if c == 1}
                m["analysis_errors"] = {p: r for p, (c, r) in out.items() if c == 2}
                json.dump(m, open(mp, "w"), indent=1)
    print(f"{len(ids)} refactorings, {bad} not silent")
    return 0


if __name__ == "__main__":
    sys.exit(main())
