#!/usr/bin/env python3
"""Confirms sub-agent behaviour-preserving refactorings and records the verdict of every check on them.

For every /tmp/refac_out/<Cxx>/r<k>_patch.diff: in a scratch worktree of /repo apply the patch, run the test suite (must stay green),
run the demo with and without the patch (last output line must be equal, exit 0 both), then run every check statically against the
patched tree.  A check that reports a VIOLATION on a confirmed refactoring is a FALSE ALARM of the checker.
Confirmed refactorings are kept under /verif/refactors/<Cxx>-r<k>/ (patch.diff, demo.py, meta.json).
"""
import glob
import json
import os
import shutil
import subprocess
import sys

VERIF = os.path.dirname(os.path.dirname(os.path.abspath(__file__)))
PY = "/venv/bin/python"


def sh(cmd, cwd=None, env=None, timeout=1800):
    e = dict(os.environ)
    e.update(env or {})
    r = subprocess.run(cmd, shell=True, cwd=cwd, env=e, capture_output=True, text=True, timeout=timeout)
    return r.returncode, (r.stdout + r.stderr)


def sh_out(cmd, cwd=None, env=None, timeout=1800):
    """exit code and stdout only (library warnings go to stderr and must not be mistaken for the digest line)"""
    e = dict(os.environ)
    e.update(env or {})
    r = subprocess.run(cmd, shell=True, cwd=cwd, env=e, capture_output=True, text=True, timeout=timeout)
    return r.returncode, r.stdout


def main():
    pid = sys.argv[1]
    checks_only = "--checks-only" in sys.argv
    outdir = f"/tmp/refac_out/{pid}"
    wt = f"/tmp/valr/{pid}"
    os.makedirs("/tmp/valr", exist_ok=True)
    sh(f"git -C /repo worktree remove --force {wt}")
    code, txt = sh(f"git -C /repo worktree add --detach {wt} HEAD")
    if code:
        print(txt)
        return 1
    env = {"PYTHONPATH": f"{wt}/src", "MPLBACKEND": "Agg"}
    props = sorted(os.path.basename(p)[:-3].upper() for p in glob.glob(os.path.join(VERIF, "qcolint/rules/c[0-9][0-9].py")))
    try:
        patches = sorted(glob.glob(f"{outdir}/r*_patch.diff")) if not checks_only else sorted(glob.glob(os.path.join(VERIF, "refactors", f"{pid}-r*", "patch.diff")))
        for patch in patches:
            k = os.path.basename(patch).split("_")[0] if not checks_only else os.path.basename(os.path.dirname(patch)).split("-")[1]
            rid = f"{pid}-{k}"
            dst = os.path.join(VERIF, "refactors", rid)
            if not checks_only and os.path.exists(os.path.join(dst, "meta.json")) and "--force" not in sys.argv:
                continue    # confirmed and stored in an earlier run
            sh("git checkout -- . && git clean -fdq", cwd=wt)
            if sh(f"git apply {patch}", cwd=wt)[0]:
                print(f"{rid}: patch does not apply")
                continue
            meta = {}
            if not checks_only:
                demo = f"{outdir}/{k}_demo.py"
                try:
                    meta = json.load(open(f"{outdir}/{k}_meta.json"))
                except Exception:
                    meta = {}
                tcode, ttxt = sh(f"{PY} -m pytest -q -p no:cacheprovider --timeout=900 -x 2>&1 | tail -3", cwd=wt, env=env)
                green = "61 passed" in ttxt and "failed" not in ttxt
                c1, o1 = sh_out(f"{PY} {demo}", cwd=wt, env=env, timeout=900)
                sh("git checkout -- . && git clean -fdq", cwd=wt)
                c0, o0 = sh_out(f"{PY} {demo}", cwd=wt, env=env, timeout=900)
                sh(f"git apply {patch}", cwd=wt)
                last = lambda o: (o.strip().splitlines() or [""])[-1]
                same = c0 == 0 and c1 == 0 and last(o0) == last(o1)
                meta["confirmed"] = dict(tests_green=green, demo_exit_patched=c1, demo_exit_clean=c0, digest_equal=last(o0) == last(o1))
                if not (green and same):
                    print(f"{rid}: NOT confirmed as behaviour preserving: {meta['confirmed']}")
                    continue
            else:
                meta = json.load(open(os.path.join(dst, "meta.json")))
            alarms, errors = {}, {}
            for p in props:
                code, txt = sh(f"{PY} -m qcolint check {p} --src {wt}/src --no-write", cwd=VERIF)
                if code == 1:
                    alarms[p] = [ln for ln in txt.splitlines() if ": C" in ln and "[" in ln and not ln.startswith(("VIOLATION", "KNOWN", "["))][:3]
                elif code == 2:
                    errors[p] = [ln for ln in txt.splitlines() if ln.startswith("ANALYSIS-ERROR")][:1]
            meta["property"] = pid
            meta["false_alarms"] = alarms
            meta["analysis_errors"] = errors
            meta["what_was_run"] = "scratch worktree: git apply; pytest (61 passed); demo digest with/without patch equal; qcolint check <all> --src <scratch>/src"
            os.makedirs(dst, exist_ok=True)
            if os.path.abspath(patch) != os.path.abspath(os.path.join(dst, "patch.diff")):
                shutil.copy(patch, os.path.join(dst, "patch.diff"))
            if not checks_only and os.path.exists(f"{outdir}/{k}_demo.py"):
                shutil.copy(f"{outdir}/{k}_demo.py", os.path.join(dst, "demo.py"))
            json.dump(meta, open(os.path.join(dst, "meta.json"), "w"), indent=1)
            print(f"{rid}: confirmed; FALSE ALARMS: {alarms or 'none'}; undecided (exit 2): {errors or 'none'}")
    finally:
        sh(f"git -C /repo worktree remove --force {wt}")
    return 0


if __name__ == "__main__":
    sys.exit(main())
