#!/usr/bin/env python3
"""Runs every check on every stored seeded defect (``--update`` records the verdicts in each meta.json) (/verif/seeded/<id>/patch.diff) and prints which checks report it; a seed whose own
property check stays silent is listed as MISSED.  Scratch copies live under a temporary directory and are removed."""
import glob
import json
import os
import shutil
import subprocess
import sys
import tempfile
from concurrent.futures import ProcessPoolExecutor

VERIF = os.path.dirname(os.path.dirname(os.path.abspath(__file__)))
sys.path.insert(0, VERIF)
PROPS = sorted(os.path.basename(p)[:-3].upper() for p in glob.glob(os.path.join(VERIF, "qcolint/rules/c[0-9][0-9].py")))


def one(job):
    rid, props = job
    from qcolint.__main__ import run_check
    tmp = tempfile.mkdtemp(prefix="qcolint_sd_")
    try:
        shutil.copytree("/repo/src", os.path.join(tmp, "src"), ignore=shutil.ignore_patterns("__pycache__", "*.pyc", "*.egg-info"))
        r = subprocess.run(["git", "apply", os.path.join(VERIF, "seeded", rid, "patch.diff")], cwd=tmp, capture_output=True, text=True)
        if r.returncode:
            return rid, {"*": (3, [r.stderr.strip()[:200]])}
        out = {}
        for p in props:
            code, rep, err = run_check(p, "quick", os.path.join(tmp, "src"), write=False, quiet=True)
            if code:
                rules = sorted({f"{v['rule']} {v['construct']}" for v in (getattr(rep, "new_violations", []) or [])}) if rep else []
                out[p] = (code, rules or [(err or "").strip()[:300]])
        return rid, out
    finally:
        shutil.rmtree(tmp, ignore_errors=True)


def main():
    ids = sorted(os.path.basename(d) for d in glob.glob(os.path.join(VERIF, "seeded", "C*-m*")))
    sel = [a for a in sys.argv[1:] if not a.startswith("-")]
    if sel:
        ids = [i for i in ids if any(i.startswith(s) for s in sel)]
    missed = 0
    with ProcessPoolExecutor(max_workers=16) as ex:
        for rid, out in ex.map(one, [(i, PROPS) for i in ids], chunksize=1):
            own = rid.split("-")[0]
            code = out.get(own, (0, []))[0]
            tag = "FIRES" if code == 1 else ("UNDECIDED(exit 2)" if code == 2 else "MISSED")
            if code != 1:
                missed += 1
            if "--update" in sys.argv and "*" not in out:
                mp = os.path.join(VERIF, "seeded", rid, "meta.json")
                try:
                    meta = json.load(open(mp))
                except Exception:
                    meta = {}
                meta["checks_run"] = PROPS
                meta["detected_by"] = {p: sorted({str(r).split(" ")[0] for r in rules}) for p, (c, rules) in sorted(out.items()) if c == 1}
                meta["analysis_errors"] = {p: [str(r)[:300] for r in rules] for p, (c, rules) in sorted(out.items()) if c == 2}
                json.dump(meta, open(mp, "w"), indent=1)
            print(f"{rid}: own-property check {tag}: " + "; ".join(f"{p}={c}:{','.join(sorted({str(r).split(' ')[0] for r in rules}))[:60]}" for p, (c, rules) in sorted(out.items())))
    print(f"{len(ids)} seeded defects, {missed} not reported by their own property's check")
    return 0


if __name__ == "__main__":
    sys.exit(main())
