"""Per-property claim texts used by gen_manifest.py (kept next to the rules they describe)."""

NOTES = ("All checks are static analyses (python ast) of /repo/src/qce_circuit as it is at run time; no check imports or "
         "executes repository code. Exit 0 = every rule obligation discharged, exit 1 + VIOLATION line = a rule instance "
         "failed that known_findings.json does not list, exit 2 + ANALYSIS-ERROR = the checker could not decide "
         "(anchor vanished, instance floor missed, code outside the supported fragment). Thorough tier = quick tier + "
         "self-test of the rules on a corpus of broken / behaviour-preserving variants (scratch copies, never executed).")

NOT_APPLICABLE = {}

CLAIMS = {
    "C19": dict(
        text=("Decides the four relations from their source: the Boolean formula computed by ChannelIdentifier.__eq__, "
              "EdgeIDObj.__eq__ and QubitIDObj.__eq__ is extracted (locals, properties and helper methods inlined) and "
              "tabulated over the complete finite domain of its atoms, then compared with the required relation "
              "(overlap / unordered pair / name equality, symmetry, never across qubits); hash expressions are compared "
              "in a commutative normal form under the qubit swap; unique_in_order is decided as a loop summary "
              "(whole input, append iff unseen, mark seen). The domain is finite, so for these functions the verdict "
              "is exhaustive rather than sampled."),
        note=("Trusted: python semantics of ==/in/and/or on the extracted atoms; the enumeration member named ALL is "
              "the all-channels member; identifiers' component equality (int / str) is an equivalence. Not covered: "
              "hash/eq consistency of ChannelIdentifier (C19 states none)."),
        technique="static analysis: Boolean normal form by truth table over extracted atoms; loop summary by path enumeration",
    ),
    "C05": dict(
        text=("Decides the structural half of copy faithfulness for every class instead of for sampled circuits: for each "
              "of the 27 concrete operation classes, both link classes and the acquisition strategy, the MRO-resolved "
              "copy() is evaluated symbolically and must construct the class itself, passing every init-field of its own "
              "dataclass (same value; link / strategy fields through .copy(<the lookup parameter>)); the composite copy is "
              "a loop summary (all nodes, parents first; copy-with-lookup, register, add, unconditional and in order); "
              "link copies map their references through the lookup; lookup-key classes are hashable and their generated "
              "equality must compare all structural state; copies own a fresh graph, nesting uses a copy, repeat uses a "
              "fresh copy of a pre-loop snapshot per iteration; registry re-targeting goes through the lookup. "
              "These are necessary conditions of the behaviour: breaking any of them changes what a copy reports."),
        note=("Decided: per-class field completeness, link transfer, lookup discipline, key identity, fresh structure. Not "
              "decided: equality of schedules as numbers (follows from C01 for faithful links) and independence under "
              "arbitrary later mutation beyond 'no structural object is shared'. Trusted: dataclass semantics of "
              "init/compare/unsafe_hash as documented; duration/repetition strategies are value objects shared on purpose."),
        technique="static analysis: symbolic evaluation of every copy() against dataclass metadata; loop summaries; eq/hash kind from decorator parameters",
    ),
    "C01": dict(
        text=("Decides the local facts from which relation-based timing follows by induction over the acyclic reference "
              "order: the relation equations of RelationLink.get_start_time are tabulated over (reference present/absent) x "
              "every RelationType member and compared with the specified affine forms; end = start + duration in every "
              "definition; all 27 concrete operation classes ask their own link with their own duration and their link "
              "getter/setter use one field; MultiRelationLink picks the latest-ending member of the whole group and "
              "applies the same equations; the implicit predecessor is searched deepest-first with an any-channel match "
              "over the whole argument; add_to_graph appends exactly one node on every feasible path with graph parent == "
              "relation reference; the duration that enters the equations is the configured one (operation -> strategy -> registry "
              "lookups by the operation's own key, incl. the temporary override); nesting and unrolling hand the block / group link to exactly the operations without "
              "relation. Each is a necessary condition: breaking it changes a reported time for some build program."),
        note=("Not decided: numeric agreement of reported times under memoisation (C03); JOINED_END handed to first children "
              "of a nested block uses the child's duration (unreachable through DeclarativeCircuit.add, DESIGN 5b). Trusted: "
              "the specified equations; acyclicity of references (an operation can only refer to an earlier one)."),
        technique="static analysis: affine/Boolean normal forms of the relation equations, loop summaries, feasible-path enumeration of add_to_graph",
    ),
    "C04": dict(
        text=("Decides the span computation from its source: the two accumulations of CircuitCompositeOperation.duration are "
              "summarised as running extremes (direction from the comparison, candidate as a function of the element, initial "
              "value, iteration domain) and the returned expression is normalised to  max over nodes of end_time  -  min over "
              "nodes of start_time ; both must range over ALL nodes of the block's graph (not a depth layer, the relation "
              "leaves or a slice), the minimum must be complete before it is subtracted, accumulators must start neutral, "
              "and only an empty block may return the constant 0. The figure width of the drawing is decided the same way "
              "(max(1, latest end over all listed operations) + 1). Holds for every block shape because it is a statement "
              "about the code, not about sampled circuits."),
        note=("Not decided: the 'consequently' sentence (a corollary of D1/D2 with C01). Trusted: end_time = start_time + "
              "duration (C01.R2); durations are non-negative (so 0 is neutral for a maximum of end - earliest start)."),
        technique="static analysis: loop summaries of min/max accumulators with iteration-domain classification; affine normal form of the result",
    ),
    "C02": dict(
        text=("Decides, for every graph shape rather than for sampled circuits, that the listing loses and duplicates nothing: the "
              "breadth-first cache builder is summarised as a data flow (every layer recorded; every node hands ALL its successors "
              "except the branch endpoint to the next layer; only unique_in_order de-duplicates; collector reset per layer; nothing "
              "else shrinks the collections) and the three iterators must yield every cached node; node equality must include a "
              "counter-fed identifier; add_to_graph appends exactly one fresh node under the node of its reference on every feasible "
              "path (parent layer before child layer = causality); every pointer-changing branch method reaches the cache refresh and "
              "nobody outside the graph classes touches pointers or caches (who-may-call over all functions); the composite expands "
              "all nodes unconditionally and all 26 leaf classes list exactly [self]; the transitive write set of `operations` "
              "(call graph + effect analysis) contains no graph / cache / structure location; add returns what it added and every "
              "sub-circuit is routed through the copying path; copies keep kind / qubits / duration (shared with C05)."),
        note=("Not decided: behaviour beyond MAX_GRAPH_DEPTH (documented limit). The write of relation_link while listing is a C03 "
              "matter (C03.H2) and is not a graph location. Trusted: list/set semantics of python; the call graph is annotation "
              "driven (resolution statistics are in the evidence)."),
        technique="static analysis: data-flow summary of the traversal loop, feasible-path enumeration, who-may-call scan, call-graph effect sets",
    ),
    "C03": dict(
        text=("Decides history-independence as an effect question over the whole package instead of over sampled histories. "
              "H1: the mutable locations of the package (every write to an existing object outside constructors, from the effect "
              "analysis) that a memoised function transitively reads (call graph closure of every lru_cache/cache function) must be "
              "invalidated by each writer: memo.cache_clear() -- directly, through clear_lru_cache, or through a callee that clears on "
              "all its exits (fixed point) -- after the write on every normal exit, and before a context manager yields; calls of "
              "graph-mutating methods from outside the graph classes carry the same obligation. H2: the transitive write set of "
              "29+ public observers (listing, times, duration, indices, exporters, drawing) must contain no circuit state. H3: the "
              "temporary override restores, in a finally, the value read from the same location on entry. H4: copy-lookup keys "
              "have sound identity (C05.K4). Every (memo, location, writer) triple is one obligation."),
        note=("Known findings (recorded, exit 0): listing re-links first operations of nested blocks (H2) and sub-circuits compare "
              "by value (H4). Not decided: purity of user callables (DynamicDurationStrategy.duration_call) -- assumed pure; "
              "hash-key coverage is deliberately not used to exempt writers (an id-hashed Barrier upstream defeats it). A batch "
              "invalidation guarded by a flag variable would be reported (path-insensitive to the flag)."),
        technique="static analysis: call-graph closure of memoised functions x effect analysis (write catalogue) with must-invalidate-after-write path check",
    ),
    "C06": dict(
        text=("Decides the structural skeleton of unrolling for all nestings and counts: apply_modifiers_to_self repeats with the block's own "
              "count on every path where it can exceed 1, resets the count to a fixed 1 on EVERY path, then recurses unconditionally into all "
              "nodes of the graph as it is after the repeat (a list collected before the repeat is rejected); repeat() iterates exactly "
              "times - 1 (affine comparison of the range bounds) and extends with a fresh copy of a pre-loop snapshot each time; the copies are "
              "chained behind the latest of ALL leaves (shared C01.R4/R7); all 26 leaf classes return self untouched; the declarative wrapper "
              "delegates; fixed / registry strategies report the configured count. Multiplicativity of nested counts and idempotence follow "
              "by induction from these facts."),
        note=("Not decided: the numeric clause 'occupies n*T' and 'listing = n-fold concatenation' (layer order of the rebuilt graph is a run-time "
              "fact; sub-agents observed the unchanged tree deviating from it for some library circuits after flatten, see DESIGN 5b). "
              "Trusted: range semantics; DynamicRepetitionStrategy callables are user code."),
        technique="static analysis: ordered-effect (typestate) check on feasible paths, affine comparison of loop bounds, syntactic freshness of the per-iteration copy",
    ),
    "C07": dict(
        text=("Decides the index computation for all interleavings of qubits and tags from the code of the scan: "
              "AcquisitionRegistry.get_registry_at is tabulated over the complete case split (is acquisition, key match, same qubit) -- counters "
              "start at 0, range over the whole listing of the reference circuit, the match returns the counters BEFORE any increment and maps "
              "them to the right fields, the qubit counter grows exactly for same-qubit acquisitions and the circuit counter for every "
              "acquisition; accessors read the right field; both filter variants keep exactly the acquisitions with the requested qubit / qubit "
              "and tag (Boolean equivalence) and append acquisition_index; identifiers carry a counter-fed unique id and are built from the "
              "operation's own qubit and tag; every place that binds a circuit's structure binds its registry to that structure; copies "
              "re-target through the lookup and sub-circuits take the copying path. Hence circuit-level indices are 0..N-1 and per-qubit "
              "indices 0..n_q-1 in listing order."),
        note=("Not decided: 'indices increase with measurement start time' (a timing fact; follows from C01/C02 for implicitly sequenced "
              "circuits). Position in the exported record = listing order is C08.S2. Trusted: dataclass field semantics."),
        technique="static analysis: loop summary by exhaustive case table over extracted atoms, Boolean equivalence of filters, typed store pairing",
    ),
    "C08": dict(
        text=("Decides that the exporter is an instruction-by-instruction image of the listing for all circuits: the 15-entry "
              "operation-type -> gate table is evaluated from its literal and compared with the documented mapping (a missing or re-mapped "
              "class is reported); the factories emit the configured name on get_qubit_index(operation) (order-preserving unique qubits of "
              "the operation's own channels), TICK, or the operation's own annotation; the walk is tabulated over (is sub-circuit, is "
              "supported): whole node iterator in order, sub-circuit -> recursive export added operation.nr_of_repetitions times, supported "
              "-> exactly one append of its own factory's result, unsupported -> nothing, nothing emitted outside the walk; detector, "
              "observable and coordinate-shift instructions are tabulated over all 16 None-ness cases with their record offsets compared "
              "in affine normal form."),
        note=("Not decided: 'identical program before/after unrolling for library circuits' (layer order of a rebuilt graph is a run-time "
              "fact); the multiset clause follows from S2 with C06. Trusted: the documented mapping and offset forms (spec table in the "
              "rule), stim's CircuitInstruction/target_rec semantics."),
        technique="static analysis: literal table evaluation vs. spec, exhaustive case table of the walk, affine normal forms of record offsets",
    ),
    "C12": dict(
        text=("Every index quantity is piecewise affine in (start S, heralded h in {0,1}, rounds n >= 0), so the property is decided "
              "exactly: each getter of the repetition kernel is normalised to an index interval in all 18 regions (h x {n=0, n=1, n=k+2 "
              "with k >= 0 symbolic} x {data, ancilla, foreign qubit}) -- max()/comparisons resolved by the sign of affine forms over the "
              "non-negative region symbol -- and compared with the tiling layout (heralded = S iff h; stabilisers = S+h+[0..n-2]; final = "
              "stop = S+h+max(0,n-1); nothing for an ancilla's final at n=0 and for foreign qubits), which implies inside-the-kernel, "
              "pairwise disjoint and covering; the six calibration getters are consecutive from S in the documented order; kernels are "
              "chained previous stop + 1 by both chain builders; repetitions are exact translates by last.stop - first.start + 1; every "
              "experiment getter slices the matching category; the estimate divides by the same cycle length and asserts exactness."),
        note=("Assumption: numpy broadcasting of scalar + asarray(range). A vectorised create_sliced_arrays is decided on all shapes up to 4 x 4 only "
              "(bounded; numpy operations outside the transcribed set -- repeat, tile, reshape, arange, newaxis, broadcasting, stack -- leave it undecided, exit 2). GeneralCalibrationIndexKernel (outside the mechanism list, unused by the experiment kernel) is decided by X9 for its four flag settings, with repetitions symbolic. Trusted: range/list semantics."),
        technique="static analysis: piecewise-affine normal forms over symbolic regions (no solver: coefficient-wise sign decisions); abstract interpretation of array index maps with symbolic elements",
    ),
    "C14": dict(
        text=("Decides the noise dresser from its source for all circuits and settings: (N1) in the dresser walk, the measurement dresser, "
              "the block splitter and the Pauli pass every input instruction reaches an emit on every path (path enumeration of the loop "
              "bodies, read through accumulator-loop / comprehension / flat-map normal forms; (N6) targets are every token after the gate name, "
              "annotations have none, idle noise ranges over all targets of all instructions; "
              "bodies; [noise, *block, noise] wrapping; tail block yielded; one measurement per target on the same target); (N2/N3) inserted "
              "names and every string key that is later looked up with instruction.name are checked against a frozen table of Stim aliases "
              "-- an alias key (the historic 'MZ') can never match; (N4) the idle channel is compared in affine normal form with "
              "px = py = (1-e^{-t/T1})/4, pz = (1-e^{-t/T2})/2 - (1-e^{-t/T1})/4 at t = half the maximum over the WHOLE block, each clamped "
              "to [0,1], and X+Y+Z <= 1 by interval arithmetic over e^(.) in [0,1]; (N5) the index whose settings are looked up is the "
              "very target the emitted instruction acts on, indexed settings fall back to defaults only for unmapped indices, duration keys "
              "read their own duration field, apply_noise hands the given map to the factory."),
        note=("Trusted: Stim reports canonical names (alias table frozen in the checker; the thorough tier cross-checks it against the "
              "installed stim when importable); numpy exp/min/max semantics. Not decided: numeric values of probabilities."),
        technique="static analysis: path enumeration of emit loops, literal key tables vs. alias reference, affine normal form + interval bound of the error formula",
    ),
    "C15": dict(
        text=("Decides the OpenQL exporter from its source: the 13-entry operation-type -> instruction table is evaluated from its literal and "
              "compared with the documented names; the name, wait, barrier and controlled-phase factories are checked as ordered effect sequences "
              "on the kernel (cz, barrier on the pair, update_ph control, update_ph target; wait keeps int(duration) on the operation's qubits); "
              "the walk is tabulated over (is sub-circuit, is supported): all nodes in order, a sub-circuit added nr_of_repetitions times, one "
              "kernel extension per supported operation, nothing for unsupported ones, final add_kernel; a typestate rule on the pending kernel "
              "(flush before a sub-program is added) and a name-freshness rule for repetitions; determinism of names by a backward slice "
              "(ordered class names of the listing -> uuid5; no uuid1/uuid4/random/time/id/hash/set)."),
        note=("The two defects first recorded as known findings (pending kernel emitted after all sub-programs, O4; repetitions re-using one kernel name, O5) are "
              "repaired in the repository (fix 4c9eb26, listed under 'fixed' in known_findings.json, which suppresses nothing). Trusted: documented instruction names; "
              "OpenQL's Program/Kernel API semantics. The cQASM text itself is not examined."),
        technique="static analysis: literal table vs. spec, ordered-effect (typestate) rules on kernel/program calls, case table of the walk, backward slice of names",
    ),
    "C16": dict(
        text=("Claimed in part. Decided statically: the three frequency-group comparisons are tabulated over all 9 group pairs against the strict "
              "order LOW < MID < HIGH (trichotomy); the Surface-17 tables are evaluated from their literals (17 qubits each with a group, 24 "
              "edges each joining two different groups, so the lower-frequency member of every gate is defined); on_moving_side is the "
              "conjunction 'edge contains q and group(q) higher than group(partner)'; get_requires_parking has the skeleton spectator (over ALL "
              "gates) and not participant and EXISTS involved neighbour (higher and moving) where the candidates are exactly the direct neighbours "
              "that are part of one of the given gates, each taken with its own group and with THE gate it is part of (the pairing is read from "
              "the zipped lists / index lookup, a collector scan or a first-edge table into one description), and get_requires_idle is its exact "
              "mirror (sibling comparison of that description after swapping the two primitives); the grouping enumeration records only complete partitions and removes exactly the "
              "chosen combination; a grouping is kept iff every step passed get_mutually_allowed on all its gates, which tests every ordered pair; "
              "(Q7) the constraint an operation puts on a qubit: a member qubit may do nothing else, a far qubit is free, a neighbour is forbidden "
              "every intersecting gate plus idle-and-non-moving gates when it must park plus park-and-moving gates when it must idle; allowed = "
              "possible (idle, park, every edge, of every qubit) minus the constraints of every qubit; (Q9) the device primitives those skeletons are "
              "written in: an edge contains exactly its two qubits and pairs each with the other, the edges of a qubit are ALL device edges containing "
              "it, its neighbours the partners on all of them, the spectators of a gate the neighbours of BOTH its qubits, the group of a qubit its "
              "table entry; (Q8) with every function pinned to its skeleton, the exhaustive statement is a fact about the literal device tables and is "
              "evaluated in the checker's own transcription of the skeletons over the extracted tables: for all 12950 subsets of up to four of the 24 "
              "edges acceptance == collision-freedom, and for all qubit-disjoint subsets and idle qubits requires-parking == neighbours the moving "
              "member of an active gate at that gate's operating level."),
        note=("The exhaustive clause is decided for the skeletons, not by running the repository's functions: Q8 is sound only together with Q1, Q3..Q7, "
              "Q9 (each an equivalence with the transcribed skeleton); it does not enumerate get_forbidden_operations itself. The parking clause is "
              "stated for qubit-disjoint gate sets (for overlapping gates the repository pairs a neighbour with the first gate that contains it). "
              "Trusted: itertools.combinations; list membership / unique_in_order semantics."),
        technique="static analysis: truth tables over enum domains, literal table evaluation, sibling-mirror comparison of normal forms, loop summaries",
    ),
    "C17": dict(
        text=("The shipped layouts are literal tables, so their executability is decided completely: the Surface-17 tables (17 qubits, 24 edges, "
              "frequency groups, parity groups, feedlines) and all 18 layers / 40 gates of the three repetition layouts are evaluated from the "
              "constructor literals and checked: every gate is a device edge (unordered); qubits of a layer pairwise distinct; nobody parked and "
              "gated at once; every qubit that REQUIRES parking -- by the checker's own predicate over the extracted tables, not the repository's "
              "function -- is parked; each parity-group edge exactly once per sequence and nothing else; the generic layer delegates device queries "
              "to the Surface-17 layer. Derived descriptions: from_connectivity keeps a gate iff ALL qubits of its edge are involved (universal "
              "quantifier over the whole qubit pair and the whole gate list), recomputes parking from the kept gates over all device qubits, and "
              "maps identifiers by enumerate (injective by construction); composite exclusions only remove gates and park for what remains; edge "
              "identity is order independent (shared C19.I2)."),
        note=("Decides the tables exhaustively (they are finite literals) and the derivation structurally for ALL subsets of involved qubits. "
              "Trusted: the parking predicate of DESIGN C16.Q4 as the meaning of 'requires parking'; parking more than required is allowed."),
        technique="static analysis: literal table evaluation with relational checks between tables; quantifier / iteration-domain classification of the derivation filters",
    ),
    "C18": dict(
        text=("Claimed in part. Decided statically: the geometry of the drawing -- pivot x = start_time, y = -(row of identifier.id in the requested "
              "order) x spacing, width = duration, compared in affine normal form; construct_transform built from exactly these; all 24 "
              "construct_transform call sites of the 20+ draw factories take identifier AND time component from the drawn operation itself "
              "(who-passes-what scan); bars / headers on the row of their index; figure width max(1, latest end)+1 (shared C04.D3); "
              "reorder_indices rejects exactly the orders naming an unoccupied channel and returns requested ++ remaining-in-order; the label "
              "map is written and read by ROW index, states follow the rows; compact drawing runs inside the scoped duration override, whose "
              "enter/exit invalidate every memo and restore the entry value (shared C03.H1/H3), and drawing entry points write no circuit "
              "state (shared C03.H2)."),
        note=("NOT decided: that matplotlib rendering succeeds for every circuit; kinds of two-qubit operations the bulk factory silently skips are "
              "reported only. Known finding (recorded, exit 0): reading circuit.operations while drawing re-links first operations of nested "
              "blocks (same defect as C03.H2)."),
        technique="static analysis: affine normal forms of the geometry, argument-provenance scan over factory call sites, Boolean/loop forms of the ordering helpers, shared effect rules",
    ),
    "C11": dict(
        text=("Claimed in part. Decided statically (necessary conditions of 'flattening removes the nesting only'): apply_flatten_to_self builds a "
              "fresh graph from the complete listing self.decomposed_operations() with exactly one add_to_graph per listed element and no "
              "filter, rebinds the graph and returns self on EVERY path (an 'already flat' shortcut is rejected); with the in-place expansion "
              "of C02.L5 no sub-circuit survives and a second flatten sees the same elements; DeclarativeCircuit.flatten delegates and keeps its "
              "registry on the flattened structure; the multi-round constructor builds each block with the caller's description, unrolls, "
              "then flattens, then adds it followed by a barrier, calibration last; re-linking while rebuilding is decided by C01.R6 (one "
              "node per operation, under its reference, root only after a real empty-channel query)."),
        note=("NOT decided: identity of listing order, schedule, acquisition indices and exported Stim program before/after flattening -- these "
              "depend on the layer order of the rebuilt graph (sub-agents observed the unchanged tree deviating for >= 3 data qubits and >= 3 "
              "cycles; recorded in DESIGN 5b, not decidable here)."),
        technique="static analysis: loop summary with iteration-domain and exactly-one-emit checks on feasible paths; ordered-effect check of the constructor",
    ),
    "C09": dict(
        text=("Claimed in part; the simulated measurement record and determinism of detectors are NOT decidable by static analysis and are not "
              "claimed. Decided (necessary conditions of the protocol): cycle accounting -- for qec_cycles = 1..8 exactly and k+9 symbolically the "
              "fixed repetition counts of the sub-circuits that get_circuit_qec_with_detectors adds sum to qec_cycles with every count >= 1, and "
              "0 cycles emit one measurement per ancilla and no round; every record-offset argument of the detector / observable annotations "
              "(last index, main / secondary target, reference / secondary offset, per block and for the final detectors under all sign cases of "
              "the cycle thresholds) equals the pinned protocol normal form; blocks start with the right round builder (refocusing / plain) and "
              "advance the time coordinate; the plain and refocusing round builders agree on the gate part; what the round builders are told about "
              "a layer (gate index pairs, parks, active ancillas; None exactly outside the layer range) is every edge / park / rotation ancilla of that "
              "layer mapped through the index map; the "
              "initial-state -> gate table is exhaustive and correct, data / ancilla getters read their own container under a guard on that "
              "container, get_operations wires data keys to data getter and data ids, ancilla keys to ancilla getter and ancilla ids; derived "
              "descriptions and chains carry the refocusing option, which guards the echo block (Wait, Rx180, Wait per data qubit)."),
        note=("Trusted base: the pinned offset forms (DESIGN C09.P2; they are what the golden tests and a one-off noiseless simulation showed to "
              "be deterministic) and the physics of the state table. Not decided: record values, detector determinism, behaviour after unrolling / "
              "flattening (C06/C11)."),
        technique="static analysis: builder summaries (ordered emits under loops and guards), piecewise-affine region analysis of repetition counts, pinned normal forms of annotation arguments, sibling comparison",
    ),
    "C10": dict(
        text=("Claimed in part; that no two operations overlap is a timing fact over all inputs and duration settings and is NOT decided. Decided "
              "(necessary conditions, for all constructor inputs and all positive durations): the refocusing wait has the affine form max(0, "
              "(READOUT - MICROWAVE)/2) and, with Rx180 lasting MICROWAVE and the measurement READOUT (duration keys read from the class "
              "defaults), the echo Wait, Rx180, Wait lasts at least READOUT in both regions READOUT >= MICROWAVE and READOUT < MICROWAVE -- decided "
              "coefficient-wise on the extracted form; the structural delimiters: an unconditional all-qubit barrier right before the parity "
              "measurements and closing the refocusing round, every activation / gate+park / phase-update group closed by an all-qubit barrier on "
              "every body path on which the group can be non-empty (feasibility by truth table), preparation wrapped in two barriers, reset of "
              "every prepared qubit before heralded measurement, calibration pulses and final measurements FOLLOWED_BY the last operation of the "
              "preceding group (relation re-taken between the groups); and duration changes invalidate memoised times (shared C03.H1)."),
        note=("NOT decided: absence of overlap in general (sub-agents report overlaps on the unchanged tree for the simplified constructor with "
              ">= 2 cycles and a Ry90 inside a barrier for 6 cycles after unrolling -- run-time facts outside this family, recorded in DESIGN 5b). "
              "Trusted: barriers separate what precedes from what follows on their qubits (C01/C19)."),
        technique="static analysis: affine normal form with region-wise sign decision; builder summaries with must-be-closed (typestate) analysis of emit groups per feasible body path",
    ),
    "C13": dict(
        text=("Claimed in part; equality of the concrete index arrays depends on the run-time listing order and is NOT decided. Decided: the two "
              "independent encodings of the experiment layout agree on COUNTS and ORDER for all rounds lists: from builder summaries, the round "
              "block acquires every measured qubit once heralded, every measured ancilla once per round (both round builders), rounds summing to "
              "the cycle count (0..8 exactly, k+9 symbolically; one direct ancilla measurement for 0 cycles), data qubits only in the final "
              "measurement -- and this per-ancilla count, as a piecewise-affine form, equals the kernel length of RepetitionIndexKernel with "
              "heralded initialisation in every region; the calibration block makes 3 states x (heralded + final) = the calibration kernel "
              "length with h = 1 and a qutrit calibration includes all three states; categories come in the order heralded, parity, final and "
              "calibration states in the order 0, 1, 2 (the order of the kernels' increasing offsets, C12.X2/X3 shared); blocks follow the "
              "rounds list with calibration last on both sides (C11.F3 and C12.X1 shared)."),
        note=("Not decided: the per-index equality of circuit acquisition indices and kernel getters (needs the listing order of the flattened "
              "multi-round circuit). The documented 0-round difference (circuit measures the ancilla, kernel reports no projected index) is part "
              "of the compared forms. Trusted: C07 (indices follow the listing)."),
        technique="static analysis: builder summaries (emit counts under loops) compared with piecewise-affine kernel normal forms, region by region",
    ),
}


# -- rules added in phase 4 (second round of independently seeded changes), appended to the claim texts above --------------------------------
_ADDED = {
    "C01": " (R11) The duration that enters an operation's equations under the global settings is the setting of its own kind: class -> kind table and "
           "'the kind is a channel the operation books' agreement between duration_strategy and channel_identifiers (shared C10.T4).",
    "C02": " (L9) The graph primitives attach what they are given: append_pointers_to performs endpoint.point_towards(p) for every element of the whole list on every "
           "body path (no test, in particular no value comparison of operations, can skip a node), append_pointer_to hands over exactly [pointer], point_towards records "
           "successor and predecessor unconditionally. (L10) DeclarativeCircuit.operations is the structure's decomposed_operations() evaluated on every call, and "
           "decomposed_operations walks the graph on every call (no return path answers from a listing stored on the block).",
    "C04": " (D4) DeclarativeCircuit.duration is the structure's duration evaluated on every call (one return, no stored value). (D5) end_time == start_time + duration "
           "in every definition (shared C01.R2).",
    "C05": " (K8) Nesting a circuit copies it whichever way it is handed over: add() routes every sub-circuit (declarative circuit or bare structure) to the copying "
           "path before the plain-operation case (shared C02.L7).",
    "C06": " (U5) What unrolling reads is current: every memoised function reachable from apply_modifiers_to_self / nr_of_repetitions (call graph) is invalidated by "
           "each writer of what it reads (C03.H1 restricted to that path) -- a memoised registry lookup would unroll a stale count.",
    "C07": " (A8) The index lookup keeps no state between calls: get_registry_at (with the private helpers it runs) and the index accessors store nothing on the "
           "registry or the operation.",
    "C08": " Guards that test the VALUE of an optional integer (`if self.secondary_target:`) are tabulated as sub-cases (zero / non-zero) in which the specified "
           "instruction must not change; incremental spellings (a look-back list extended by appends, len() tests, xs[0] references) are read through list normal forms.",
    "C10": " (T4) Every operation class with a global duration lasts for the setting of its own kind (specification table of 15 classes) and that kind is a channel "
           "the operation occupies (sibling agreement between duration_strategy and channel_identifiers).",
    "C11": " (F5) apply_flatten_to_self calls no other structural mutator: every method it invokes on self besides the rebuild has a transitive write set (call graph + "
           "effect analysis) free of graph / repetition-count locations (unrolling pending repetitions while flattening changes the multiset of leaves).",
    "C12": " The estimate's cycle length is read either as the span of chained kernels or as a closed form sum over rounds of g(n) + c, where g must equal the block "
           "length heralded + max(1, n) in the regions n = 0, 1, k+2 and c the calibration length; a vectorised create_sliced_arrays is decided by interpreting its numpy "
           "expressions on symbolic elements for all shapes up to 4 x 4 (index map cell (i, j) == int_list[j] + i * cycle_length); every way out of an experiment getter "
           "is either the first-match scan hit or the empty answer.",
    "C13": " (M4) What the experiment kernel reports for a block of n rounds is read from the kernel of that block, selected by its own round count over the whole kernel "
           "list (shared C12.X4; lookup helpers of the class are read in place); the single ancilla acquisition of a 0-round block carries the 'final' tag.",
    "C16": "",
    "C17": " (Y9) The parks of derived descriptions are computed by get_requires_parking at run time, so its skeleton, the frequency order, the moving side and the device "
           "primitives are part of this check (shared C16.Q1/Q3/Q4/Q9); a single scan that both rejects participants and accepts on the first demanding gate is reported as "
           "order dependent.",
    "C19": " Bit-mask spellings are evaluated: module-level tables built by comprehensions with later item assignments, enum auto() values, shifts and bitwise operations on "
           "constants reduce under the concrete valuations of the truth table.",
}
_ADDED3 = {
    "C01": " (R12) The memoised start time returned for an operation is its own: the key of every keyed memo separates links whose results can differ (identity, a compared "
           "counter-fed identifier, or every field the memoised closure reads is compared; shared C03.H5). (R13) A block's channel listing, de-duplicated through a hash "
           "container, keeps the ALL identifier next to a specific one: ChannelIdentifier's hash separates the channels of a qubit. extend(): a return path that appends "
           "nothing is accepted only when its condition implies the appended block is empty.",
    "C03": " (H5) memo key soundness, (H6) a container handed out by a getter and changed in place by an observer is fresh on every call and not memoised "
           "(type-resolved getter freshness analysis). Module-level names that functions rebind or change in place are treated as state, never folded to their initial value.",
    "C04": " (D6) The start of what follows a block is memoised per link: the memo key separates links to different blocks (shared C03.H5).",
    "C05": " (K4 separated) every value-compared operation class has a compared field carrying a per-instance identifier; (K9) apply_modifiers_to_self recurses over the "
           "graph as it is after repeat() (shared C06.U1); (K10) on no path is the link object held by one operation stored into another, except the reviewed hand-over.",
    "C06": " (U6) The table of a repetition registry (any container changed through self in the repetition modules) is bound per instance, not a class-level container. "
           "(U3) extend() drops no appended block.",
    "C07": " (A9) apply_modifiers / flatten hand back the same structure object the measurements' registries index (self, or an in-place method returning its receiver); "
           "(A10) no link object is shared outside the reviewed hand-over (shared C05.K10).",
    "C08": " (S6) extend() appends every node of each copy whatever the block holds (zero-length annotations included), so exporting before and after unrolling agree "
           "(shared C01.R7 extend).",
    "C09": " (P8) qubit listings handed out by one description and extended in place by a composite description are fresh lists (shared C03.H6); (P9) the multi-round "
           "constructor unrolls before it flattens (shared C11.F3).",
    "C10": " (T5) memo key soundness (shared C03.H5); (T6) the table of a duration registry is bound per instance.",
    "C11": " (F6) An operation that pointed at a dissolved sub-circuit is re-linked behind the latest node sharing a channel: the leaf query skips no node (shared C01.R5). "
           "The traversal bound MAX_GRAPH_DEPTH in force is read from the source and listed as an assumption (whether it suffices is a run-time matter, not decided).",
    "C12": " (X6) No index computation is memoised under a key that lets two kernels / strategies with different offsets share an entry (C03.H5 restricted to "
           "acquisition_indexing); create_sliced_arrays is read through thin delegating wrappers.",
    "C13": " (M5) No link object is shared outside the reviewed hand-over (shared C05.K10): a nested block that equals its parent as a lookup key loses the registries of "
           "later blocks (calibration indices -1).",
    "C15": " The OpenQL order / repetition defects were repaired in the repository (fix 4c9eb26); O4/O5 hold on the current tree and report the defects again if the repair "
           "is undone. (O5) also demands that kernels of a nested export get a name handed down fresh by the recursion. (O7) The export entry points write nothing that "
           "outlives the call inside the OpenQL add-on (no session counter or name registry), so exporting twice gives the same names.",
    "C16": " (Q4) An accepting exit inside a scan over the gates needs a participant guard that was completed over ALL gates before the scan. (Q10) get_required_parkings "
           "asks get_requires_parking with the identifiers of the whole step (no free variable of an inner per-gate scan in the edge argument).",
    "C17": " (Y10) gate_sequence_count is the length of the very list the positional accessors subscript; (Y11) handed-out qubit listings changed in place are fresh "
           "(shared C03.H6).",
    "C19": " (I5) De-duplication of channel identifiers through a hash container keeps every element: the hash separates channels of a qubit (shared C01.R13). A formula "
           "that looks into the names (f-strings, split, join) is additionally evaluated on names built from its own separators: a counter-example is a violation, none "
           "leaves the rule undecided.",
}
_ADDED4 = {
    "C01": " (R14) No constructor stores a value computed from locations written outside constructors (the latest member of a link group is computed when it is read; shared "
           "C03.H7); R4 also reads a selection function looked up in a {relation-to-group: min / max} table.",
    "C02": " (L11) Containers that graph / composite classes change through self are bound per instance.",
    "C03": " (H7) no constructor stores a value computed from locations written outside constructors (call-graph read closure against the write catalogue); (H8) tables keyed by "
           "expressions whose static type admits a sub-circuit exist only in the reviewed functions. H1 treats clearing functions and exit-clearing context managers (generator "
           "or class form) as one fixed point.",
    "C06": " (U7) = C03.H7 on the structure modules.",
    "C07": " (A11) Library constructors hand component builders the registry of the circuit they return (or of the circuit the component is added to).",
    "C09": " (P10) The single-experiment constructors hand the caller's initial_state container to the preparation builder unfiltered.",
    "C10": " A class of the specification table that no longer follows the global setting of its kind is a T4 violation.",
    "C11": " (F7) graph / composite containers are per instance; (F8) the marker that closes a QEC block covers the same qubits as the builder's barriers (sibling agreement).",
    "C12": " (X7) involvement of a qubit is decided by name equality of identifiers (shared C19.I3; identity tests are told apart from equality tests).",
    "C13": " (M6) apply_modifiers / flatten hand back the same structure object (shared C07.A9).",
    "C16": " (Q11) ParityGroup.contains decides membership with `in` on identifier objects over the group's own qubits and edges.",
    "C17": " (Y12) RepetitionCodeDescription.qubit_ids lists every data and ancilla qubit exactly once: the accessor's statements are interpreted on lists of opaque symbols for "
           "all length pairs up to 4 x 4 (qcolint.listinterp). Y8 also shares C19.I3; Y9 also shares C16.Q2 and Q11.",
    "C18": " (W6) IRectTransform.center_pivot agrees with top/bot/left/right_pivot for all 9 alignments (symbolic pivot, width, height).",
    "C19": " (I6) = C16.Q11. `is` between ordinary values is an identity atom of its own; equal names are taken as distinct objects when a formula tests identity.",
}
_ADDED5 = {
    "C01": " (R16) a block handed to add() is nested as a copy whichever interface it arrives through (shared C02.L7).",
    "C02": " (L12) IGraphNavigation.empty_graph is true exactly when the only leaf is the root (leaf form or branch depth 0).",
    "C03": " (H9) the span of a block does not depend on the frame its operations report times in (shared C04.D1/D2); H3 also reads a class-form override "
           "(__enter__ / __exit__): the saved getter is reinstalled on every way out, an exception included.",
    "C04": " (D7) = C02.L12: the zero-duration shortcut is taken for empty blocks only.",
    "C07": " (A12) the Stim exporter walks the listing order the registry counts in (shared C08.S2).",
    "C10": " (T8) each unrolled copy follows the latest-ending leaf (shared C01.R4); (T9) the end of a nested block is its exact span (shared C04.D1/D2).",
    "C13": " (M7) operations re-inserted by flatten go under their reference or behind the channel leaf, never blindly to the root (shared C01.R6).",
    "C16": " (Q12) the Operation factories build plain Operation objects (dataclass equality is class-strict).",
    "C17": " (Y13) the layer views handed to the circuit builders list every gate and every in-code park of the layer (shared C09.P6).",
    "C19": " Tables keyed by enum names are evaluated like Python does (member.name, display.get, membership over displays), so a name / member mix-up shows in the truth table.",
}
for _k, _v in _ADDED5.items():
    CLAIMS[_k]["text"] = CLAIMS[_k]["text"] + _v
_ADDED6 = {
    "C03": " A class of the package used as `with K(..):` is read as the try / finally it abbreviates (fields from __init__, __enter__ before, __exit__ after the "
           "block, setattr with a decided name as a store) when its __exit__ does the same whether or not the block raised; stores such a manager makes to the duration "
           "getter must be followed by cache_clear of every memoised start time (H3[invalidate ..]).",
    "C07": " A1 also reads the closed form of the index lookup (position in the listing / count of earlier acquisitions on the qubit / default iff not listed).",
}
for _k, _v in _ADDED6.items():
    CLAIMS[_k]["text"] = CLAIMS[_k]["text"] + _v
_DEPTH = (" The number of layers the cached layer walk visits before its loop guard stops it is computed from the source (constant propagation through the guard's "
          "constructor, helper defaults and class constants) and is not below the 5000 of the reference tree.")
_ADDED7 = {
    "C01": " (R18) copy() of every operation and link class keeps relation type, duration strategy, qubits and channels (shared C05.K1/K2); R13 also reads how the "
           "de-duplicating helper decides 'seen before' (hash container, not equality alone).",
    "C07": " (A14) unrolling reaches every repeated block at every depth (shared C06.U1).",
    "C09": " (P13) no value derived from mutable state is frozen at construction in structure / language classes (shared C03.H7).",
    "C10": " (T11) copies keep duration strategy and channel (shared C05.K1/K2); (T12) every global duration strategy reads through the getter a temporary configuration "
           "replaces (shared C01.R10); (T13) the implicit predecessor is searched over the whole graph (shared C01.R5/R6).",
    "C11": " F2 also decides that flatten() with its optional arguments omitted changes the structure in no other way.",
    "C12": " (X8) the stored kernel list keeps the construction order of the offset chain.",
    "C16": " (Q13) the partition helper's canonical form keeps every element of every subgroup.",
    "C18": " (W8) compact drawing reaches every global duration strategy (shared C01.R10); (W9) the row order handed to the transform constructor is kept as given.",
    "C19": " (I7) one definition behind the public names QubitChannel / ChannelIdentifier / QubitIDObj / EdgeIDObj; I1 also fixes the positional order (qubit, channel).",
}
for _k, _v in _ADDED7.items():
    CLAIMS[_k]["text"] = CLAIMS[_k]["text"] + _v
_ADDED8 = {
    "C02": " (L14) the composite copy walks and copies every node unconditionally (shared C05.K3); (L15) a graph node's hash does not involve the wrapped operation.",
    "C03": " (H10) the node of an operation is found by identity, over all nodes.",
    "C07": " A4 also reports a way out that answers with an empty result without consulting the listing.",
    "C08": " (S8) the count the exporter multiplies by is computed when read, not memoised (shared C06.U5).",
    "C09": " (P14) = C06.U5 for the exported, unrolled circuit.",
    "C11": " (F10) the block's de-duplicated channel listing loses nothing (shared C01.R13).",
    "C13": " (M9) every round is unrolled at every depth before it is flattened (shared C06.U4).",
    "C14": " N2 also reports a way out that hands the measurement back undressed.",
    "C15": " (O9) = C06.U5 for the OpenQL export.",
    "C16": " Q6 also reports a way out of construct_allowed_gate_sequences that emits a grouping without the acceptance test.",
    "C19": " I2 also decides that no class test on the qubits of an edge is narrower than the IQubitID interface; I4 separates re-assembly from element-keyed tables (violation) from unread shapes.",
}
for _k, _v in _ADDED8.items():
    CLAIMS[_k]["text"] = CLAIMS[_k]["text"] + _v
_ADDED9 = {
    "C02": " (L16) unrolling appends the nodes of each copy, nested blocks with their counts included (shared C01.R7); (L17) flatten reads the complete listing before the old graph is replaced (shared C11.F1); L2 reads the identifier counter in every spelling of 'plus one'.",
    "C03": " (H11) a listing hands the block's relation to a head before that head is decomposed (shared C01.R7).",
    "C04": " (D9) the heads of a block carry the block's own relation, type included, into the listing (shared C01.R7).",
    "C06": " (U9) copy() of every operation class builds that class with the same fields (shared C05.K1/K2).",
    "C07": " (A15) library builders schedule every read-out of a qubit strictly after the previous one (shared C10.t2).",
    "C08": " (S9) a sub-circuit handed to add() arrives as a copy of itself, count and relation included (shared C05.K5); S1 reports a translation table that writes a key twice.",
    "C09": " (P15) the shipped gate-sequence tables give every ancilla each of its data neighbours in a step of its own (shared C17 tables); (P16) nothing is added to a sub-circuit after it was handed over (handing over copies).",
    "C10": " (T14) an idle Wait occupies every channel of its qubit (the class default and every library call site).",
    "C11": " (F11) = C10.T14: flattening keeps a block's schedule only if its waits block all channels.",
    "C12": " (X9) GeneralCalibrationIndexKernel by cases (heralded, f-state): cycle length (1+h)(2+f), stop, and every category a strided slice on its own offset below the cycle length.",
    "C14": " N4 also decides, by def-use over the block loop, that the idle time of a block depends on no value carried over from earlier blocks.",
    "C16": " (Q14) Surface17Layer's frequency-level table equals, as a map, the Surface-17 assignment the acceptance rules are stated for.",
    "C18": " (W10) every row of the draw-factory tables pairs an operation kind with a factory written for a kind on the same number of qubits.",
    "C19": " I1 also fixes the default channel of an identifier built from a qubit index alone (the whole qubit).",
}
for _k, _v in _ADDED9.items():
    CLAIMS[_k]["text"] = CLAIMS[_k]["text"] + _v
_ADDED10 = {
    "C05": " (K11) a block's duration is latest end minus earliest start over all its operations, so a copy placed elsewhere reports the duration of its original (shared C04.D1/D2).",
    "C08": " S4's case analysis runs on whichever function builds the DETECTOR instruction (the operation's method, or a factory's construct that does not delegate).",
    "C09": " (P17) unrolling a block repeated n times yields exactly n copies for every n (shared C06.U2).",
    "C11": " (F12) = C04.D1/D2: what follows a nested block starts at the same time before and after flattening.",
    "C12": " X3 also splits over further bool switches of the Qutrit kernel (containment of every category in [start, stop] for non-default settings); X9 decides an answer that is not a strided slice by evaluating it for 1..3 repetitions (bounded).",
    "C13": " (M10) a description's circuit_channel_map is keyed by map_qubit_id_to_circuit_index, and the calibration description's index map is derived from it.",
    "C19": " I1 evaluates channel equality written with bit masks (enum values, len(Enum), shifts) on every pair of channels.",
}
for _k, _v in _ADDED10.items():
    CLAIMS[_k]["text"] = CLAIMS[_k]["text"] + _v
for _k in ("C01", "C02", "C04", "C05", "C06", "C07", "C08", "C09", "C10", "C11", "C13", "C15", "C18"):
    CLAIMS[_k]["text"] = CLAIMS[_k]["text"] + _DEPTH
_PY = (" Every check also runs eleven lints for slips of the Python data model (qcolint/pylints.py; rules <id>.PY1..PY11) over the files the property's anchors name: "
       "late-binding closures that escape their loop, one-shot iterators consumed twice, containers stored and then changed in place, replicated / default mutables, and truth "
       "tests of Optional[T] values whose T has falsy members, float-typed values stored into integer arrays, dataclasses that derive a defaulted init field in __post_init__, unchained __post_init__ / __init__ overrides, groupby over unsorted input stored by key, memoised accessors over mutable container fields, and un-annotated class attributes that shadow inherited dataclass fields. Each reports only the shape in which the slip is certain; "
       "each lint must fire on a positive example and stay silent on its negative twin on every run (qcolint/pylints_examples.py).")
for _k in list(CLAIMS):
    CLAIMS[_k]["text"] = CLAIMS[_k]["text"] + _ADDED4.get(_k, "")
NOTES += _PY
for _d in (_ADDED, _ADDED3):
    for _k, _v in _d.items():
        if _v:
            CLAIMS[_k]["text"] = CLAIMS[_k]["text"] + _v
NOTES += (" A rule that cannot read the code is isolated: the other rules of the property still run; a definite violation is reported (exit 1) even if another rule is "
          "undecided, and the check is undecided (exit 2) only when no rule found a violation and at least one could not decide.")
