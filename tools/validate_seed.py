#!/usr/bin/env python3
"""Confirms sub-agent seeded changes and files them under /verif/seeded/<id>/.

For every /tmp/seed_out/<Cxx>/m<k>_patch.diff: in a scratch worktree of /repo (outside /repo and /verif) apply the
patch, run the repository's test suite (must stay green), run the demo (must fail), revert, run the demo (must pass).
Confirmed changes are copied to /verif/seeded/<Cxx>-m<k>/ (patch.diff, demo.py, meta.json).  Then every registered
check is run statically against the patched scratch tree (qcolint --src) and the verdicts are recorded in meta.json.
"""
import glob
import json
import os
import shutil
import subprocess
import sys

VERIF = os.path.dirname(os.path.dirname(os.path.abspath(__file__)))
PY = "/venv/bin/python"


def sh(cmd, cwd=None, env=None, timeout=1800):
    e = dict(os.environ)
    e.update(env or {})
    r = subprocess.run(cmd, shell=True, cwd=cwd, env=e, capture_output=True, text=True, timeout=timeout)
    return r.returncode, (r.stdout + r.stderr)


def built_props():
    return sorted(os.path.basename(p)[:-3].upper() for p in glob.glob(os.path.join(VERIF, "qcolint/rules/c[0-9][0-9].py")))


def run_checks(src, props):
    out = {}
    for p in props:
        code, txt = sh(f"{PY} -m qcolint check {p} --src {src} --no-write", cwd=VERIF)
        rules = sorted({ln.split(": ", 1)[1].split(" ")[0] for ln in txt.splitlines() if ": C" in ln and "[" in ln and not ln.startswith(("VIOLATION", "KNOWN", "["))})
        out[p] = dict(exit=code, rules=rules, error=[ln for ln in txt.splitlines() if ln.startswith("ANALYSIS-ERROR")][:1])
    return out


def main():
    pid = sys.argv[1]
    only_checks = "--checks-only" in sys.argv
    outdir = f"/tmp/seed_out/{pid}"
    wt = f"/tmp/val/{pid}"
    os.makedirs("/tmp/val", exist_ok=True)
    sh(f"git -C /repo worktree remove --force {wt}")
    code, txt = sh(f"git -C /repo worktree add --detach {wt} HEAD")
    if code:
        print(txt)
        return 1
    env = {"PYTHONPATH": f"{wt}/src", "MPLBACKEND": "Agg"}
    props = built_props()
    try:
        for patch in sorted(glob.glob(f"{outdir}/m*_patch.diff")):
            k = os.path.basename(patch).split("_")[0]
            sid = f"{pid}-{k}"
            dst = os.path.join(VERIF, "seeded", sid)
            demo = f"{outdir}/{k}_demo.py"
            meta_path = f"{outdir}/{k}_meta.json"
            meta = {}
            if os.path.exists(meta_path):
                try:
                    meta = json.load(open(meta_path))
                except Exception:
                    meta = {"summary": open(meta_path).read()[:500]}
            sh("git checkout -- . && git clean -fdq", cwd=wt)
            code, txt = sh(f"git apply {patch}", cwd=wt)
            if code:
                print(f"{sid}: patch does not apply: {txt[:200]}")
                continue
            res = dict(meta)
            res["property"] = pid
            if not only_checks or not os.path.exists(dst):
                code, txt = sh(f"{PY} -m pytest -q -p no:cacheprovider --timeout=900 -x 2>&1 | tail -3", cwd=wt, env=env)
                passed = "61 passed" in txt and "failed" not in txt
                dcode, dtxt = sh(f"{PY} {demo}", cwd=wt, env=env, timeout=600)
                sh("git checkout -- . && git clean -fdq", cwd=wt)
                ccode, ctxt = sh(f"{PY} {demo}", cwd=wt, env=env, timeout=600)
                sh(f"git apply {patch}", cwd=wt)
                res["confirmed"] = dict(tests_with_patch=txt.strip().splitlines()[-1] if txt.strip() else "", tests_green=passed,
                                        demo_with_patch_exit=dcode, demo_clean_exit=ccode)
                ok = passed and dcode != 0 and ccode == 0
                if not ok:
                    print(f"{sid}: NOT confirmed: {res['confirmed']} {dtxt[-200:] if dcode == 0 else ''} {ctxt[-300:] if ccode else ''}")
                    continue
            else:
                res = json.load(open(os.path.join(dst, "meta.json")))
            verdicts = run_checks(f"{wt}/src", props)
            res["checks_run"] = props
            res["detected_by"] = {p: v["rules"] for p, v in verdicts.items() if v["exit"] == 1}
            res["analysis_errors"] = {p: v["error"] for p, v in verdicts.items() if v["exit"] == 2}
            res["what_was_run"] = ("scratch worktree of /repo HEAD: git apply patch; pytest (61 passed required); demo (must fail); "
                                   "git checkout; demo (must pass); then `qcolint check <P> --src <scratch>/src` for every built property")
            os.makedirs(dst, exist_ok=True)
            shutil.copy(patch, os.path.join(dst, "patch.diff"))
            if os.path.exists(demo):
                shutil.copy(demo, os.path.join(dst, "demo.py"))
            json.dump(res, open(os.path.join(dst, "meta.json"), "w"), indent=1)
            own = res["detected_by"].get(pid)
            print(f"{sid}: confirmed; own-property check: {'FIRES ' + str(own) if own else ('not built' if pid not in props else 'MISSED')}; "
                  f"all: {res['detected_by']} errors: {res['analysis_errors']}")
    finally:
        sh(f"git -C /repo worktree remove --force {wt}")
    return 0


if __name__ == "__main__":
    sys.exit(main())
