"""Hand-outs that are mutated in place.

A getter (property or method) *hands out* a container.  A caller that binds the result to a local name and then changes it in place
(``append`` / ``extend`` / ``insert`` / ``remove`` / ``pop`` / ``sort`` / ``clear`` / ``+=`` / item assignment / ``del``) relies on the
getter returning a fresh object on every call.  That is a structural fact of the getter: every return expression builds a new object
(display, comprehension, ``list(...)``, concatenation, a call of another fresh-returning getter, or a local bound only to such values) and
the getter is not memoised.  If it returns stored state (``return self._x``) or is a ``cached_property`` / ``lru_cache``, the caller's
change lands in the provider's state and every later reader sees it.

The analysis is local and type-resolved (class-hierarchy dispatch on the static receiver type).  It reports, per mutation site, the getters
reached and for each whether it is fresh; sites whose provider cannot be resolved are listed as unresolved (they carry no verdict).
"""
from __future__ import annotations

import ast
from dataclasses import dataclass
from typing import Dict, List, Optional, Set, Tuple

from .model import FunctionInfo, Model, dotted
from .resolve import CallGraph

MUTATORS = {"append", "extend", "insert", "remove", "pop", "sort", "clear", "reverse", "update", "add", "discard", "setdefault", "popitem"}
FRESH_CALLS = {"list", "sorted", "dict", "set", "tuple", "frozenset", "copy", "deepcopy", "unique_in_order", "reversed", "zip", "map", "filter", "range",
               "enumerate", "asarray", "array", "append", "concatenate", "zeros", "ones", "empty", "arange", "linspace", "tolist", "flatten", "defaultdict",
               "OrderedDict", "Counter", "replace", "str", "int", "float", "bool", "len", "sum", "min", "max", "any", "all", "abs", "round", "join", "format",
               "split", "keys", "values", "items", "chain"}
MEMO = ("lru_cache", "functools.lru_cache", "cache", "functools.cache", "cached_property", "functools.cached_property")


@dataclass
class Handout:
    site: FunctionInfo          # function that mutates
    name: str                   # local alias
    bind: ast.AST               # the binding statement's value expression
    mutation: ast.AST           # the mutating node
    providers: List[Tuple[FunctionInfo, bool, str]]   # (getter, fresh?, why)
    resolved: bool

    @property
    def loc(self) -> str:
        return f"{self.site.module.relpath}:{self.mutation.lineno}"


class Freshness:
    def __init__(self, model: Model, cg: CallGraph):
        self.model, self.cg = model, cg
        self._memo: Dict[FunctionInfo, Tuple[bool, str]] = {}
        self._stack: Set[FunctionInfo] = set()

    def is_memoised(self, f: FunctionInfo) -> bool:
        return any(d in MEMO or d.split(".")[-1] in ("lru_cache", "cache", "cached_property") for d in f.decorators)

    def getter_fresh(self, f: FunctionInfo) -> Tuple[bool, str]:
        if f in self._memo:
            return self._memo[f]
        if self.is_memoised(f):
            r = (False, f"{f.qualname} is memoised: every call returns the same object")
            self._memo[f] = r
            return r
        if f in self._stack:
            return True, "recursive"
        self._stack.add(f)
        try:
            r = self._decide(f)
        finally:
            self._stack.discard(f)
        self._memo[f] = r
        return r

    def _decide(self, f: FunctionInfo) -> Tuple[bool, str]:
        if "abstractmethod" in f.decorators:
            return True, "abstract"
        rets = [n for n in ast.walk(f.node) if isinstance(n, ast.Return) and n.value is not None and _owner(f.node, n)]
        if any(isinstance(n, (ast.Yield, ast.YieldFrom)) for n in ast.walk(f.node)):
            return True, "generator"
        for r in rets:
            ok, why = self.expr_fresh(f, r.value, set())
            if not ok:
                return False, f"{f.qualname} returns {ast.unparse(r.value)[:60]} ({why})"
        return True, "every return builds a new object"

    def expr_fresh(self, f: FunctionInfo, e: ast.expr, seen: Set[str]) -> Tuple[bool, str]:
        if isinstance(e, (ast.List, ast.ListComp, ast.Dict, ast.DictComp, ast.Set, ast.SetComp, ast.GeneratorExp, ast.Tuple, ast.Constant, ast.JoinedStr,
                          ast.Compare, ast.BoolOp, ast.UnaryOp, ast.Lambda)):
            if isinstance(e, ast.BoolOp):
                for v in e.values:
                    ok, why = self.expr_fresh(f, v, seen)
                    if not ok:
                        return ok, why
            return True, "display"
        if isinstance(e, ast.BinOp):
            return True, "operator result"
        if isinstance(e, ast.IfExp):
            for v in (e.body, e.orelse):
                ok, why = self.expr_fresh(f, v, seen)
                if not ok:
                    return ok, why
            return True, "conditional of fresh values"
        if isinstance(e, ast.Subscript):
            if isinstance(e.slice, ast.Slice):
                return True, "slice copy"
            return False, "an element of a stored container"
        if isinstance(e, ast.Call):
            d = (dotted(e.func) or "")
            last = d.split(".")[-1] if d else (e.func.attr if isinstance(e.func, ast.Attribute) else "")
            if last in FRESH_CALLS:
                return True, f"{last}(...)"
            callees = self._callees(f, e)
            if callees is None:
                tgt = self.model.lookup_symbol(f.module, d) if d and "." not in d else None
                from .model import ClassInfo
                if isinstance(tgt, ClassInfo):
                    return True, "constructor"
                return False, f"call {ast.unparse(e.func)} not resolved"
            for c in callees:
                ok, why = self.getter_fresh(c)
                if not ok:
                    return False, why
            return True, "calls fresh-returning functions"
        if isinstance(e, ast.Name):
            if e.id in seen:
                return True, "cyclic"
            binds = _bindings(f.node, e.id)
            if e.id in f.param_names:
                return False, f"parameter {e.id}"
            if not binds:
                return False, f"name {e.id} not bound locally"
            for b in binds:
                if b is None:
                    return False, f"{e.id} bound by a loop / with / unpacking"
                ok, why = self.expr_fresh(f, b, seen | {e.id})
                if not ok:
                    return False, why
            return True, "local bound to fresh values"
        if isinstance(e, ast.Attribute):
            provs = self._attr_providers(f, e)
            if provs is None:
                return False, f"stored attribute {ast.unparse(e)}"
            for c in provs:
                ok, why = self.getter_fresh(c)
                if not ok:
                    return False, why
            return True, "property returning fresh values"
        return False, f"{type(e).__name__} not understood"

    # --------------------------------------------------------------------------------------------
    def _callees(self, f: FunctionInfo, call: ast.Call) -> Optional[List[FunctionInfo]]:
        for cs in self.cg.call_sites(f):
            if cs.node is call and cs.callees:
                return list(cs.callees)
        return None

    def _attr_providers(self, f: FunctionInfo, e: ast.Attribute) -> Optional[List[FunctionInfo]]:
        """Property getters an attribute load may run; None when it is a stored attribute (or unresolved)."""
        env = self.cg.env(f)
        t = env.type_of(e.value)
        if t is None or t.cls is None:
            return None
        out = [g for g in self.cg.res.dispatch(t.cls, e.attr, kinds=("property",)) if "abstractmethod" not in g.decorators]
        # cached_property is recorded as a method with that decorator
        for g in self.cg.res.dispatch(t.cls, e.attr, kinds=("method",)):
            if self.is_memoised(g) and g not in out:
                out.append(g)
        return out or None


def _owner(fn_node: ast.AST, node: ast.AST) -> bool:
    """``node`` belongs to ``fn_node`` itself (not to a nested def / lambda)."""
    for n in ast.walk(fn_node):
        if n is fn_node:
            continue
        if isinstance(n, (ast.FunctionDef, ast.AsyncFunctionDef, ast.Lambda)):
            for m in ast.walk(n):
                if m is node:
                    return False
    return True


def _bindings(fn_node: ast.AST, name: str) -> List[Optional[ast.expr]]:
    out: List[Optional[ast.expr]] = []
    for n in ast.walk(fn_node):
        if isinstance(n, ast.Assign):
            for t in n.targets:
                if isinstance(t, ast.Name) and t.id == name:
                    out.append(n.value)
                elif isinstance(t, (ast.Tuple, ast.List)) and any(isinstance(x, ast.Name) and x.id == name for x in ast.walk(t)):
                    out.append(None)
        elif isinstance(n, ast.AnnAssign) and isinstance(n.target, ast.Name) and n.target.id == name and n.value is not None:
            out.append(n.value)
        elif isinstance(n, ast.AugAssign) and isinstance(n.target, ast.Name) and n.target.id == name:
            pass
        elif isinstance(n, (ast.For, ast.comprehension)) and any(isinstance(x, ast.Name) and x.id == name for x in ast.walk(n.target)):
            if isinstance(n, ast.For):
                out.append(None)
        elif isinstance(n, ast.withitem) and n.optional_vars is not None and any(isinstance(x, ast.Name) and x.id == name for x in ast.walk(n.optional_vars)):
            out.append(None)
        elif isinstance(n, ast.NamedExpr) and n.target.id == name:
            out.append(n.value)
    return out


def _mutations(fn_node: ast.AST, name: str) -> List[ast.AST]:
    out = []
    for n in ast.walk(fn_node):
        if isinstance(n, ast.Call) and isinstance(n.func, ast.Attribute) and isinstance(n.func.value, ast.Name) and n.func.value.id == name \
                and n.func.attr in MUTATORS:
            out.append(n)
        elif isinstance(n, ast.AugAssign) and isinstance(n.target, ast.Name) and n.target.id == name:
            out.append(n)
        elif isinstance(n, (ast.Assign, ast.AugAssign, ast.Delete)):
            tgs = n.targets if isinstance(n, (ast.Assign, ast.Delete)) else [n.target]
            for t in tgs:
                if isinstance(t, ast.Subscript) and isinstance(t.value, ast.Name) and t.value.id == name:
                    out.append(n)
    return out


def mutated_handouts(model: Model, cg: CallGraph, functions: Optional[List[FunctionInfo]] = None) -> List[Handout]:
    fr = Freshness(model, cg)
    out: List[Handout] = []
    for f in (functions if functions is not None else model.all_functions()):
        names: Dict[str, List[Optional[ast.expr]]] = {}
        for n in ast.walk(f.node):
            if isinstance(n, (ast.Assign, ast.AnnAssign)):
                tg = n.targets[0] if isinstance(n, ast.Assign) and len(n.targets) == 1 else getattr(n, "target", None)
                if isinstance(tg, ast.Name):
                    names.setdefault(tg.id, [])
        for name in names:
            muts = _mutations(f.node, name)
            if not muts:
                continue
            for b in _bindings(f.node, name):
                if b is None:
                    continue
                # only values handed out by a getter: attribute loads that run a property, and method calls
                provs: Optional[List[FunctionInfo]] = None
                if isinstance(b, ast.Attribute):
                    provs = fr._attr_providers(f, b)
                    if provs is None:
                        continue   # stored attribute of a known object or unresolved receiver: a deliberate state change, other rules' business
                elif isinstance(b, ast.Call) and isinstance(b.func, ast.Attribute):
                    d = b.func.attr
                    if d in FRESH_CALLS:
                        continue
                    provs = fr._callees(f, b)
                    if provs is None:
                        continue
                else:
                    continue
                verdicts = []
                for g in provs:
                    ok, why = fr.getter_fresh(g)
                    verdicts.append((g, ok, why))
                # an augmented assignment of an immutable value rebinds; only containers matter: provider annotated with a container type
                def _container(g: FunctionInfo) -> bool:
                    r = g.node.returns
                    s = ast.unparse(r) if r is not None else ""
                    return any(h in s for h in ("List", "list", "Dict", "dict", "Set", "set", "ndarray", "Sequence", "Iterable")) or not s
                verdicts = [v for v in verdicts if _container(v[0])]
                if not verdicts:
                    continue
                for m in muts:
                    if m.lineno >= b.lineno:
                        out.append(Handout(f, name, b, m, verdicts, True))
                        break
        # direct form: ``x.getter.append(...)`` / ``x.getter[i] = v`` without a local alias
        for n in ast.walk(f.node):
            recv = None
            if isinstance(n, ast.Call) and isinstance(n.func, ast.Attribute) and n.func.attr in MUTATORS and isinstance(n.func.value, ast.Attribute):
                recv = n.func.value
            elif isinstance(n, (ast.Assign, ast.AugAssign)):
                tgs = n.targets if isinstance(n, ast.Assign) else [n.target]
                for t in tgs:
                    if isinstance(t, ast.Subscript) and isinstance(t.value, ast.Attribute):
                        recv = t.value
            if recv is None:
                continue
            provs = fr._attr_providers(f, recv)
            if not provs:
                continue
            verdicts = [(g,) + fr.getter_fresh(g) for g in provs]
            out.append(Handout(f, ast.unparse(recv), recv, n, verdicts, True))
    return out


# ---------------------------------------------------------------------------------------------
@dataclass
class SharedContainer:
    cls: object
    attr: str
    decl: ast.AST
    site: FunctionInfo
    node: ast.AST
    why: str

    @property
    def loc(self) -> str:
        return f"{self.site.module.relpath}:{self.node.lineno}"


def _is_singleton(c) -> bool:
    for k in c.mro():
        kw = getattr(k.node, "keywords", [])
        for w in kw:
            if w.arg == "metaclass" and "Singleton" in ast.unparse(w.value):
                return True
    return False


def shared_class_containers(model: Model, classes=None) -> Tuple[List[SharedContainer], int]:
    """Instance state that lives in a class attribute: ``self.X[k] = v`` / ``self.X.append(v)`` where X is bound nowhere per instance (not in
    ``__init__`` / ``__post_init__``, not a dataclass field with a default factory) but only as a class-level container display.  Every instance then
    reads and writes the same container.  Returns (findings, number of (class, attribute) pairs examined)."""
    out: List[SharedContainer] = []
    examined = 0
    for c in (classes if classes is not None else model.all_classes()):
        if _is_singleton(c) or c.is_subclass_of("type") or "type" in c.external_bases() or "ABCMeta" in c.external_bases():
            continue
        # attributes changed in place through self
        for f in [g for k in c.mro() for gs in k.methods.values() for g in gs] + [g for k in c.mro() for g in k.setters.values()]:
            if f.kind in ("staticmethod", "classmethod") or not f.param_names:
                continue
            sn = f.self_name
            for n in ast.walk(f.node):
                attr = None
                if isinstance(n, ast.Call) and isinstance(n.func, ast.Attribute) and n.func.attr in MUTATORS and isinstance(n.func.value, ast.Attribute) \
                        and isinstance(n.func.value.value, ast.Name) and n.func.value.value.id == sn:
                    attr = n.func.value.attr
                elif isinstance(n, (ast.Assign, ast.AugAssign, ast.Delete)):
                    for t in (n.targets if isinstance(n, (ast.Assign, ast.Delete)) else [n.target]):
                        if isinstance(t, ast.Subscript) and isinstance(t.value, ast.Attribute) and isinstance(t.value.value, ast.Name) and t.value.value.id == sn:
                            attr = t.value.attr
                if attr is None:
                    continue
                examined += 1
                # where is it bound per instance?
                per_instance = False
                decl = None
                for k in c.mro():
                    for iname in ("__init__", "__post_init__", "__new__"):
                        for g in k.methods.get(iname, []):
                            for m_ in ast.walk(g.node):
                                if isinstance(m_, (ast.Assign, ast.AnnAssign)):
                                    for t in (m_.targets if isinstance(m_, ast.Assign) else [m_.target]):
                                        if isinstance(t, ast.Attribute) and t.attr == attr and isinstance(t.value, ast.Name) and t.value.id == g.self_name:
                                            per_instance = True
                                if isinstance(m_, ast.Call) and ast.unparse(m_.func).endswith("__setattr__") and len(m_.args) >= 2 \
                                        and isinstance(m_.args[1], ast.Constant) and m_.args[1].value == attr:
                                    per_instance = True
                    fi = k.own_fields.get(attr) if hasattr(k, "own_fields") else None
                    if fi is not None:
                        if k.is_dataclass and not fi.is_classvar:
                            per_instance = True      # a dataclass field: a mutable default is refused by dataclasses, a factory makes one per instance
                        elif decl is None:
                            decl = fi.default        # an annotated class-level assignment of an ordinary class (or a ClassVar)
                        break
                    if attr in k.class_attrs and decl is None:
                        decl = k.class_attrs[attr]
                # other methods binding self.attr = <fresh> before use (lazy init) also make it per instance
                if not per_instance:
                    for k in c.mro():
                        for gs in k.methods.values():
                            for g in gs:
                                for m_ in ast.walk(g.node):
                                    if isinstance(m_, (ast.Assign, ast.AnnAssign)):
                                        for t in (m_.targets if isinstance(m_, ast.Assign) else [m_.target]):
                                            if isinstance(t, ast.Attribute) and t.attr == attr and isinstance(t.value, ast.Name) and t.value.id == g.self_name:
                                                per_instance = True
                if per_instance or decl is None:
                    continue
                if isinstance(decl, (ast.Dict, ast.List, ast.Set, ast.DictComp, ast.ListComp, ast.SetComp)) or \
                        (isinstance(decl, ast.Call) and (dotted(decl.func) or "").split(".")[-1] in ("dict", "list", "set", "defaultdict", "OrderedDict", "Counter", "deque")):
                    out.append(SharedContainer(c, attr, decl, f, n, f"{c.name}.{attr} is a class-level {type(decl).__name__.lower()} and no constructor binds it per instance"))
    # one finding per (class, attr, site)
    uniq, seen = [], set()
    for s in out:
        k = (s.cls.name, s.attr, s.site.qualname, s.node.lineno)
        if k not in seen:
            seen.add(k)
            uniq.append(s)
    return uniq, examined
