"""Loop summaries for minimum / maximum accumulators (used by C04, C18, C14).

``acc = init; for e in D: v = f(e, invariants); if v < acc: acc = v``  is summarised as
``EXT(min, D, f)`` joined with ``init``; ``min(f(e) for e in D)`` gives the same normal form.  An update whose
candidate value depends on a variable carried by the *same* loop (e.g. a running minimum used while it is still
being computed) is not an extreme of a function of the element and is rejected.
"""
from __future__ import annotations

from fractions import Fraction
from typing import Dict, List, Optional, Tuple

from .paths import Event, Path
from .sym import NONE, Term, as_lin, lin, number, show, subst, subterms, t_add, t_cmp, t_scale

ELEM = ("elem",)
POS_INF = ("inf", 1)
NEG_INF = ("inf", -1)


def is_inf(t: Term) -> Optional[int]:
    """+1 / -1 for +inf / -inf spelled as np.inf, math.inf, float('inf') (and their negations)."""
    if t in (POS_INF, NEG_INF):
        return t[1]
    if t[0] == "attr" and t[2] in ("inf", "infty", "Inf") and t[1][0] in ("global", "sym"):
        return 1
    if t[0] == "call" and t[1] == "float" and len(t[2]) == 1 and t[2][0][0] == "const" and isinstance(t[2][0][1], str):
        s = t[2][0][1].strip().lower()
        if s in ("inf", "+inf", "infinity"):
            return 1
        if s in ("-inf", "-infinity"):
            return -1
    if t[0] == "lin" and len(t[1]) == 1 and t[2] == 0:
        a, c = t[1][0]
        s = is_inf(a)
        if s is not None and c in (1, -1):
            return s * int(c)
    return None


class Summary:
    def __init__(self, name: str, direction: str, key: Term, init: Term, domain: Term, loop: Event, strict: bool):
        self.name, self.direction, self.key, self.init, self.domain, self.loop, self.strict = name, direction, key, init, domain, loop, strict

    def term(self) -> Term:
        return ("ext", self.direction, self.domain, self.key)

    def __repr__(self):
        return f"<{self.direction} over {show(self.domain)} of {show(self.key)} from {show(self.init)}>"


class NotExtreme(Exception):
    pass


def loop_carried(t: Term, lineno: int) -> List[Term]:
    return subterms(t, lambda x: x[0] == "loopvar" and x[2] == lineno)


def summarise(lp: Event) -> Dict[str, Summary]:
    """Extreme accumulators of one loop event; raises NotExtreme(reason) for accumulators updated conditionally
    in a way that is not a running minimum / maximum of a function of the element."""
    out: Dict[str, Summary] = {}
    lineno = lp.node.lineno
    elem = ("bound", "for", lineno, show(lp.term))
    init_env = lp.extra["init_env"]
    for name in lp.extra["assigned"]:
        if name not in init_env:
            continue  # body-local temporary
        acc = ("loopvar", name, lineno)
        cand: List[Tuple[Term, Term]] = []
        unconditional = False
        for bp in lp.extra["paths"]:
            nv = bp.env.get(name)
            if nv == acc:
                continue
            cand.append((bp.cond, nv))
        if not cand:
            continue
        values = {v for _, v in cand}
        if len(values) != 1:
            raise NotExtreme(f"'{name}' is set to different values on different paths")
        v = cand[0][1]
        # ``acc = min(acc, f(e))`` / ``acc = max(f(e), acc)`` on every path: the two-argument fold of a running extreme (ties keep the accumulator,
        # exactly like ``if f(e) < acc: acc = f(e)``)
        if v[0] in ("max", "min") and len(v[1]) == 2 and acc in v[1] and len(cand) == len([bp for bp in lp.extra["paths"]]) and all(c_ == cand[0][0] or True for c_, _ in cand):
            other = [x for x in v[1] if x != acc]
            if len(other) == 1 and not loop_carried(other[0], lineno) and all(bp.env.get(name) == v for bp in lp.extra["paths"]):
                key = subst(other[0], {elem: ELEM})
                out[name] = Summary(name, v[0], key, init_env[name], lp.term, lp, True)
                continue
        if loop_carried(v, lineno):
            raise NotExtreme(f"the candidate for '{name}' ({show(v)}) depends on a value that is still being accumulated in the same loop")
        if len(cand) != 1:
            raise NotExtreme(f"'{name}' is replaced on {len(cand)} paths")
        cond = cand[0][0]
        d = None
        for op in ("<", "<=", ">", ">="):
            if t_cmp(op, v, acc) == cond:
                d = op
        if d is None:
            raise NotExtreme(f"'{name}' is replaced under {show(cond)}, which is not a comparison of the candidate with the accumulator")
        key = subst(v, {elem: ELEM})
        out[name] = Summary(name, "min" if d in ("<", "<=") else "max", key, init_env[name], lp.term, lp, d in ("<", ">"))
    return out


def comprehension_extreme(t: Term) -> Optional[Tuple[str, Term, Term, Optional[Term]]]:
    """min(f(e) for e in D) / max(..., default=x) -> (direction, key, domain, default)."""
    if t[0] == "call" and t[1] in ("min", "max") and len(t[2]) == 1 and t[2][0][0] == "comp":
        comp = t[2][0]
        gens = comp[3]
        if len(gens) != 1 or gens[0][1]:
            return None
        bound = None
        for b in subterms(comp[2], lambda x: x[0] == "bound"):
            bound = b
        key = subst(comp[2], {bound: ELEM}) if bound is not None else comp[2]
        return t[1], key, gens[0][0], dict(t[3]).get("default")
    return None


def depends_on_elem(t) -> bool:
    """Free occurrence of the element placeholder (a nested, already closed EXT term binds its own)."""
    if not isinstance(t, tuple) or not t:
        return False
    if t == ELEM:
        return True
    if t[0] == "ext":
        return False
    return any(depends_on_elem(x) for x in t if isinstance(x, tuple))


def split_invariant(key: Term) -> Tuple[Term, Term]:
    """key = g(elem) + c  with c free of the element."""
    coeffs, k = as_lin(key)
    dep = {a: c for a, c in coeffs.items() if depends_on_elem(a)}
    inv = {a: c for a, c in coeffs.items() if a not in dep}
    return lin(dep, Fraction(0)), lin(inv, k)


def normalise_ext(direction: str, key: Term, domain: Term) -> Tuple[Term, Term]:
    """max_e(s*x(e) + c) -> (sign-adjusted EXT term over the bare atom x, c).  Returns (term, invariant)."""
    g, c = split_invariant(key)
    coeffs, k = as_lin(g)
    if len(coeffs) != 1 or k != 0:
        return ("ext", direction, domain, g), c
    (atom, co), = coeffs.items()
    if co > 0:
        return t_scale(("ext", direction, domain, atom), co), c
    flipped = "min" if direction == "max" else "max"
    return t_scale(("ext", flipped, domain, atom), co), c


def _unvar(t: Term) -> Term:
    while t[0] == "var" and len(t) == 4:
        t = t[3]
    return t


def _fuse_enumerate(t):
    """``{i: y for i, y in enumerate(f(x) for x in D)}``  ->  ``{i: f(x) for i, x in enumerate(D)}`` (positions do not change under a map)"""
    if t[0] not in ("comp", "dictcomp"):
        return t
    gens = t[3] if t[0] == "comp" else t[3]
    for i, (dom, conds) in enumerate(gens):
        if dom[0] == "call" and dom[1] == "enumerate" and len(dom[2]) == 1 and not dom[3]:
            inner = _unvar(dom[2][0])
            if inner[0] == "comp" and inner[1] in ("gen", "list") and len(inner[3]) == 1 and not inner[3][0][1]:
                ib = [b for b in subterms(inner[2], lambda x: x[0] == "bound" and x[3] == show(inner[3][0][0]))]
                if len(set(ib)) > 1:
                    continue
                new_dom = ("call", "enumerate", (inner[3][0][0],), ())
                rest = [x for x in (t[1:3] if t[0] == "dictcomp" else (t[2],))] + list(conds) + [y for g in gens[i + 1:] for y in (g[0],) + tuple(g[1])]
                bs = []
                for b in subterms(tuple(rest), lambda x: x[0] == "bound" and isinstance(x[1], int) and x[2] == i):
                    if b not in bs:
                        bs.append(b)
                if len(bs) != 1:
                    continue
                nb = (bs[0][0], bs[0][1], bs[0][2], show(new_dom))
                img = subst(inner[2], {ib[0]: ("item", nb, 1)}) if ib else inner[2]

                def rw(x):
                    if not isinstance(x, tuple) or not x:
                        return x
                    if x == ("item", bs[0], 1):
                        return img
                    if x == bs[0]:
                        return nb
                    return tuple(rw(y) if isinstance(y, tuple) else y for y in x)
                ngens = list(gens[:i]) + [(new_dom, tuple(rw(c) for c in conds))] + [(rw(g[0]), tuple(rw(c) for c in g[1])) for g in gens[i + 1:]]
                if t[0] == "dictcomp":
                    return _fuse_enumerate(("dictcomp", rw(t[1]), rw(t[2]), tuple(ngens)))
                return _fuse_enumerate(("comp", t[1], rw(t[2]), tuple(ngens)))
    return t


def fuse_comprehensions(t):
    if isinstance(t, tuple) and t and t[0] in ("comp", "dictcomp"):
        t2 = _fuse_enumerate(t)
        if t2 != t:
            return fuse_comprehensions(t2)
    return _fuse_comprehensions(t)


def _fuse_comprehensions(t):
    """``[f(y) for y in [g(x) for x in D if c] if d]``  ->  ``[f(g(x)) for x in D if c if d(g(x))]`` (bottom-up, through local names of
    comprehension values).  A comprehension over a comprehension ranges over the inner domain."""
    if not isinstance(t, tuple) or not t:
        return t
    t = tuple(fuse_comprehensions(x) if isinstance(x, tuple) else x for x in t)
    if t[0] in ("comp", "dictcomp"):
        t = _fuse_enumerate(t)
    if t[0] == "comp" and len(t[3]) == 1:
        dom, conds = t[3][0]
        inner = _unvar(dom)
        if inner[0] == "comp" and inner[1] in ("list", "gen") and len(inner[3]) >= 1:
            outer_bound = None
            for b in subterms(t[2], lambda x: x[0] == "bound" and x[3] == show(dom)) + [b for c in conds for b in subterms(c, lambda x: x[0] == "bound" and x[3] == show(dom))]:
                outer_bound = b
            if outer_bound is None:
                # the domain was rewritten after the comprehension was built (its bound still carries the old label): the outer bound is the
                # one bound variable of the element / tests that does not belong to the inner comprehension
                inner_labels = {show(g[0]) for g in inner[3]}
                cands = []
                for b in subterms((t[2],) + tuple(conds), lambda x: x[0] == "bound" and isinstance(x[1], int) and x[3] not in inner_labels):
                    if b not in cands:
                        cands.append(b)
                if len(cands) == 1:
                    outer_bound = cands[0]
            mp = {outer_bound: inner[2]} if outer_bound is not None else {}
            elt = subst(t[2], mp)
            last_dom, last_conds = inner[3][-1]
            conds2 = tuple(last_conds) + tuple(subst(c, mp) for c in conds)
            return ("comp", t[1], elt, tuple(inner[3][:-1]) + ((last_dom, conds2),))
    if t[0] == "comp" and len(t[3]) > 1:
        # several generators: one that ranges over a comprehension ranges over that comprehension's own domain
        for i, (dom, conds) in enumerate(t[3]):
            inner = _unvar(dom)
            if inner[0] == "comp" and inner[1] in ("list", "gen") and len(inner[3]) == 1:
                rest = (t[2],) + tuple(conds) + tuple(x for g in t[3][i + 1:] for x in (g[0],) + tuple(g[1]))
                bs = []
                for b in subterms(rest, lambda x: x[0] == "bound" and x[3] == show(dom)):
                    if b not in bs:
                        bs.append(b)
                if not bs:
                    # the domain was rewritten after the comprehension was built: its bound is the one at this generator position whose
                    # label matches no domain of the comprehension as it stands
                    labels = {show(g[0]) for g in t[3]} | {show(g[0]) for g in inner[3]}
                    for b in subterms(rest, lambda x: x[0] == "bound" and isinstance(x[1], int) and x[2] == i and x[3] not in labels):
                        if b not in bs:
                            bs.append(b)
                if len(bs) > 1:
                    continue
                mp = {bs[0]: inner[2]} if bs else {}
                idom, iconds = inner[3][0]
                gens = list(t[3][:i]) + [(idom, tuple(iconds) + tuple(subst(c, mp) for c in conds))] \
                    + [(subst(g[0], mp), tuple(subst(c, mp) for c in g[1])) for g in t[3][i + 1:]]
                return fuse_comprehensions(("comp", t[1], subst(t[2], mp), tuple(gens)))
    return t
