"""Abstract interpretation of small numpy array expressions with SYMBOLIC elements (no repository code is executed, numpy is not imported).

Used where a rule has to decide an *index map*: which input element lands at which output position after ``repeat`` / ``tile`` / ``reshape`` /
broadcasting.  The function under analysis is interpreted statement by statement on its AST, in the checker's own transcription of the numpy
operations it uses, for every small shape (a bounded family: all list lengths and repetition counts up to ``bound``).  Input elements are opaque
symbols ``x0, x1, ...`` and scalars are opaque symbols, so the result says exactly which element (and which multiple of which scalar) each output
cell holds.  The index maps involved are quasi-affine in the cell position with periods equal to the dimensions, so a disagreement between two
of them shows within the bounded family; this is stated as the bound of the rule that uses it.

Values are linear forms over symbols with Fraction coefficients: ``{sym: coeff, 1: const}``; arrays are nested tuples of such forms.
Anything outside the supported fragment raises ``Unsupported`` (the caller reports the rule as undecided, never as a violation).
"""
from __future__ import annotations

import ast
from fractions import Fraction
from typing import Any, Dict, List, Tuple

from .sym import Unsupported

Form = Tuple[Tuple[Any, Fraction], ...]


def form(d: Dict[Any, Fraction]) -> Form:
    return tuple(sorted(((k, Fraction(v)) for k, v in d.items() if v != 0), key=lambda kv: repr(kv[0])))


def const(n) -> Form:
    return form({1: Fraction(n)})


def symbol(name: str) -> Form:
    return form({name: Fraction(1)})


def is_form(x) -> bool:
    return isinstance(x, tuple) and (not x or (isinstance(x[0], tuple) and len(x[0]) == 2 and isinstance(x[0][1], Fraction)))


def f_add(a: Form, b: Form, sign: int = 1) -> Form:
    d = dict(a)
    for k, v in b:
        d[k] = d.get(k, Fraction(0)) + sign * v
    return form(d)


def f_const_value(a: Form):
    d = dict(a)
    if not d:
        return Fraction(0)
    if set(d) == {1}:
        return d[1]
    return None


def f_mul(a: Form, b: Form) -> Form:
    ca, cb = f_const_value(a), f_const_value(b)
    if ca is not None:
        return form({k: v * ca for k, v in b})
    if cb is not None:
        return form({k: v * cb for k, v in a})
    raise Unsupported("product of two symbolic values")


def show_form(a: Form) -> str:
    if not a:
        return "0"
    parts = []
    for k, v in a:
        if k == 1:
            parts.append(str(v))
        else:
            parts.append(f"{k}" if v == 1 else f"{v}*{k}")
    return " + ".join(parts)


# ---------------------------------------------------------------------------------------------
# arrays: nested tuples of forms; a scalar is a bare form
class Arr:
    __slots__ = ("data",)

    def __init__(self, data):
        self.data = data

    @property
    def shape(self) -> Tuple[int, ...]:
        out = []
        d = self.data
        while isinstance(d, tuple) and not is_form(d):
            out.append(len(d))
            if not d:
                break
            d = d[0]
        return tuple(out)

    def flat(self) -> List[Form]:
        out: List[Form] = []

        def rec(d):
            if is_form(d):
                out.append(d)
            else:
                for x in d:
                    rec(x)
        rec(self.data)
        return out


def _build(flat: List[Form], shape: Tuple[int, ...]):
    if not shape:
        return flat[0]
    if len(shape) == 1:
        if len(flat) != shape[0]:
            raise Unsupported("reshape size mismatch")
        return tuple(flat)
    step = 1
    for s in shape[1:]:
        step *= s
    if step * shape[0] != len(flat):
        raise Unsupported("reshape size mismatch")
    return tuple(_build(flat[i * step:(i + 1) * step], shape[1:]) for i in range(shape[0]))


def _get(d, idx: Tuple[int, ...]):
    for i in idx:
        d = d[i]
    return d


def _broadcast(a, b, op):
    a = a if isinstance(a, Arr) else Arr(a)
    b = b if isinstance(b, Arr) else Arr(b)
    sa, sb = a.shape, b.shape
    n = max(len(sa), len(sb))
    sa2 = (1,) * (n - len(sa)) + sa
    sb2 = (1,) * (n - len(sb)) + sb
    out_shape = []
    for x, y in zip(sa2, sb2):
        if x == y or x == 1 or y == 1:
            out_shape.append(max(x, y))
        else:
            raise Unsupported(f"shapes {sa} and {sb} do not broadcast")
    if not out_shape:
        return op(a.data, b.data)
    da = _build(a.flat(), sa2) if sa2 else a.data
    db = _build(b.flat(), sb2) if sb2 else b.data

    def rec(prefix):
        if len(prefix) == n:
            ia = tuple(0 if sa2[k] == 1 else prefix[k] for k in range(n))
            ib = tuple(0 if sb2[k] == 1 else prefix[k] for k in range(n))
            return op(_get(da, ia), _get(db, ib))
        return tuple(rec(prefix + (i,)) for i in range(out_shape[len(prefix)]))
    return Arr(rec(()))


class MiniNumpy:
    """Interpreter of one function body (assignments and a return) over ``Arr`` / form / int / list values."""

    def __init__(self, np_names=("np", "numpy")):
        self.np_names = set(np_names)

    def run(self, fn: ast.FunctionDef, args: Dict[str, Any]):
        env = dict(args)
        for st in fn.body:
            if isinstance(st, ast.Expr) and isinstance(st.value, ast.Constant):
                continue
            if isinstance(st, ast.Assign) and len(st.targets) == 1 and isinstance(st.targets[0], ast.Name):
                env[st.targets[0].id] = self.ev(st.value, env)
            elif isinstance(st, ast.AnnAssign) and isinstance(st.target, ast.Name) and st.value is not None:
                env[st.target.id] = self.ev(st.value, env)
            elif isinstance(st, ast.Return) and st.value is not None:
                return self.ev(st.value, env)
            else:
                raise Unsupported(f"statement {type(st).__name__}")
        raise Unsupported("no return")

    # -- helpers -------------------------------------------------------------------------------
    def _as_arr(self, v) -> Arr:
        if isinstance(v, Arr):
            return v
        if isinstance(v, (list, tuple)) and not is_form(v):
            items = [self._as_arr(x) if not is_form(x) else x for x in v]
            return Arr(tuple(x.data if isinstance(x, Arr) else x for x in items))
        if is_form(v):
            return Arr(v)
        if isinstance(v, int):
            return Arr(const(v))
        raise Unsupported("not array-like")

    def _int(self, v) -> int:
        if isinstance(v, bool):
            raise Unsupported("bool as int")
        if isinstance(v, int):
            return v
        if is_form(v):
            c = f_const_value(v)
            if c is not None and c.denominator == 1:
                return int(c)
        raise Unsupported("a concrete integer is needed here")

    def _np_func(self, f: ast.expr):
        if isinstance(f, ast.Attribute) and isinstance(f.value, ast.Name) and f.value.id in self.np_names:
            return f.attr
        return None

    # -- expressions ---------------------------------------------------------------------------
    def ev(self, e: ast.expr, env):
        if isinstance(e, ast.Constant):
            if isinstance(e.value, bool) or not isinstance(e.value, (int,)):
                if e.value is None:
                    return None
                raise Unsupported(f"constant {e.value!r}")
            return e.value
        if isinstance(e, ast.Name):
            if e.id in env:
                return env[e.id]
            raise Unsupported(f"name {e.id}")
        if isinstance(e, ast.Attribute):
            if isinstance(e.value, ast.Name) and e.value.id in self.np_names and e.attr == "newaxis":
                return None
            base = self.ev(e.value, env)
            if e.attr == "T" and isinstance(base, Arr) and len(base.shape) == 2:
                r, c = base.shape
                return Arr(tuple(tuple(base.data[i][j] for i in range(r)) for j in range(c)))
            if e.attr == "size" and isinstance(base, Arr):
                return len(base.flat())
            raise Unsupported(f"attribute {e.attr}")
        if isinstance(e, ast.UnaryOp) and isinstance(e.op, ast.USub):
            v = self.ev(e.operand, env)
            return _broadcast(const(-1), v if not isinstance(v, int) else const(v), f_mul) if not isinstance(v, int) else -v
        if isinstance(e, ast.BinOp):
            a, b = self.ev(e.left, env), self.ev(e.right, env)
            if isinstance(a, int) and isinstance(b, int):
                if isinstance(e.op, ast.Add):
                    return a + b
                if isinstance(e.op, ast.Sub):
                    return a - b
                if isinstance(e.op, ast.Mult):
                    return a * b
                if isinstance(e.op, ast.FloorDiv) and b != 0:
                    return a // b
                if isinstance(e.op, ast.Mod) and b != 0:
                    return a % b
                raise Unsupported(f"operator {type(e.op).__name__}")
            if isinstance(a, list) or isinstance(b, list):
                if isinstance(e.op, ast.Add) and isinstance(a, list) and isinstance(b, list):
                    return a + b
                if isinstance(e.op, ast.Mult) and isinstance(a, list) and isinstance(b, int):
                    return a * b
                if isinstance(e.op, ast.Mult) and isinstance(b, list) and isinstance(a, int):
                    return b * a
                raise Unsupported("list arithmetic")
            fa = const(a) if isinstance(a, int) else a
            fb = const(b) if isinstance(b, int) else b
            if isinstance(e.op, ast.Add):
                return self._scalar_or_arr(_broadcast(fa, fb, lambda x, y: f_add(x, y)))
            if isinstance(e.op, ast.Sub):
                return self._scalar_or_arr(_broadcast(fa, fb, lambda x, y: f_add(x, y, -1)))
            if isinstance(e.op, ast.Mult):
                return self._scalar_or_arr(_broadcast(fa, fb, f_mul))
            raise Unsupported(f"operator {type(e.op).__name__}")
        if isinstance(e, (ast.List, ast.Tuple)):
            return [self.ev(x, env) for x in e.elts]
        if isinstance(e, ast.ListComp) or isinstance(e, ast.GeneratorExp):
            return self._comp(e, env)
        if isinstance(e, ast.Subscript):
            return self._subscript(e, env)
        if isinstance(e, ast.Call):
            return self._call(e, env)
        raise Unsupported(f"expression {type(e).__name__}")

    def _scalar_or_arr(self, v):
        return v

    def _comp(self, e, env):
        if len(e.generators) != 1 or e.generators[0].ifs or not isinstance(e.generators[0].target, ast.Name):
            raise Unsupported("comprehension shape")
        it = self.ev(e.generators[0].iter, env)
        if isinstance(it, range):
            it = list(it)
        if isinstance(it, Arr):
            it = [Arr(x) if not is_form(x) else x for x in it.data]
        if not isinstance(it, list):
            raise Unsupported("comprehension domain")
        out = []
        for x in it:
            env2 = dict(env)
            env2[e.generators[0].target.id] = x
            out.append(self.ev(e.elt, env2))
        return out

    def _subscript(self, e: ast.Subscript, env):
        base = self.ev(e.value, env)
        sl = e.slice
        parts = list(sl.elts) if isinstance(sl, ast.Tuple) else [sl]
        if isinstance(base, list) and len(parts) == 1 and not isinstance(parts[0], ast.Slice):
            return base[self._int(self.ev(parts[0], env))]
        arr = self._as_arr(base)
        shape = arr.shape
        # only: full slices ``:``, integer indices and np.newaxis / None
        spec = []
        for p in parts:
            if isinstance(p, ast.Slice):
                if p.lower is not None or p.upper is not None or p.step is not None:
                    raise Unsupported("partial slice of an array")
                spec.append("all")
            else:
                v = self.ev(p, env)
                if v is None:
                    spec.append("new")
                else:
                    spec.append(self._int(v))
        n_real = sum(1 for x in spec if x != "new")
        if n_real > len(shape):
            raise Unsupported("too many indices")
        spec += ["all"] * (len(shape) - n_real)

        def rec(d, sp):
            if not sp:
                return d
            h, rest = sp[0], sp[1:]
            if h == "new":
                return (rec(d, rest),)
            if h == "all":
                return tuple(rec(x, rest) for x in d)
            return rec(d[h], rest)
        out = rec(arr.data, spec)
        return out if is_form(out) else Arr(out)

    def _call(self, e: ast.Call, env):
        kw = {k.arg: k.value for k in e.keywords}
        if None in kw:
            raise Unsupported("**kwargs")
        name = self._np_func(e.func)
        args = list(e.args)
        # np.add.outer(a, b) / np.multiply.outer(a, b): out[i][j] = a[i] (+|*) b[j]
        if isinstance(e.func, ast.Attribute) and e.func.attr == "outer" and isinstance(e.func.value, ast.Attribute) and e.func.value.attr in ("add", "multiply", "subtract") \
                and isinstance(e.func.value.value, ast.Name) and e.func.value.value.id in self.np_names and len(args) == 2:
            a, b = self._as_arr(self.ev(args[0], env)), self._as_arr(self.ev(args[1], env))
            if len(a.shape) != 1 or len(b.shape) != 1:
                raise Unsupported("outer of non-vectors")
            op = e.func.value.attr
            rows = []
            for x in a.data:
                row = []
                for y in b.data:
                    row.append(f_add(x, y) if op == "add" else f_add(x, y, -1) if op == "subtract" else f_mul(x, y))
                rows.append(tuple(row))
            return Arr(tuple(rows))
        if isinstance(e.func, ast.Name):
            fn = e.func.id
            if fn == "range":
                vals = [self._int(self.ev(a, env)) for a in args]
                return list(range(*vals))
            if fn == "len":
                v = self.ev(args[0], env)
                if isinstance(v, list):
                    return len(v)
                if isinstance(v, Arr):
                    return v.shape[0]
                raise Unsupported("len of a scalar")
            if fn in ("list", "tuple"):
                v = self.ev(args[0], env)
                if isinstance(v, Arr):
                    return [Arr(x) if not is_form(x) else x for x in v.data]
                if isinstance(v, list):
                    return list(v)
            if fn == "int":
                return self._int(self.ev(args[0], env))
            raise Unsupported(f"function {fn}")
        if name in ("array", "asarray", "stack", "vstack"):
            return self._as_arr(self.ev(args[0], env))
        if name == "arange":
            vals = [self._int(self.ev(a, env)) for a in args]
            return Arr(tuple(const(i) for i in range(*vals)))
        if name in ("repeat", "tile"):
            src = self.ev(args[0], env)
            cnt = kw.get("repeats" if name == "repeat" else "reps", args[1] if len(args) > 1 else None)
            if cnt is None:
                raise Unsupported(f"np.{name} without a count")
            n = self._int(self.ev(cnt, env))
            a = self._as_arr(src)
            if "axis" in kw:
                ax = self.ev(kw["axis"], env)
                if name == "repeat" and ax is not None:
                    ax = self._int(ax)
                    sh = a.shape
                    if ax < 0:
                        ax += len(sh)

                    def rec(d, depth):
                        if depth == ax:
                            out = []
                            for x in d:
                                out.extend([x] * n)
                            return tuple(out)
                        return tuple(rec(x, depth + 1) for x in d)
                    return Arr(rec(a.data, 0))
                raise Unsupported("axis argument")
            flat = a.flat()
            if name == "repeat":
                return Arr(tuple(x for x in flat for _ in range(n)))
            if len(a.shape) != 1:
                raise Unsupported("np.tile of a multi-dimensional array")
            return Arr(tuple(flat * n))
        if name == "concatenate":
            parts = self.ev(args[0], env)
            if isinstance(parts, Arr):
                parts = [Arr(x) for x in parts.data]
            out: List = []
            for p_ in parts:
                a = self._as_arr(p_)
                if len(a.shape) != 1:
                    raise Unsupported("concatenate of multi-dimensional arrays")
                out.extend(a.flat())
            return Arr(tuple(out))
        if name in ("add", "multiply"):
            a, b = self.ev(args[0], env), self.ev(args[1], env)
            fa = const(a) if isinstance(a, int) else a
            fb = const(b) if isinstance(b, int) else b
            return _broadcast(fa, fb, (lambda x, y: f_add(x, y)) if name == "add" else f_mul)
        if name in ("zeros", "ones", "full"):
            shp = self.ev(args[0], env)
            shp = tuple(self._int(x) for x in shp) if isinstance(shp, list) else (self._int(shp),)
            fill = const(0) if name == "zeros" else const(1) if name == "ones" else self.ev(args[1], env)
            fill = const(fill) if isinstance(fill, int) else fill
            total = 1
            for x in shp:
                total *= x
            return Arr(_build([fill] * total, shp))
        if name == "outer":
            a, b = self._as_arr(self.ev(args[0], env)), self._as_arr(self.ev(args[1], env))
            return Arr(tuple(tuple(f_mul(x, y) for y in b.flat()) for x in a.flat()))
        if isinstance(e.func, ast.Attribute) and name is None:
            recv = self.ev(e.func.value, env)
            m = e.func.attr
            if m == "reshape":
                a = self._as_arr(recv)
                dims = [self.ev(x, env) for x in args]
                if len(dims) == 1 and isinstance(dims[0], list):
                    dims = dims[0]
                dims = [self._int(x) for x in dims]
                flat = a.flat()
                if dims.count(-1) == 1:
                    known = 1
                    for x in dims:
                        if x != -1:
                            known *= x
                    if known == 0 or len(flat) % known:
                        raise Unsupported("reshape size mismatch")
                    dims[dims.index(-1)] = len(flat) // known
                return Arr(_build(flat, tuple(dims)))
            if m in ("flatten", "ravel"):
                return Arr(tuple(self._as_arr(recv).flat()))
            if m in ("copy", "astype", "tolist"):
                return recv
            if m == "transpose" and not args:
                a = self._as_arr(recv)
                if len(a.shape) == 2:
                    r, c = a.shape
                    return Arr(tuple(tuple(a.data[i][j] for i in range(r)) for j in range(c)))
            raise Unsupported(f"method {m}")
        raise Unsupported(f"call {ast.unparse(e.func)}")
