"""Command line of qcolint.

    python -m qcolint check <Cxx> [--tier quick|thorough] [--src DIR] [--no-write]
    python -m qcolint explain <replay.json>
    python -m qcolint selftest [<Cxx> ...] [--jobs N]
    python -m qcolint all [--tier quick]
"""
from __future__ import annotations

import argparse
import importlib
import json
import os
import sys
import traceback

from .model import AnalysisError, Model, default_src_root
from .report import Report

PROPS = [f"C{i:02d}" for i in range(1, 20)]


def run_check(prop: str, tier: str, src_root: str, write: bool = True, quiet: bool = False):
    """Returns (exit_code, report-or-None, error-text-or-None)."""
    rep = None
    try:
        mod = importlib.import_module(f"qcolint.rules.{prop.lower()}")
        rep = Report(prop, tier, src_root, quiet=quiet, write=write)
        model = Model(src_root)
        rep.analysed["modules"] = len(model.modules)
        rep.analysed["classes"] = sum(len(m.classes) for m in model.modules.values())
        mod.check(model, rep, tier)
        from .rules.common import python_slips_rule, depth_budget_rule, DEPTH_BUDGET_RULES
        with rep.isolated():
            python_slips_rule(model, rep, prop)
        if prop in DEPTH_BUDGET_RULES:
            # every property that lists, times, indexes or exports the operations of a circuit rests on the complete layer walk
            with rep.isolated():
                depth_budget_rule(model, rep, DEPTH_BUDGET_RULES[prop])
        if rep.undecided:
            known = {(k.get("rule"), k.get("construct"), k.get("detail", "")) for k in __import__("qcolint.report", fromlist=["load_known"]).load_known() if k.get("property") == prop}
            definite = [v for v in rep.violations() if (v["rule"], v["construct"], v.get("detail", "")) not in known]
            if not definite:
                # nothing definite and at least one rule could not read the code: the check as a whole is undecided
                return 2, rep, f"ANALYSIS-ERROR property={prop} {rep.undecided[0]}"
            # a violation is definite whatever other rules could not decide: report it, and say what stayed undecided
            if not quiet:
                for u in rep.undecided:
                    print(f"UNDECIDED property={prop} (other rules decided a violation) {u.splitlines()[0]}")
            rep.infos.extend("undecided: " + u for u in rep.undecided)
            return rep.finish(), rep, None
        if not rep.obligations:
            raise AnalysisError("no obligation was generated (vacuous run)")
        return rep.finish(), rep, None
    except AnalysisError as e:
        return 2, rep, f"ANALYSIS-ERROR property={prop} {type(e).__name__}: {e}"
    except Exception as e:  # a crash of the checker is never a violation
        tb = traceback.format_exc(limit=6)
        return 2, rep, f"ANALYSIS-ERROR property={prop} checker crashed: {type(e).__name__}: {e}\n{tb}"


def main(argv=None) -> int:
    ap = argparse.ArgumentParser(prog="qcolint")
    sub = ap.add_subparsers(dest="cmd", required=True)
    c = sub.add_parser("check")
    c.add_argument("prop")
    c.add_argument("--tier", default=os.environ.get("VERIF_TIER", "quick"), choices=["quick", "thorough"])
    c.add_argument("--src", default=None)
    c.add_argument("--no-write", action="store_true")
    c.add_argument("--jobs", type=int, default=16)
    a = sub.add_parser("all")
    a.add_argument("--tier", default="quick")
    a.add_argument("--src", default=None)
    a.add_argument("--no-write", action="store_true")
    e = sub.add_parser("explain")
    e.add_argument("replay")
    s = sub.add_parser("selftest")
    s.add_argument("props", nargs="*")
    s.add_argument("--jobs", type=int, default=16)
    s.add_argument("--src", default=None)
    s.add_argument("-v", action="store_true")
    args = ap.parse_args(argv)

    if args.cmd == "check":
        prop = args.prop.upper()
        if prop not in PROPS:
            print(f"ANALYSIS-ERROR unknown property {prop}")
            return 2
        src = args.src or default_src_root()
        code, rep, err = run_check(prop, args.tier, src, write=not args.no_write)
        if err:
            print(err)
            return code
        if args.tier == "thorough" and code == 0:
            from . import selftest
            st = selftest.run([prop], jobs=args.jobs, src_root=src, verbose=False)
            if st["failed"]:
                for f in st["failed"]:
                    print(f"ANALYSIS-ERROR property={prop} self-test: {f}")
                return 2
            # fold the self-test coverage into the evidence file
            if not args.no_write:
                selftest.annotate_evidence(prop, st)
            print(f"[{prop}] self-test: {st['must_fire_ok']}/{st['must_fire']} must-fire variants reported, "
                  f"{st['silent_ok']}/{st['silent']} behaviour-preserving variants silent"
                  + (f", {st['skipped']} not applicable to this tree" if st.get("skipped") else "")
                  + (f", undecided: {', '.join(st['undecided'])}" if st.get("undecided") else "")
                  + (f", seeded changes not reported (run-time quantity, outside the technique, DESIGN 7.9): {', '.join(st['recorded_misses'])}" if st.get("recorded_misses") else "")
                  + (f", recorded false alarms on rewrites (limitation, see DESIGN 7.6): {', '.join(st['recorded_false_alarms'])}" if st.get("recorded_false_alarms") else ""))
        return code
    if args.cmd == "all":
        src = args.src or default_src_root()
        worst = 0
        for p in PROPS:
            try:
                importlib.import_module(f"qcolint.rules.{p.lower()}")
            except ModuleNotFoundError:
                continue
            code, rep, err = run_check(p, args.tier, src, write=not args.no_write)
            if err:
                print(err)
            worst = max(worst, code)
        return worst
    if args.cmd == "explain":
        with open(args.replay) as fh:
            data = json.load(fh)
        print(json.dumps(data, indent=1))
        prop = data["property"]
        code, rep, err = run_check(prop, data.get("tier", "quick"), default_src_root(), write=False)
        if err:
            print(err)
        return code
    if args.cmd == "selftest":
        from . import selftest
        props = [p.upper() for p in args.props] or PROPS
        st = selftest.run(props, jobs=args.jobs, src_root=args.src or default_src_root(), verbose=args.v)
        print(json.dumps({k: v for k, v in st.items() if k != "details"}, indent=1))
        return 2 if st["failed"] else 0
    return 2


if __name__ == "__main__":
    try:
        sys.exit(main())
    except SystemExit:
        raise
    except BaseException as exc:  # pragma: no cover
        print(f"ANALYSIS-ERROR qcolint crashed: {type(exc).__name__}: {exc}")
        sys.exit(2)
