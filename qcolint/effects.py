"""E5 -- effect analysis: which attributes does a function write, directly and transitively.

A *write* is ``x.a = v`` / ``x.a op= v`` / ``x.a[k] = v`` / ``del x.a[k]`` / a mutator call on an attribute
(``x.a.append(..)``) / ``object.__setattr__(x, 'a', v)`` / ``setattr(x, 'a', v)`` / a class-attribute rebinding
(``C.m = f``).  The receiver is classified as

    self     the method's own object
    param    an object handed in by the caller
    fresh    an object constructed in this function (constructor call / .copy()) -- not an effect on existing state
    class    a class object (process-wide binding)
    other    anything else reached through attributes (``node.operation.relation_link = ..``)

Writes to ``fresh`` receivers are dropped from effect sets.
"""
from __future__ import annotations

import ast
from typing import Dict, Iterable, List, Optional, Set, Tuple

from .model import ClassInfo, FunctionInfo, Model, dotted
from .resolve import CallGraph, TypeEnv

MUTATORS = {"append", "extend", "remove", "pop", "update", "add", "clear", "insert", "setdefault", "discard", "popitem", "sort", "reverse"}


class Write:
    __slots__ = ("fn", "node", "owner", "attr", "receiver", "receiver_src", "how")

    def __init__(self, fn: FunctionInfo, node: ast.AST, owner: Optional[ClassInfo], attr: str, receiver: str, receiver_src: str, how: str):
        self.fn, self.node, self.owner, self.attr, self.receiver, self.receiver_src, self.how = fn, node, owner, attr, receiver, receiver_src, how

    @property
    def loc(self) -> str:
        return f"{self.fn.module.relpath}:{getattr(self.node, 'lineno', self.fn.lineno)}"

    def key(self) -> Tuple[str, str]:
        return (self.owner.name if self.owner else "?", self.attr)

    def __repr__(self):
        return f"<write {self.key()} via {self.how} on {self.receiver}:{self.receiver_src} in {self.fn.qualname}>"


class Effects:
    def __init__(self, model: Model, cg: Optional[CallGraph] = None):
        self.model = model
        self.cg = cg or CallGraph(model)
        self._direct: Dict[FunctionInfo, List[Write]] = {}

    # ------------------------------------------------------------------------------------------
    def _fresh_names(self, fn: FunctionInfo) -> Set[str]:
        """Locals bound (only) to objects created in this function."""
        fresh: Dict[str, bool] = {}
        for n in ast.walk(fn.node):
            tgs, val = [], None
            if isinstance(n, ast.Assign):
                tgs, val = n.targets, n.value
            elif isinstance(n, ast.AnnAssign) and n.value is not None:
                tgs, val = [n.target], n.value
            for t in tgs:
                if not isinstance(t, ast.Name):
                    continue
                is_fresh = self._is_fresh_expr(val, fn)
                fresh[t.id] = fresh.get(t.id, True) and is_fresh
        params = set(fn.param_names)
        return {k for k, v in fresh.items() if v and k not in params}

    def _is_fresh_expr(self, e: Optional[ast.expr], fn: FunctionInfo, _depth: int = 0) -> bool:
        if isinstance(e, (ast.List, ast.Dict, ast.Set, ast.ListComp, ast.DictComp, ast.SetComp, ast.Tuple)):
            return True
        if isinstance(e, ast.Call):
            f = e.func
            if isinstance(f, ast.Name):
                if f.id in ("list", "dict", "set", "tuple", "sorted", "reversed"):
                    return True
                tgt = self.model.lookup_symbol(fn.module, f.id)
                return isinstance(tgt, ClassInfo)
            if isinstance(f, ast.Attribute) and f.attr == "copy":
                return True
            if isinstance(f, ast.Attribute) and f.attr.startswith("_") and not f.attr.startswith("__") and isinstance(f.value, ast.Name) \
                    and f.value.id == fn.self_name and fn.cls is not None and _depth < 3:
                # private factory helper: fresh when every return of it is a fresh expression
                hs = fn.cls.resolve_all(f.attr)
                if len(hs) == 1 and hs[0].kind in ("method", "staticmethod", "classmethod"):
                    rets = [r for r in ast.walk(hs[0].node) if isinstance(r, ast.Return)]
                    return bool(rets) and all(r.value is not None and self._is_fresh_expr(r.value, hs[0], _depth + 1) for r in rets)
            if isinstance(f, ast.Attribute):
                # classmethod constructors:  Class.from_x(...) / Class.no_relation()
                name = dotted(f.value)
                tgt = self.model.lookup_symbol(fn.module, name) if name else None
                if isinstance(tgt, ClassInfo):
                    m = tgt.resolve(f.attr)
                    return m is not None and m.kind in ("classmethod", "staticmethod")
        return False

    def _classify(self, recv: ast.expr, fn: FunctionInfo, env: TypeEnv, fresh: Set[str]) -> Tuple[str, Optional[ClassInfo]]:
        t = env.type_of(recv)
        owner = t.cls if t is not None else None
        if isinstance(recv, ast.Name):
            if recv.id == fn.self_name:
                return ("class" if fn.kind == "classmethod" else "self"), owner
            if recv.id in fresh:
                return "fresh", owner
            if recv.id in fn.param_names:
                return "param", owner
            if t is not None and t.is_class_obj:
                return "class", owner
            tgt = self.model.lookup_symbol(fn.module, recv.id)
            if isinstance(tgt, ClassInfo):
                return "class", tgt
            return "other", owner
        if t is not None and t.is_class_obj:
            return "class", owner
        return "other", owner

    def direct_writes(self, fn: FunctionInfo) -> List[Write]:
        if fn in self._direct:
            return self._direct[fn]
        env = self.cg.env(fn)
        fresh = self._fresh_names(fn)
        out: List[Write] = []

        def rec(node, target: ast.expr, how: str):
            # x.a = v   or   x.a[k] = v
            sub = False
            while isinstance(target, ast.Subscript):
                target = target.value
                sub = True
            if isinstance(target, ast.Attribute):
                kind, owner = self._classify(target.value, fn, env, fresh)
                out.append(Write(fn, node, owner, target.attr, kind, ast.unparse(target.value), how + ("[]" if sub else "")))
            elif isinstance(target, ast.Name) and sub:
                # local/param container item store:  lookup[k] = v
                if target.id in fn.param_names and target.id != fn.self_name:
                    out.append(Write(fn, node, None, f"<param {target.id}>[]", "param", target.id, how + "[]"))
            elif isinstance(target, (ast.Tuple, ast.List)):
                for e in target.elts:
                    rec(node, e, how)

        for n in ast.walk(fn.node):
            if isinstance(n, ast.Assign):
                for t in n.targets:
                    rec(n, t, "assign")
            elif isinstance(n, ast.AugAssign):
                rec(n, n.target, "augassign")
            elif isinstance(n, ast.AnnAssign) and n.value is not None:
                rec(n, n.target, "assign")
            elif isinstance(n, ast.Delete):
                for t in n.targets:
                    rec(n, t, "del")
            elif isinstance(n, ast.Call):
                f = n.func
                if isinstance(f, ast.Attribute) and f.attr in MUTATORS and isinstance(f.value, ast.Attribute):
                    kind, owner = self._classify(f.value.value, fn, env, fresh)
                    # only containers: a package method named 'add'/'extend' is a call edge, not a container mutation
                    t = env.type_of(f.value)
                    if t is not None and t.cls is not None and t.elem is None:
                        continue
                    out.append(Write(fn, n, owner, f.value.attr, kind, ast.unparse(f.value.value), f"call:{f.attr}"))
                elif isinstance(f, ast.Attribute) and f.attr in MUTATORS and isinstance(f.value, ast.Name) \
                        and f.value.id in fn.param_names and f.value.id != fn.self_name:
                    t = env.type_of(f.value)
                    if t is None or t.cls is None:
                        out.append(Write(fn, n, None, f"<param {f.value.id}>", "param", f.value.id, f"call:{f.attr}"))
                elif ((isinstance(f, ast.Attribute) and f.attr == "__setattr__" and dotted(f.value) == "object")
                      or (isinstance(f, ast.Name) and f.id == "setattr")) and len(n.args) >= 2:
                    a = n.args[1]
                    name = a.value if isinstance(a, ast.Constant) and isinstance(a.value, str) else "<dynamic>"
                    kind, owner = self._classify(n.args[0], fn, env, fresh)
                    out.append(Write(fn, n, owner, name, kind, ast.unparse(n.args[0]), "setattr"))
        if out and fn.kind == "method" and fn.name.startswith("_") and not fn.name.startswith("__") and self._only_called_on_fresh(fn):
            # a private helper that is only ever invoked on an object its caller has just created initialises that object
            out = [Write(w.fn, w.node, w.owner, w.attr, "fresh", w.receiver_src, w.how) if w.receiver == "self" else w for w in out]
        self._direct[fn] = out
        return out

    def _only_called_on_fresh(self, fn: FunctionInfo) -> bool:
        sites = 0
        for g in self.model.all_functions():
            if g is fn:
                continue
            fresh_g: Optional[Set[str]] = None
            for n in ast.walk(g.node):
                if isinstance(n, ast.Call) and isinstance(n.func, ast.Attribute) and n.func.attr == fn.name:
                    sites += 1
                    if fresh_g is None:
                        fresh_g = self._fresh_names(g)
                    if not (isinstance(n.func.value, ast.Name) and n.func.value.id in fresh_g):
                        return False
        return sites > 0

    def transitive_writes(self, roots: Iterable[FunctionInfo], stop=lambda f: False,
                          include_fresh: bool = False) -> List[Tuple[Write, List[FunctionInfo]]]:
        """Writes of every function reachable from the roots with one shortest call path each."""
        from collections import deque
        out: List[Tuple[Write, List[FunctionInfo]]] = []
        for root in roots:
            prev: Dict[FunctionInfo, Optional[FunctionInfo]] = {root: None}
            dq = deque([root])
            while dq:
                f = dq.popleft()
                for w in self.direct_writes(f):
                    if w.receiver == "fresh" and not include_fresh:
                        continue
                    path = []
                    g: Optional[FunctionInfo] = f
                    while g is not None:
                        path.append(g)
                        g = prev[g]
                    out.append((w, list(reversed(path))))
                if stop(f):
                    continue
                for cs in self.cg.call_sites(f):
                    for c in cs.callees:
                        if c not in prev:
                            prev[c] = f
                            dq.append(c)
        return out
