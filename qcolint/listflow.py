"""Contents of a local list that is filled by ``append`` / ``extend`` (accumulator idiom), as a comprehension normal form.

``acc = []; for e in D: if c(e): continue; acc.append(f(e))``   ==   ``[f(e) for e in D if not c(e)]``

The path enumerator keeps a freshly created local container as ``('var', name, line, init)``; what it holds at the end of a path is
decided here from the effects of that path.  Only shapes whose meaning is exactly a comprehension are converted; anything else gives
None (the caller then reports the construct as not recognised instead of guessing).
"""
from __future__ import annotations

from typing import List, Optional, Tuple

from .paths import Event, Path
from .sym import FALSE, TRUE, Term, show, subst, subterms, t_or


def _is_var(t: Term, var: Term) -> bool:
    return t == var or (t[0] == "var" and var[0] == "var" and t[1:3] == var[1:3])


def _appends(events: List[Event], var: Term) -> Optional[List[Tuple[str, Term]]]:
    """[(kind, value)] of the mutations of ``var`` among top-level events (kind: item | seq); None if something else mutates it."""
    out: List[Tuple[str, Term]] = []
    for e in events:
        if e.kind == "effect" and e.term is not None and e.term[0] == "call" and isinstance(e.term[1], tuple) and e.term[1][0] == "attr" and _is_var(e.term[1][1], var):
            m = e.term[1][2]
            args = list(e.term[2]) + [v for _, v in e.term[3]]
            if m == "append" and len(args) == 1:
                out.append(("item", args[0]))
            elif m == "extend" and len(args) == 1:
                out.append(("seq", args[0]))
            elif m in ("index", "count", "copy", "__len__", "__contains__"):
                continue
            else:
                return None
        elif e.kind == "aug" and e.extra and e.extra[0] == var[1]:
            return None
        elif e.kind == "loop":
            inner = [_appends(bp.events, var) for bp in e.extra["paths"]]
            if any(x is None for x in inner):
                return None
            if any(inner):
                out.append(("loop", e))
    return out


def contents(path: Path, var: Term) -> Optional[List[Term]]:
    """Segments (in order) of the local list ``var`` at the end of ``path``: each a list-valued term (list literal, comprehension, or any
    sequence term that was ``extend``-ed).  None when the filling is not one of the recognised shapes."""
    if var[0] != "var":
        return None
    init = var[3]
    segs: List[Term] = []
    if init[0] == "list":
        if init[1]:
            segs.append(init)
    elif init[0] == "comp" and init[1] == "list":
        segs.append(init)
    else:
        return None
    muts = _appends(path.events, var)
    if muts is None:
        return None
    for kind, v in muts:
        if kind == "item":
            if segs and segs[-1][0] == "list":
                segs[-1] = ("list", segs[-1][1] + (v,))
            else:
                segs.append(("list", (v,)))
        elif kind == "seq":
            segs.append(v)
        else:
            comp = _loop_as_comp(v, var)
            if comp is None:
                return None
            segs.append(comp)
    return segs


def _loop_as_comp(lp: Event, var: Term) -> Optional[Term]:
    if lp.term is None:
        return None  # while loop
    conds, exprs = [], []
    # nested scan: ``for x in D: for y in E(x): [if c:] acc.append(f)``  ->  two generators
    if len(lp.extra["paths"]) == 1 and lp.extra["paths"][0].cond == TRUE and lp.extra["paths"][0].exit in ("fall", "continue"):
        a0 = _appends(lp.extra["paths"][0].events, var)
        if a0 is not None and len(a0) == 1 and a0[0][0] == "loop":
            inner = _loop_as_comp(a0[0][1], var)
            if inner is not None:
                elem0 = ("bound", "for", lp.node.lineno, show(lp.term))
                cb0 = ("bound", 0, 0, show(lp.term))
                gens = tuple((subst(d, {elem0: cb0}), tuple(subst(c, {elem0: cb0}) for c in cs)) for d, cs in inner[3])
                # inner bounds keep their own label; shift their position index so that the two generators do not collide
                return ("comp", "list", subst(inner[2], {elem0: cb0}), ((lp.term, ()),) + gens)
    for bp in lp.extra["paths"]:
        a = _appends(bp.events, var)
        if a is None or any(k != "item" for k, _ in a) or len(a) > 1:
            return None
        if bp.exit not in ("fall", "continue"):
            return None
        if a:
            conds.append(bp.cond)
            exprs.append(a[0][1])
    if not exprs or len({repr(x) for x in exprs}) != 1:
        return None
    lineno = lp.node.lineno
    if subterms(exprs[0], lambda x: x[0] == "loopvar" and x[2] == lineno):
        return None
    elem = ("bound", "for", lineno, show(lp.term))
    cbound = ("bound", 0, 0, show(lp.term))
    cond = t_or(*conds) if len(conds) > 1 else conds[0]
    cond = subst(cond, {elem: cbound})
    expr = subst(exprs[0], {elem: cbound})
    if subterms(cond, lambda x: x[0] == "loopvar" and x[2] == lineno):
        return None
    return ("comp", "list", expr, ((lp.term, () if cond == TRUE else (cond,)),))


def dict_as_comp(path: Path, t: Term) -> Term:
    """``t`` itself, or -- for a local dict that starts empty and is filled by exactly one loop with one unconditional ``d[k] = v`` per element (and by nothing
    else) -- the dict comprehension ``{k: v for <elem> in <domain>}`` it abbreviates."""
    if not (t[0] == "var" and len(t) == 4 and t[3] in (("dict", ()), ("call", "dict", (), ()))):
        return t
    fills = []
    for e in path.events:
        if e.kind == "store" and e.term is not None and e.term[0] == "store" and _is_var(e.term[1], t):
            return t                                  # a store outside a loop: not a single comprehension
        if e.kind == "effect" and e.term is not None and e.term[0] == "call" and isinstance(e.term[1], tuple) and e.term[1][0] == "attr" and _is_var(e.term[1][1], t) \
                and e.term[1][2] in ("update", "pop", "clear", "setdefault", "popitem", "__setitem__", "__delitem__"):
            return t
        if e.kind == "loop":
            touched = False
            per_path = []
            for bp in e.extra["paths"]:
                st = [x.term for x in bp.events if x.kind == "store" and x.term is not None and x.term[0] == "store" and _is_var(x.term[1], t)]
                nested = [x for x in bp.events if x.kind == "loop"]
                if nested and any(_is_var(y.term[1], t) for n_ in nested for b2 in n_.extra["paths"] for y in b2.events if y.kind == "store" and y.term is not None and y.term[0] == "store"):
                    return t
                if st:
                    touched = True
                per_path.append((bp, st))
            if touched:
                if e.term is None or any(len(st) != 1 or bp.cond != TRUE or bp.exit not in ("fall", "continue") for bp, st in per_path):
                    return t
                if len({repr(st[0]) for _, st in per_path}) != 1:
                    return t
                fills.append((e, per_path[0][1][0]))
    if len(fills) != 1:
        return t
    lp, st = fills[0]
    if st[2][0] != "index":
        return t
    lineno = lp.node.lineno
    elem = ("bound", "for", lineno, show(lp.term))
    cb = ("bound", 0, 0, show(lp.term))
    key, val = subst(st[2][1], {elem: cb}), subst(st[3], {elem: cb})
    if subterms((key, val), lambda x: x[0] == "loopvar" and x[2] == lineno):
        return t
    return ("dictcomp", key, val, ((lp.term, ()),))


def as_single_comp(path: Path, t: Term) -> Term:
    """``t`` itself, or -- for a local accumulator list that is exactly one comprehension -- that comprehension."""
    if t[0] == "var":
        segs = contents(path, t)
        if segs is not None and len(segs) == 1:
            return segs[0]
        if segs is not None and not segs:
            return ("list", ())
    return t


def unroll_comp(t: Term) -> Term:
    """A comprehension without filter over a display is the display of its results: ``[row[0] for row in ((a, b), (b, a))]`` is ``[a, b]``."""
    u = t
    while u[0] == "var" and len(u) == 4:
        u = u[3]
    if u[0] == "comp" and u[1] in ("list", "gen", "set") and len(u[3]) == 1 and not u[3][0][1]:
        dom = u[3][0][0]
        d = dom
        while d[0] == "var" and len(d) == 4:
            d = d[3]
        if d[0] in ("list", "tuple") and not any(x[0] == "star" for x in d[1]):
            bs = set(subterms(u[2], lambda x: x[0] == "bound" and isinstance(x[1], int) and x[3] == show(dom)))
            if len(bs) <= 1:
                b = next(iter(bs), None)
                return ("set" if u[1] == "set" else "list", tuple(subst(u[2], {b: x}) if b is not None else u[2] for x in d[1]))
    return t


def fuse_comp(t: Term) -> Term:
    """``[f(x) for x in (g(y) for y in D if c(y)) if d(x)]`` is ``[f(g(y)) for y in D if c(y) if d(g(y))]``: a one-generator comprehension over a
    one-generator comprehension (possibly held in a local name that is used nowhere else in ``t``) reads as one."""
    while t[0] == "comp" and len(t[3]) == 1:
        dom, conds = t[3][0]
        inner = dom
        while inner[0] == "var" and len(inner) == 4:
            inner = inner[3]
        if not (inner[0] == "comp" and inner[1] in ("gen", "list") and len(inner[3]) == 1):
            break
        outer_b = [x for x in subterms(("tuple", (t[2],) + tuple(conds)), lambda x: x[0] == "bound" and isinstance(x[1], int) and x[3] == show(dom))]
        if len(set(outer_b)) > 1:
            break
        m = {outer_b[0]: inner[2]} if outer_b else {}
        t = ("comp", t[1], subst(t[2], m), ((inner[3][0][0], tuple(inner[3][0][1]) + tuple(subst(c, m) for c in conds)),))
    return t


def concrete_list(path: Path, t: Term, depth: int = 0) -> Optional[List[Term]]:
    """The elements of a list whose length is fixed on this path: a display, a local list filled by append/extend of such lists, a
    concatenation of them, or a comprehension without filter over such a list."""
    if depth > 6:
        return None
    if t[0] == "list":
        if any(x[0] == "star" for x in t[1]):
            return None
        return list(t[1])
    if t[0] == "var":
        segs = contents(path, t)
        if segs is None:
            if t[3][0] in ("comp", "concat"):
                return concrete_list(path, t[3], depth + 1)
            return None
        out: List[Term] = []
        for sg in segs:
            xs = concrete_list(path, sg, depth + 1)
            if xs is None:
                return None
            out.extend(xs)
        # an element may refer to an earlier element of the same (append-only) list by a constant index: ``xs.append(xs[0] - d)``
        from .sym import number
        for i, x in enumerate(out):
            for sb in subterms(x, lambda y: y[0] == "sub" and _is_var(y[1], t) and number(y[2]) is not None):
                k = int(number(sb[2]))
                if k < 0:
                    k = i + k        # counted from the end of the list as it was when this element was appended
                if 0 <= k < i:
                    x = subst(x, {sb: out[k]})
            out[i] = x
        return out
    if t[0] == "concat":
        out = []
        for sg in t[1]:
            xs = concrete_list(path, sg, depth + 1)
            if xs is None:
                return None
            out.extend(xs)
        return out
    if t[0] == "comp" and t[1] in ("list", "gen") and len(t[3]) == 1 and not t[3][0][1]:
        dom = t[3][0][0]
        xs = concrete_list(path, dom, depth + 1)
        if xs is None:
            return None
        bs = subterms(t[2], lambda x: x[0] == "bound" and isinstance(x[1], int) and x[3] == show(dom))
        if len(bs) > 1:
            return None
        return [subst(t[2], {bs[0]: x}) if bs else t[2] for x in xs]
    return None


def as_flatmap(path: Path, t: Term):
    """``t`` as  ``[y for x in D for y in F(x)]``  ->  (D, x, F(x))  where x is the bound element term used inside F.
    Read from the nested comprehension itself, or from the accumulator loop ``for x in D: acc.append(a) | acc.extend(b)`` (one
    contribution per body path; a path contributing nothing contributes the empty list)."""
    from .sym import t_ite
    src = t
    while src[0] == "var" and src[3][0] == "comp":
        src = src[3]
    if src[0] == "comp" and src[1] == "list" and len(src[3]) == 2 and not src[3][0][1] and not src[3][1][1]:
        dom, F = src[3][0][0], src[3][1][0]
        b1 = [x for x in subterms(src[2], lambda x: x[0] == "bound" and isinstance(x[1], int))]
        if src[2][0] == "bound" and src[2][3] == show(F):
            b0 = subterms(F, lambda x: x[0] == "bound" and isinstance(x[1], int) and x[3] == show(dom))
            if len(b0) == 1:
                return dom, b0[0], F
        return None
    if t[0] != "var" or t[3] not in (("list", ()),):
        return None
    muts = _appends(path.events, t)
    if muts is None or len(muts) != 1 or muts[0][0] != "loop":
        return None
    lp = muts[0][1]
    if lp.term is None:
        return None
    elem = ("bound", "for", lp.node.lineno, show(lp.term))
    F: Optional[Term] = None
    for bp in reversed(lp.extra["paths"]):
        a = _appends(bp.events, t)
        if a is None or len(a) > 1 or bp.exit not in ("fall", "continue") or any(k == "loop" for k, _ in a):
            return None
        contrib = ("list", ()) if not a else (("list", (a[0][1],)) if a[0][0] == "item" else a[0][1])
        F = contrib if F is None else t_ite(bp.cond, contrib, F)
    if F is None:
        return None
    return lp.term, elem, F


def resolve_lists(path: Path, t, depth: int = 0):
    """``t`` with every local accumulator list that is exactly one comprehension on this path replaced by that comprehension."""
    if not isinstance(t, tuple) or not t or depth > 6:
        return t
    if t[0] == "var" and len(t) == 4 and t[3][0] == "list":
        c = as_single_comp(path, t)
        if c is not t and c[0] == "comp":
            return resolve_lists(path, c, depth + 1)
        return t
    return tuple(resolve_lists(path, x, depth) if isinstance(x, tuple) else x for x in t)
