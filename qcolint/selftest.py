"""Self-test of the rules (thorough tier): every rule must fire on a variant with one instance broken and stay
silent on behaviour-preserving rewrites of the same code.

Variants are single text edits of ``src/qce_circuit`` applied to a scratch copy under ``tempfile.mkdtemp()``
(outside /repo and /verif), checked with ``compile()`` only, analysed by the same rules, and deleted.  Nothing
is executed.  A corpus failure means the *machinery* is broken -> ANALYSIS-ERROR (exit 2), never a VIOLATION.
"""
from __future__ import annotations

import glob
import importlib
import json
import os
import shutil
import subprocess
import tempfile
from concurrent.futures import ProcessPoolExecutor
from typing import Any, Dict, List, Optional

from .model import PKG, default_src_root
from .report import EVIDENCE_DIR


def load_corpus(prop: str) -> Dict[str, List[Dict[str, Any]]]:
    try:
        mod = importlib.import_module(f"qcolint.mutants.{prop.lower()}")
    except ModuleNotFoundError:
        return {"fire": [], "silent": []}
    return {"fire": list(getattr(mod, "MUST_FIRE", [])), "silent": list(getattr(mod, "SILENT", []))}


VERIF_DIR = os.path.dirname(os.path.dirname(os.path.abspath(__file__)))


def load_stored(prop: str) -> Dict[str, List[Dict[str, Any]]]:
    """Sub-agent material kept under /verif: seeded defects of this property (must fire) and behaviour-preserving refactorings of any
    anchor (must stay silent for this property; the few that the rules cannot read are recorded per property as 'undecided')."""
    fire, silent = [], []
    for d in sorted(glob.glob(os.path.join(VERIF_DIR, "seeded", f"{prop}-m*"))):
        patch = os.path.join(d, "patch.diff")
        if not os.path.exists(patch):
            continue
        meta = {}
        try:
            meta = json.load(open(os.path.join(d, "meta.json")))
        except Exception:
            pass
        fire.append(dict(id="seed:" + os.path.basename(d), patch=patch, rule=None, accept_error=prop in (meta.get("analysis_errors") or {}) and prop not in (meta.get("detected_by") or {}),
                         accept_miss=prop in (meta.get("out_of_reach") or {})))
    for d in sorted(glob.glob(os.path.join(VERIF_DIR, "refactors", "C*-r*"))):
        patch = os.path.join(d, "patch.diff")
        if not os.path.exists(patch):
            continue
        meta = {}
        try:
            meta = json.load(open(os.path.join(d, "meta.json")))
        except Exception:
            pass
        # the recorded verdict of this check on this rewrite (tools/refactor_matrix.py --update) is the reference: the replay guards against
        # regressions; a recorded false alarm / give-up is a documented limitation of the rules (DESIGN.md 7.6), reported, not hidden
        silent.append(dict(id="refactor:" + os.path.basename(d), patch=patch, accept_error=prop in (meta.get("analysis_errors") or {}),
                           accept_alarm=prop in (meta.get("false_alarms") or {})))
    return {"fire": fire, "silent": silent}


def apply_variant(src_root: str, variant: Dict[str, Any], dst_root: str) -> Optional[str]:
    """Copy the package and apply the edit(s).  Returns an error string or None."""
    shutil.copytree(os.path.join(src_root, PKG), os.path.join(dst_root, PKG),
                    ignore=shutil.ignore_patterns("__pycache__", "*.pyc"))
    if variant.get("patch"):
        # a stored unified diff against the repository root (paths a/src/qce_circuit/...)
        r = subprocess.run(["git", "apply", "-p2", variant["patch"]], cwd=dst_root, capture_output=True, text=True)
        if r.returncode:
            return "stored patch does not apply to the current tree: " + r.stderr.strip()[:160]
        return None
    edits = variant.get("edits") or [dict(file=variant["file"], old=variant["old"], new=variant["new"], nth=variant.get("nth"), all=variant.get("all"))]
    for ed in edits:
        path = os.path.join(dst_root, PKG, ed["file"])
        if not os.path.exists(path):
            return f"file not found: {ed['file']}"
        with open(path) as fh:
            text = fh.read()
        n = text.count(ed["old"])
        if n == 0:
            return f"edit anchor not found in {ed['file']}: {ed['old'][:60]!r}"
        if n > 1 and not ed.get("all") and ed.get("nth") is None:
            return f"edit anchor ambiguous ({n}x) in {ed['file']}: {ed['old'][:60]!r}"
        if ed.get("nth") is not None:
            idx = -1
            for _ in range(ed["nth"] + 1):
                idx = text.index(ed["old"], idx + 1)
            text = text[:idx] + ed["new"] + text[idx + len(ed["old"]):]
        else:
            text = text.replace(ed["old"], ed["new"])
        try:
            compile(text, path, "exec")
        except SyntaxError as e:
            return f"variant does not compile: {e}"
        with open(path, "w") as fh:
            fh.write(text)
    return None


def _run_one(job) -> Dict[str, Any]:
    prop, kind, variant, src_root = job
    from .__main__ import run_check
    tmp = tempfile.mkdtemp(prefix="qcolint_st_")
    try:
        err = apply_variant(src_root, variant, tmp)
        if err:
            # the corpus is written against the pinned tree; on a tree where an anchor text moved the entry is skipped (the check of the
            # tree itself has already run) -- it is counted, never turned into a verdict
            strict = os.environ.get("QCOLINT_STRICT_CORPUS") == "1"     # development aid: on the pinned tree every entry must apply
            return dict(id=variant["id"], prop=prop, kind=kind, ok=not strict, skipped=True, rules=[], why=f"not applicable to this tree: {err}")
        code, rep, errtxt = run_check(prop, "quick", tmp, write=False, quiet=True)
        rules = sorted({v["rule"] for v in (getattr(rep, "new_violations", []) or [])}) if rep else []
        if kind == "fire":
            want = variant.get("rule")
            if code == 1 and (want is None or any(r.startswith(want) for r in rules)):
                return dict(id=variant["id"], prop=prop, kind=kind, ok=True, rules=rules)
            if code == 2 and variant.get("accept_error"):
                return dict(id=variant["id"], prop=prop, kind=kind, ok=True, rules=["ANALYSIS-ERROR"])
            if code == 0 and variant.get("accept_miss"):
                # a seeded change whose effect is a statement about run-time quantities: recorded as outside the reach of the technique (meta.out_of_reach, DESIGN 7.9)
                return dict(id=variant["id"], prop=prop, kind=kind, ok=True, rules=["RECORDED-MISS"])
            return dict(id=variant["id"], prop=prop, kind=kind, ok=False,
                        why=f"expected a violation of {want or 'any rule'}, got exit {code} rules={rules} {errtxt or ''}")
        if code == 0:
            return dict(id=variant["id"], prop=prop, kind=kind, ok=True, rules=[])
        if code == 2 and (variant.get("accept_error") or variant.get("accept_alarm")):
            return dict(id=variant["id"], prop=prop, kind=kind, ok=True, rules=["UNDECIDED"])
        if code == 1 and variant.get("accept_alarm"):
            return dict(id=variant["id"], prop=prop, kind=kind, ok=True, rules=["RECORDED-FALSE-ALARM"])
        first = ""
        if rep is not None and getattr(rep, "new_violations", None):
            v = rep.new_violations[0]
            first = f"{v['rule']} {v['construct']}: {v.get('what', '')}"
        return dict(id=variant["id"], prop=prop, kind=kind, ok=False,
                    why=f"behaviour-preserving variant raised an alarm: exit {code} {first} {errtxt or ''}")
    except Exception as e:  # pragma: no cover
        return dict(id=variant.get("id"), prop=prop, kind=kind, ok=False, why=f"self-test crashed: {type(e).__name__}: {e}")
    finally:
        shutil.rmtree(tmp, ignore_errors=True)


def run(props: List[str], jobs: int = 16, src_root: Optional[str] = None, verbose: bool = False, stored: bool = True) -> Dict[str, Any]:
    src_root = src_root or default_src_root()
    work = []
    for p in props:
        corpus = load_corpus(p)
        for v in corpus["fire"]:
            work.append((p, "fire", v, src_root))
        for v in corpus["silent"]:
            work.append((p, "silent", v, src_root))
        if stored:
            st = load_stored(p)
            for v in st["fire"]:
                work.append((p, "fire", v, src_root))
            for v in st["silent"]:
                work.append((p, "silent", v, src_root))
    results: List[Dict[str, Any]] = []
    if work:
        with ProcessPoolExecutor(max_workers=max(1, min(jobs, len(work)))) as ex:
            for r in ex.map(_run_one, work, chunksize=1):
                results.append(r)
                if verbose:
                    print(("ok   " if r["ok"] else "FAIL ") + f"{r['prop']} {r['kind']:6} {r['id']}: "
                          + (",".join(r.get("rules", [])) if r["ok"] else r.get("why", "")))
    fire = [r for r in results if r["kind"] == "fire"]
    silent = [r for r in results if r["kind"] == "silent"]
    return dict(
        must_fire=len(fire), must_fire_ok=sum(1 for r in fire if r["ok"] and not r.get("skipped") and r.get("rules") != ["RECORDED-MISS"]),
        recorded_misses=[f"{r['prop']} {r['id']}" for r in results if r.get("rules") == ["RECORDED-MISS"]],
        silent=len(silent), silent_ok=sum(1 for r in silent if r["ok"] and not r.get("skipped") and r.get("rules") in ([], None)),
        skipped=sum(1 for r in results if r.get("skipped")),
        undecided=[f"{r['prop']} {r['id']}" for r in results if r.get("rules") in (["UNDECIDED"], ["ANALYSIS-ERROR"])],
        recorded_false_alarms=[f"{r['prop']} {r['id']}" for r in results if r.get("rules") == ["RECORDED-FALSE-ALARM"]],
        failed=[f"{r['prop']} {r['kind']} {r['id']}: {r.get('why')}" for r in results if not r["ok"]],
        details=results,
    )


def annotate_evidence(prop: str, st: Dict[str, Any]):
    path = os.path.join(EVIDENCE_DIR, f"{prop}.json")
    with open(path) as fh:
        ev = json.load(fh)
    ev["coverage"]["selftest"] = dict(
        must_fire=st["must_fire"], must_fire_reported=st["must_fire_ok"],
        behaviour_preserving=st["silent"], behaviour_preserving_silent=st["silent_ok"],
        not_applicable_to_this_tree=st.get("skipped", 0), undecided=st.get("undecided", []),
        recorded_false_alarms_on_behaviour_preserving_rewrites=st.get("recorded_false_alarms", []),
        seeded_changes_outside_the_reach_of_the_technique=st.get("recorded_misses", []),
        variants=[dict(id=r["id"], kind=r["kind"], rules=r.get("rules", []), **({"skipped": True} if r.get("skipped") else {})) for r in st["details"]],
        note="variants are text edits / stored diffs applied to a scratch copy, analysed statically, never executed; 'seed:' = sub-agent defect of this property, "
             "'refactor:' = sub-agent behaviour-preserving rewrite (must stay silent)",
    )
    with open(path, "w") as fh:
        json.dump(ev, fh, indent=1, default=str)
