"""Slips of the Python data model, decided from syntax and scopes alone.

These are not style lints: each pattern below changes what a program computes, silently, and each is recognised only in the shape in
which it is certain (the report names the construct; shapes that merely might be wrong are not reported).

PY1  late-binding closure that escapes its loop: a ``lambda`` / nested ``def`` created in a ``for`` body (or a comprehension) reads a name
     the loop rebinds, is not given that value through a default argument, and is stored (container element, dict value, attribute,
     ``append`` argument, constructor argument, returned) instead of being called within the same iteration.  After the loop every such
     closure sees the last value.
PY2  one-shot iterator consumed twice: a name bound once to a generator expression / ``map`` / ``filter`` / ``zip`` / ``iter`` / ``reversed``
     / ``enumerate`` object is consumed in two places that can both execute (or in a loop body): the second consumer sees nothing.
PY3  container stored and then changed in place: ``slots.append(buf)`` (or ``slots[k] = buf`` / a display element) followed, before ``buf`` is
     rebound, by ``buf.clear()`` / ``buf.append(..)`` / ``buf += ..`` / ``buf[..] = ..`` inside a loop that stores it again: every slot is the same
     object.
PY5  None conflated with a falsy value: a truth test (``if x`` / ``if not x`` / ``x or d`` / ``x and ..``) of a name, parameter or field annotated
     ``Optional[T]`` where T has falsy instances that are legitimate values: int / float / str / bytes, an ``IntEnum`` (or int-valued Enum mixin) with a
     zero member, or a class that defines ``__len__`` / ``__bool__``.  (This code base tests ``is None`` throughout; plain containers are left alone,
     "None or empty" is a common deliberate reading there.)
PY6  float stored into an integer array: ``np.fromiter / np.array / np.asarray(<elements>, dtype=int)`` whose element expression is float-typed (a property /
     field / function annotated ``float``, e.g. ``end_time``), or an array created with an integer fill (``np.full(n, 0)``, ``np.zeros(n, dtype=int)``) that is later
     assigned such an expression: numpy truncates towards zero without a word.
PY7  derived value held in an init field: ``__post_init__`` fills a defaulted init field of a dataclass from other init fields (stale under
     ``dataclasses.replace`` and after the source changes).
PY8  unchained constructor: ``__post_init__`` / ``__init__`` of a subclass that does not call the base-class one which stores fields.
PY9  ``itertools.groupby`` over an unsorted iterable whose groups are stored under their key.
PY10 memoised accessor (cached_property / lru_cache) computed from a mutable container field of the same object.
PY11 un-annotated class attribute of a subclass that shadows an inherited dataclass init field (the inherited __init__ hides it on every instance).
PY4  replicated or default mutable: a mutable display as parameter default that the function changes in place; ``[<mutable display>] * n``;
     ``dict.fromkeys(keys, <mutable display>)``.
"""
from __future__ import annotations

import ast
from dataclasses import dataclass
from typing import Dict, Iterator, List, Optional, Set, Tuple

from .model import FunctionInfo, Model

MUTATORS = {"append", "extend", "insert", "remove", "pop", "clear", "update", "add", "discard", "setdefault", "popitem", "sort", "reverse"}
ONE_SHOT_MAKERS = {"map", "filter", "zip", "reversed", "enumerate"}     # an explicit iter(...) is a deliberate use of the protocol (next / resume) and is left alone
# calls that consume an iterable completely, right now
CONSUMERS = {"list", "tuple", "set", "frozenset", "dict", "sorted", "sum", "min", "max", "any", "all", "next", "len", "join", "unique_in_order", "Counter",
             "deque", "extend", "update", "array", "asarray", "concatenate", "chain", "from_iterable", "zip", "map", "filter", "enumerate", "reversed"}
# callables that run their function argument before they return (a closure handed to them does not outlive the iteration)
IMMEDIATE = {"sorted", "max", "min", "sum", "any", "all", "list", "tuple", "set", "next", "reduce", "sort"}


@dataclass
class Slip:
    kind: str
    fn: FunctionInfo
    node: ast.AST
    what: str
    detail: str

    @property
    def loc(self) -> str:
        return f"{self.fn.module.relpath}:{getattr(self.node, 'lineno', self.fn.node.lineno)}"


def _parents(root: ast.AST) -> Dict[ast.AST, ast.AST]:
    out = {}
    for p in ast.walk(root):
        for c in ast.iter_child_nodes(p):
            out[c] = p
    return out


def _stores(node: ast.AST) -> Set[str]:
    return {n.id for n in ast.walk(node) if isinstance(n, ast.Name) and isinstance(n.ctx, ast.Store)}


def _free_loads(fn_node: ast.AST) -> Set[str]:
    """names a lambda / nested def reads that it does not bind itself (parameters, own assignments, comprehension targets)"""
    if isinstance(fn_node, ast.Lambda):
        params = {a.arg for a in fn_node.args.args + fn_node.args.kwonlyargs + fn_node.args.posonlyargs}
        if fn_node.args.vararg:
            params.add(fn_node.args.vararg.arg)
        if fn_node.args.kwarg:
            params.add(fn_node.args.kwarg.arg)
        body_nodes = [fn_node.body]
    else:
        params = {a.arg for a in fn_node.args.args + fn_node.args.kwonlyargs + fn_node.args.posonlyargs}
        if fn_node.args.vararg:
            params.add(fn_node.args.vararg.arg)
        if fn_node.args.kwarg:
            params.add(fn_node.args.kwarg.arg)
        body_nodes = fn_node.body
    bound = set(params)
    loads: Set[str] = set()
    for b in body_nodes:
        bound |= _stores(b)
        for n in ast.walk(b):
            if isinstance(n, ast.Name) and isinstance(n.ctx, ast.Load):
                loads.add(n.id)
    return loads - bound


# ---------------------------------------------------------------------------------------------------------------------
def late_binding_closures(f: FunctionInfo) -> Iterator[Slip]:
    par = _parents(f.node)

    def escapes(cl: ast.AST, loop: ast.AST) -> Optional[str]:
        """how the closure leaves the iteration it was created in (None: it is consumed on the spot or we cannot tell)"""
        cur = cl
        while cur in par and par[cur] is not loop:
            p = par[cur]
            if isinstance(p, (ast.Dict, ast.List, ast.Tuple, ast.Set)) and not isinstance(cur, ast.expr_context):
                cur = p
                continue
            if isinstance(p, ast.keyword) or isinstance(p, ast.Starred):
                cur = p
                continue
            if isinstance(p, ast.Call):
                if cur is p.func:
                    return None                     # called on the spot
                name = p.func.attr if isinstance(p.func, ast.Attribute) else p.func.id if isinstance(p.func, ast.Name) else ""
                if name in ("append", "extend", "insert", "setdefault", "update", "add", "__setitem__"):
                    return f"handed to .{name}(...)"
                if name in IMMEDIATE or name in ("map", "filter"):
                    # map / filter are lazy: they escape only if the map object does -- follow it
                    if name in ("map", "filter"):
                        cur = p
                        continue
                    return None
                if name and name[0].isupper():
                    cur = p                          # wrapped in a new object: it escapes if that object does
                    continue
                if name in ("partial",):
                    cur = p
                    continue
                return None                         # some other call: it may well call it right away -- not certain
            if isinstance(p, (ast.Assign, ast.AnnAssign)):
                tgs = p.targets if isinstance(p, ast.Assign) else [p.target]
                for t in tgs:
                    if isinstance(t, (ast.Subscript, ast.Attribute)):
                        return f"stored in {ast.unparse(t)}"
                # bound to a plain local: does the local escape? (one hop: appended / stored / returned later in the loop body)
                names = [t.id for t in tgs if isinstance(t, ast.Name)]
                for n in ast.walk(loop):
                    if isinstance(n, ast.Call) and isinstance(n.func, ast.Attribute) and n.func.attr in ("append", "extend", "add", "setdefault", "update") \
                            and any(isinstance(a, ast.Name) and a.id in names for a in n.args):
                        return f"bound to {names[0]} and handed to .{n.func.attr}(...)"
                    if isinstance(n, ast.Assign) and isinstance(n.value, ast.Name) and n.value.id in names and any(isinstance(t, (ast.Subscript, ast.Attribute)) for t in n.targets):
                        return f"bound to {names[0]} and stored in {ast.unparse(n.targets[0])}"
                return None
            if isinstance(p, (ast.Return, ast.Yield)):
                return "returned / yielded from inside the loop"
            if isinstance(p, (ast.ListComp, ast.SetComp, ast.GeneratorExp)) and cur is p.elt:
                return "element of the comprehension"
            if isinstance(p, ast.DictComp) and cur in (p.value, p.key):
                return "value of the dict comprehension"
            if isinstance(p, (ast.IfExp, ast.BoolOp)):
                cur = p
                continue
            return None
        return None

    loops: List[Tuple[ast.AST, Set[str]]] = []
    for n in ast.walk(f.node):
        if isinstance(n, (ast.For, ast.AsyncFor)):
            rebound = _stores(n.target)
            for b in n.body:
                rebound |= _stores(b)
            loops.append((n, rebound))
        elif isinstance(n, (ast.ListComp, ast.SetComp, ast.GeneratorExp, ast.DictComp)):
            rebound = set()
            for g in n.generators:
                rebound |= _stores(g.target)
            loops.append((n, rebound))
    for loop, rebound in loops:
        body = loop.body if isinstance(loop, (ast.For, ast.AsyncFor)) else [loop]
        for b in body:
            for cl in ast.walk(b):
                if not isinstance(cl, (ast.Lambda, ast.FunctionDef)):
                    continue
                # innermost enclosing loop must be this one
                cur, inner = cl, None
                while cur in par:
                    cur = par[cur]
                    if isinstance(cur, (ast.For, ast.AsyncFor, ast.ListComp, ast.SetComp, ast.GeneratorExp, ast.DictComp)):
                        inner = cur
                        break
                if inner is not loop:
                    continue
                captured = sorted(_free_loads(cl) & rebound)
                if not captured:
                    continue
                if isinstance(cl, ast.FunctionDef):
                    how = None
                    for n in ast.walk(loop):
                        if isinstance(n, ast.Call) and isinstance(n.func, ast.Attribute) and n.func.attr in ("append", "add", "setdefault", "update") \
                                and any(isinstance(a, ast.Name) and a.id == cl.name for a in n.args):
                            how = f"handed to .{n.func.attr}(...)"
                        if isinstance(n, ast.Assign) and isinstance(n.value, ast.Name) and n.value.id == cl.name and any(isinstance(t, (ast.Subscript, ast.Attribute)) for t in n.targets):
                            how = f"stored in {ast.unparse(n.targets[0])}"
                else:
                    how = escapes(cl, loop)
                if how is None:
                    continue
                yield Slip("PY1", f, cl, f"the closure `{ast.unparse(cl)[:70]}` created per iteration reads {captured} late (when it is called, after the loop) and is {how}: "
                                          f"every stored closure sees the LAST value of {captured[0]}", f"closure:{captured[0]}")


# ---------------------------------------------------------------------------------------------------------------------
def one_shot_iterators(f: FunctionInfo) -> Iterator[Slip]:
    par = _parents(f.node)
    binds: Dict[str, List[ast.AST]] = {}
    for n in ast.walk(f.node):
        if isinstance(n, (ast.Assign, ast.AnnAssign)):
            tgs = n.targets if isinstance(n, ast.Assign) else [n.target]
            for t in tgs:
                for x in ast.walk(t):
                    if isinstance(x, ast.Name) and isinstance(x.ctx, ast.Store):
                        binds.setdefault(x.id, []).append(n)
        elif isinstance(n, (ast.For, ast.comprehension, ast.withitem, ast.NamedExpr, ast.AugAssign)):
            t = getattr(n, "target", None) or getattr(n, "optional_vars", None)
            if t is not None:
                for x in ast.walk(t):
                    if isinstance(x, ast.Name) and isinstance(x.ctx, ast.Store):
                        binds.setdefault(x.id, []).append(n)
    params = set(f.param_names)
    for name, bs in binds.items():
        if len(bs) != 1 or name in params or not isinstance(bs[0], (ast.Assign, ast.AnnAssign)):
            continue
        b = bs[0]
        val = b.value
        tg = b.targets[0] if isinstance(b, ast.Assign) and len(b.targets) == 1 else getattr(b, "target", None)
        if not isinstance(tg, ast.Name) or val is None:
            continue
        one_shot = isinstance(val, ast.GeneratorExp) or (isinstance(val, ast.Call) and isinstance(val.func, ast.Name) and val.func.id in ONE_SHOT_MAKERS)
        if not one_shot:
            continue
        # consuming uses: loads of the name as a for-iterable, comprehension iterable, argument of a consuming call, operand of ``in``, star argument
        uses: List[ast.AST] = []
        for n in ast.walk(f.node):
            if isinstance(n, ast.Name) and n.id == name and isinstance(n.ctx, ast.Load) and n.lineno >= b.lineno:
                p = par.get(n)
                consuming = False
                if isinstance(p, (ast.For, ast.AsyncFor)) and p.iter is n:
                    consuming = True
                elif isinstance(p, ast.comprehension) and p.iter is n:
                    consuming = True
                elif isinstance(p, ast.Call) and n in p.args:
                    cname = p.func.attr if isinstance(p.func, ast.Attribute) else p.func.id if isinstance(p.func, ast.Name) else ""
                    consuming = cname in CONSUMERS
                elif isinstance(p, ast.Starred):
                    consuming = True
                elif isinstance(p, ast.Compare) and n in p.comparators and any(isinstance(o, (ast.In, ast.NotIn)) for o in p.ops):
                    consuming = True
                if consuming:
                    uses.append(n)
        if not uses:
            continue

        def in_loop_after_bind(u: ast.AST) -> bool:
            cur = u
            while cur in par:
                child, cur = cur, par[cur]
                if isinstance(cur, (ast.For, ast.AsyncFor)) and child is cur.iter:
                    continue        # (part of) the iterable expression of this loop: evaluated once, before the first round
                if isinstance(cur, (ast.For, ast.While, ast.AsyncFor)):
                    # the binding itself must be outside that loop
                    if not any(x is b for x in ast.walk(cur)):
                        return True
                if isinstance(cur, ast.comprehension):
                    comp = par.get(cur)
                    if comp is not None and comp.generators and comp.generators[0] is cur and child is cur.iter:
                        cur = comp      # the outermost iterable of a comprehension is evaluated once
                        continue
                    return True         # iterable of an inner generator, or a condition: evaluated once per outer element
                if isinstance(cur, (ast.ListComp, ast.SetComp, ast.GeneratorExp, ast.DictComp)):
                    return True         # inside the element expression
            return False

        def exclusive(a: ast.AST, c: ast.AST) -> bool:
            """the two uses sit in different arms of one if / try, so at most one executes"""
            pa, pc = [], []
            cur = a
            while cur in par:
                pa.append((par[cur], cur))
                cur = par[cur]
            cur = c
            while cur in par:
                pc.append((par[cur], cur))
                cur = par[cur]
            for (p1, ch1) in pa:
                for (p2, ch2) in pc:
                    if p1 is p2 and isinstance(p1, ast.If):
                        in_body1 = any(ch1 is x or any(y is ch1 for y in ast.walk(x)) for x in p1.body)
                        in_body2 = any(ch2 is x or any(y is ch2 for y in ast.walk(x)) for x in p1.body)
                        in_else1 = any(ch1 is x or any(y is ch1 for y in ast.walk(x)) for x in p1.orelse)
                        in_else2 = any(ch2 is x or any(y is ch2 for y in ast.walk(x)) for x in p1.orelse)
                        if (in_body1 and in_else2) or (in_else1 and in_body2):
                            return True
            return False

        def returns_between(a: ast.AST, c: ast.AST) -> bool:
            """the first use sits in a block that always leaves the function (guard clause), so the second is not reached after it"""
            cur = a
            while cur in par:
                p = par[cur]
                if isinstance(p, ast.If) and cur in p.body or (isinstance(p, ast.If) and any(cur is x for x in p.body)):
                    last = p.body[-1]
                    if isinstance(last, (ast.Return, ast.Raise, ast.Continue, ast.Break)) and not any(x is c for x in ast.walk(p)):
                        return True
                cur = p
            return False
        bad = None
        for u in uses:
            if in_loop_after_bind(u):
                bad = (u, "it is consumed inside a loop / comprehension that runs more than once: from the second round on it is empty")
                break
        if bad is None:
            for i in range(len(uses)):
                for j in range(i + 1, len(uses)):
                    a, c = uses[i], uses[j]
                    if a.lineno == c.lineno and a.col_offset == c.col_offset:
                        continue
                    if exclusive(a, c) or returns_between(a, c):
                        continue
                    bad = (c, f"it is consumed at line {a.lineno} and again at line {c.lineno}: the second consumer sees what the first left (nothing, or the tail)")
                    break
                if bad:
                    break
        if bad:
            yield Slip("PY2", f, bad[0], f"`{name}` is a one-shot iterator ({ast.unparse(val)[:60]}); {bad[1]}", f"iterator:{name}")


# ---------------------------------------------------------------------------------------------------------------------
def stored_then_mutated(f: FunctionInfo) -> Iterator[Slip]:
    for loop in ast.walk(f.node):
        if not isinstance(loop, (ast.For, ast.While, ast.AsyncFor)):
            continue
        # names created OUTSIDE the loop (a fresh container per iteration is fine)
        inside_bound = set()
        for b in loop.body:
            for n in ast.walk(b):
                if isinstance(n, (ast.Assign, ast.AnnAssign)):
                    for t in (n.targets if isinstance(n, ast.Assign) else [n.target]):
                        if isinstance(t, ast.Name):
                            inside_bound.add(t.id)
        stored: Dict[str, ast.AST] = {}
        for n in ast.walk(loop):
            if isinstance(n, ast.Call) and isinstance(n.func, ast.Attribute) and n.func.attr in ("append", "add", "insert") and n.args:
                a = n.args[-1]
                if isinstance(a, ast.Name) and a.id not in inside_bound:
                    stored.setdefault(a.id, n)
            if isinstance(n, ast.Assign) and isinstance(n.value, ast.Name) and n.value.id not in inside_bound and any(isinstance(t, ast.Subscript) for t in n.targets):
                stored.setdefault(n.value.id, n)
        for name, st in stored.items():
            # is `name` a container created in this function?
            created = None
            for n in ast.walk(f.node):
                if isinstance(n, (ast.Assign, ast.AnnAssign)):
                    tg = n.targets[0] if isinstance(n, ast.Assign) and len(n.targets) == 1 else getattr(n, "target", None)
                    if isinstance(tg, ast.Name) and tg.id == name and n.value is not None and \
                            (isinstance(n.value, (ast.List, ast.Dict, ast.Set)) or (isinstance(n.value, ast.Call) and isinstance(n.value.func, ast.Name) and n.value.func.id in ("list", "dict", "set"))):
                        created = n
            if created is None:
                continue
            muts = [n for n in ast.walk(loop) if isinstance(n, ast.Call) and isinstance(n.func, ast.Attribute) and isinstance(n.func.value, ast.Name)
                    and n.func.value.id == name and n.func.attr in MUTATORS]
            muts += [n for n in ast.walk(loop) if isinstance(n, ast.AugAssign) and isinstance(n.target, ast.Name) and n.target.id == name]
            if muts:
                m = muts[0]
                yield Slip("PY3", f, st, f"`{name}` (one container created at line {created.lineno}, outside the loop) is stored by `{ast.unparse(st)[:60]}` and changed in place by "
                                          f"`{ast.unparse(m)[:50]}` in the same loop without being rebound to a new container: all stored entries are this one object and "
                                          "show its final content", f"aliased:{name}")


# ---------------------------------------------------------------------------------------------------------------------
def replicated_mutables(f: FunctionInfo) -> Iterator[Slip]:
    def mutable_display(e: ast.AST) -> bool:
        return isinstance(e, (ast.List, ast.Dict, ast.Set)) or (isinstance(e, ast.Call) and isinstance(e.func, ast.Name) and e.func.id in ("list", "dict", "set") and not e.args)
    args = f.node.args
    defaults = list(zip([a.arg for a in (args.posonlyargs + args.args)][-len(args.defaults):] if args.defaults else [], args.defaults))
    defaults += [(a.arg, d) for a, d in zip(args.kwonlyargs, args.kw_defaults) if d is not None]
    for name, d in defaults:
        if mutable_display(d):
            rebound = any(isinstance(n, (ast.Assign, ast.AnnAssign)) and any(isinstance(t, ast.Name) and t.id == name for t in (n.targets if isinstance(n, ast.Assign) else [n.target]))
                          for n in ast.walk(f.node))
            muts = [n for n in ast.walk(f.node) if isinstance(n, ast.Call) and isinstance(n.func, ast.Attribute) and isinstance(n.func.value, ast.Name)
                    and n.func.value.id == name and n.func.attr in MUTATORS]
            muts += [n for n in ast.walk(f.node) if isinstance(n, (ast.Assign, ast.AugAssign)) and any(
                isinstance(t, ast.Subscript) and isinstance(t.value, ast.Name) and t.value.id == name for t in (n.targets if isinstance(n, ast.Assign) else [n.target]))]
            stored = [n for n in ast.walk(f.node) if isinstance(n, ast.Assign) and isinstance(n.value, ast.Name) and n.value.id == name
                      and any(isinstance(t, ast.Attribute) for t in n.targets)]
            if (muts or stored) and not rebound:
                yield Slip("PY4", f, d, f"parameter `{name}` defaults to one mutable object shared by all calls and the function " +
                           ("changes it in place" if muts else "stores it on the object") + f" ({ast.unparse((muts or stored)[0])[:50]}): state leaks between calls", f"default:{name}")
    for n in ast.walk(f.node):
        if isinstance(n, ast.BinOp) and isinstance(n.op, ast.Mult):
            for side in (n.left, n.right):
                if isinstance(side, ast.List) and len(side.elts) == 1 and mutable_display(side.elts[0]):
                    yield Slip("PY4", f, n, f"`{ast.unparse(n)[:50]}` repeats ONE inner container: a change to one entry shows in all", "replicated")
                elif isinstance(side, ast.List) and len(side.elts) == 1 and isinstance(side.elts[0], ast.Call) and (
                        (isinstance(side.elts[0].func, ast.Attribute) and side.elts[0].func.attr in ("copy", "deepcopy"))
                        or (isinstance(side.elts[0].func, ast.Name) and side.elts[0].func.id in ("copy", "deepcopy"))):
                    other = n.right if side is n.left else n.left
                    if not (isinstance(other, ast.Constant) and other.value in (0, 1)):
                        yield Slip("PY4", f, n, f"`{ast.unparse(n)[:60]}` makes ONE copy and lists it several times: the entries that were meant to be separate copies are one object",
                                   "replicated-copy")
        if isinstance(n, ast.Call) and isinstance(n.func, ast.Attribute) and n.func.attr == "fromkeys" and len(n.args) == 2 and mutable_display(n.args[1]):
            yield Slip("PY4", f, n, f"`{ast.unparse(n)[:60]}` gives every key the same container", "fromkeys")


# ---------------------------------------------------------------------------------------------------------------------
_INT_DTYPES = {"int", "np.int_", "np.int64", "np.int32", "numpy.int64", "numpy.int_", "'int'", "'int64'", "np.intp", "np.uint64", "np.uint32"}


def _float_names(model: Model) -> Set[str]:
    """attribute / function names that are float-typed wherever they are defined in the package"""
    cache = model.__dict__.setdefault("_float_names", None)
    if cache is not None:
        return cache
    kinds: Dict[str, Set[str]] = {}

    def note(name, ann):
        if ann is None:
            kinds.setdefault(name, set()).add("?")
            return
        t = ast.unparse(ann).replace("typing.", "")
        kinds.setdefault(name, set()).add("float" if t in ("float", "Optional[float]") else "other")
    for c in model.all_classes():
        for nm, g in c.properties.items():
            if "abstractmethod" not in g.decorators or True:
                note(nm, g.node.returns)
        for nm, fi in c.own_fields.items():
            note(nm, fi.annotation)
    for f in model.all_functions():
        if f.kind in ("method", "function", "staticmethod", "classmethod"):
            note(f.name, f.node.returns)
    out = {n for n, ks in kinds.items() if ks == {"float"}}
    model.__dict__["_float_names"] = out
    return out


def float_into_int_array(model: Model, f: FunctionInfo) -> Iterator[Slip]:
    fl = _float_names(model)

    def floaty(e: ast.AST) -> Optional[str]:
        for n in ast.walk(e):
            if isinstance(n, ast.Attribute) and n.attr in fl:
                return n.attr
            if isinstance(n, ast.Call):
                nm = n.func.attr if isinstance(n.func, ast.Attribute) else n.func.id if isinstance(n.func, ast.Name) else ""
                if nm in fl:
                    return nm + "()"
            if isinstance(n, ast.Constant) and isinstance(n.value, float) and not float(n.value).is_integer():
                return repr(n.value)
        return None

    def np_call(n: ast.AST) -> Optional[str]:
        if isinstance(n, ast.Call) and isinstance(n.func, ast.Attribute) and isinstance(n.func.value, ast.Name) and n.func.value.id in ("np", "numpy"):
            return n.func.attr
        return None

    def int_dtype(call: ast.Call) -> bool:
        for k in call.keywords:
            if k.arg == "dtype" and ast.unparse(k.value) in _INT_DTYPES:
                return True
        return False
    int_arrays: Dict[str, ast.AST] = {}
    for n in ast.walk(f.node):
        nm = np_call(n)
        if nm in ("fromiter", "array", "asarray") and int_dtype(n) and n.args:
            el = n.args[0]
            inner = el.elt if isinstance(el, (ast.GeneratorExp, ast.ListComp)) else el
            why = floaty(inner)
            if why:
                yield Slip("PY6", f, n, f"`{ast.unparse(n)[:70]}` stores {why} (a float) with an integer dtype: values are truncated towards zero, so 1.25 and 1.75 become equal",
                           f"int-array:{why}")
        if isinstance(n, (ast.Assign, ast.AnnAssign)) and n.value is not None and np_call(n.value) in ("full", "zeros", "ones", "empty", "full_like", "zeros_like"):
            c = n.value
            integer = int_dtype(c) or (np_call(c) == "full" and len(c.args) >= 2 and isinstance(c.args[1], ast.Constant) and isinstance(c.args[1].value, int)
                                       and not isinstance(c.args[1].value, bool) and not any(k.arg == "dtype" for k in c.keywords))
            tg = n.targets[0] if isinstance(n, ast.Assign) and len(n.targets) == 1 else getattr(n, "target", None)
            if integer and isinstance(tg, ast.Name):
                int_arrays[tg.id] = n
    for n in ast.walk(f.node):
        if isinstance(n, ast.Assign):
            for t in n.targets:
                if isinstance(t, ast.Subscript) and isinstance(t.value, ast.Name) and t.value.id in int_arrays:
                    why = floaty(n.value)
                    if why:
                        made = int_arrays[t.value.id]
                        yield Slip("PY6", f, n, f"`{t.value.id}` is created as an integer array (`{ast.unparse(made.value)[:50]}`) and `{ast.unparse(n)[:60]}` stores {why} (a float) into it: "
                                                  "the value is truncated towards zero", f"int-array:{t.value.id}")


_SCALARS = {"int", "float", "str", "bytes", "complex", "QID", "QName"}


def _falsy_capable(model: Model, f: FunctionInfo, inner: ast.expr) -> Optional[str]:
    """why a value of the annotated type can be falsy without being None (None: it cannot, or we do not know)"""
    txt = ast.unparse(inner)
    base = txt.split("[")[0].split(".")[-1]
    if base in _SCALARS:
        return f"{base} has a falsy value (0 / 0.0 / '')"
    c = model.maybe_cls(base)
    if c is None:
        return None
    ext = c.external_bases()
    if "IntEnum" in ext or "IntFlag" in ext or ("int" in ext and "Enum" in ext):
        zero = [n for n, v in c.class_attrs.items() if isinstance(v, ast.Constant) and v.value == 0 and not isinstance(v.value, bool)]
        if zero:
            return f"{base}.{zero[0]} == 0 is falsy"
        return None
    for k in c.mro():
        if "__bool__" in k.methods or "__len__" in k.methods:
            return f"{k.name} defines {'__bool__' if '__bool__' in k.methods else '__len__'}: an instance can be falsy"
    return None


def none_conflated(model: Model, f: FunctionInfo) -> Iterator[Slip]:
    def ann_of(e: ast.expr) -> Optional[ast.expr]:
        if isinstance(e, ast.Name):
            for p in f.params:
                if p.arg == e.id and p.annotation is not None:
                    return p.annotation
            for n in ast.walk(f.node):
                if isinstance(n, ast.AnnAssign) and isinstance(n.target, ast.Name) and n.target.id == e.id:
                    return n.annotation
            return None
        if isinstance(e, ast.Attribute) and isinstance(e.value, ast.Name) and f.cls is not None and f.param_names and e.value.id == f.self_name:
            fi = f.cls.all_fields().get(e.attr)
            if fi is not None and fi.annotation is not None:
                return fi.annotation
            g = f.cls.resolve(e.attr)
            if g is not None and g.kind == "property" and g.node.returns is not None:
                return g.node.returns
        return None
    seen = set()
    for n in ast.walk(f.node):
        tests: List[ast.expr] = []
        if isinstance(n, (ast.If, ast.While, ast.IfExp)):
            tests.append(n.test)
        elif isinstance(n, ast.BoolOp):
            tests.extend(n.values[:-1])
        elif isinstance(n, ast.comprehension):
            tests.extend(n.ifs)
        work = list(tests)
        while work:
            t = work.pop()
            if isinstance(t, ast.UnaryOp) and isinstance(t.op, ast.Not):
                work.append(t.operand)
                continue
            if isinstance(t, ast.BoolOp):
                work.extend(t.values)
                continue
            if not isinstance(t, (ast.Name, ast.Attribute)) or id(t) in seen:
                continue
            seen.add(id(t))
            a = ann_of(t)
            if a is None:
                continue
            if isinstance(a, ast.Constant) and isinstance(a.value, str):
                try:
                    a = ast.parse(a.value, mode="eval").body
                except SyntaxError:
                    continue
            inner = None
            if isinstance(a, ast.Subscript) and ast.unparse(a.value).split(".")[-1] == "Optional":
                inner = a.slice
            elif isinstance(a, ast.BinOp) and isinstance(a.op, ast.BitOr):
                parts = [a.left, a.right]
                non = [x for x in parts if not (isinstance(x, ast.Constant) and x.value is None)]
                if len(non) == 1 and len(parts) == 2:
                    inner = non[0]
            if inner is None:
                continue
            why = _falsy_capable(model, f, inner)
            if why is None:
                continue
            yield Slip("PY5", f, t, f"`{ast.unparse(t)}` is declared {ast.unparse(a)} and tested for truth: {why}, so that value is treated like a missing one "
                                      "(the rest of the code base tests `is None`)", f"truth:{ast.unparse(t)}")


# ---------------------------------------------------------------------------------------------------------------------
def derived_init_field(model: Model, f: FunctionInfo) -> Iterator[Slip]:
    """PY7: ``__post_init__`` of a dataclass fills an INIT field (one the constructor accepts, with a default) from other init fields of the same object.  The
    derived value then travels as an argument: ``dataclasses.replace(obj, source=..)`` and every copy-by-reconstruction pass the OLD derived value on, and a change
    of the source field is not followed.  (A derived value belongs in a property or an ``init=False`` field.)"""
    c = f.cls
    if c is None or f.name != "__post_init__" or not c.is_dataclass:
        return
    flds = c.all_fields()
    init_fields = {n for n, fi in flds.items() if fi.init is not False}
    sn = f.self_name
    for n in ast.walk(f.node):
        tgt, val = None, None
        if isinstance(n, (ast.Assign, ast.AnnAssign)) and n.value is not None:
            for t in (n.targets if isinstance(n, ast.Assign) else [n.target]):
                if isinstance(t, ast.Attribute) and isinstance(t.value, ast.Name) and t.value.id == sn:
                    tgt, val = t.attr, n.value
        elif isinstance(n, ast.Call) and ast.unparse(n.func).endswith("__setattr__") and len(n.args) == 3 and isinstance(n.args[1], ast.Constant) \
                and isinstance(n.args[0], ast.Name) and n.args[0].id == sn:
            tgt, val = n.args[1].value, n.args[2]
        if tgt is None or tgt not in init_fields:
            continue
        fi = flds[tgt]
        if fi.default is None and fi.default_factory is None:
            continue                    # a required argument that is normalised in place is another matter (not this lint)
        sources = sorted({y.attr for y in ast.walk(val) if isinstance(y, ast.Attribute) and isinstance(y.value, ast.Name) and y.value.id == sn
                          and y.attr in init_fields and y.attr != tgt})
        if not sources:
            continue
        yield Slip("PY7", f, n, f"`{c.name}.{tgt}` is a constructor argument (init field with a default) that __post_init__ derives from {sources}: dataclasses.replace(obj, "
                                f"{sources[0]}=..) and any rebuild from the object's fields pass the old `{tgt}` on, and a later change of `{sources[0]}` is not followed -- "
                                f"the derived value goes stale", f"derived:{tgt}")


def unchained_post_init(model: Model, f: FunctionInfo) -> Iterator[Slip]:
    """PY8: a class defines ``__post_init__`` (or ``__init__``) without calling the one of a base class of the package that stores fields of the object: what the
    base constructor sets up or normalises is silently skipped for instances of the subclass."""
    c = f.cls
    if c is None or f.name not in ("__post_init__", "__init__"):
        return
    calls_super = any(isinstance(n, ast.Call) and isinstance(n.func, ast.Attribute) and n.func.attr == f.name and
                      (isinstance(n.func.value, ast.Call) and isinstance(n.func.value.func, ast.Name) and n.func.value.func.id == "super"
                       or isinstance(n.func.value, ast.Name) and model.maybe_cls(n.func.value.id) is not None) for n in ast.walk(f.node))
    if calls_super:
        return
    for k in c.mro()[1:]:
        if f.name in k.methods:
            b = k.methods[f.name][0]
            if "abstractmethod" in b.decorators:
                continue
            bsn = b.self_name
            stores = [n for n in ast.walk(b.node) if (isinstance(n, (ast.Assign, ast.AnnAssign, ast.AugAssign)) and any(
                isinstance(t, ast.Attribute) and isinstance(t.value, ast.Name) and t.value.id == bsn for t in (n.targets if isinstance(n, ast.Assign) else [n.target])))
                or (isinstance(n, ast.Call) and ast.unparse(n.func).endswith("__setattr__") and len(n.args) == 3 and isinstance(n.args[0], ast.Name) and n.args[0].id == bsn)]
            if stores:
                what = ast.unparse(stores[0])[:70]
                yield Slip("PY8", f, f.node, f"`{c.name}.{f.name}` does not call `{k.name}.{f.name}`, which sets fields of the object (`{what}`): for instances of {c.name} "
                                             f"that step is skipped, so a {k.name} and a {c.name} built from the same arguments differ in those fields", f"unchained:{k.name}")
            return


def groupby_unsorted(f: FunctionInfo) -> Iterator[Slip]:
    """PY9: ``itertools.groupby(xs, key)`` whose groups are stored under their key (dict / dict comprehension) while ``xs`` is not sorted by that key: groupby only
    groups CONSECUTIVE runs, so a key that re-appears later overwrites its earlier run."""
    par = _parents(f.node)
    for n in ast.walk(f.node):
        if not (isinstance(n, ast.Call) and (isinstance(n.func, ast.Name) and n.func.id == "groupby" or isinstance(n.func, ast.Attribute) and n.func.attr == "groupby"
                                             and isinstance(n.func.value, ast.Name) and n.func.value.id == "itertools")) or not n.args:
            continue
        src = n.args[0]
        key = n.args[1] if len(n.args) > 1 else next((k.value for k in n.keywords if k.arg == "key"), None)
        sorted_src = isinstance(src, ast.Call) and isinstance(src.func, ast.Name) and src.func.id == "sorted"
        if isinstance(src, ast.Name):
            # a local name bound to sorted(..) / sorted in place before
            for st in ast.walk(f.node):
                if isinstance(st, (ast.Assign, ast.AnnAssign)) and st.value is not None and any(isinstance(t, ast.Name) and t.id == src.id for t in (st.targets if isinstance(st, ast.Assign) else [st.target])) \
                        and isinstance(st.value, ast.Call) and isinstance(st.value.func, ast.Name) and st.value.func.id == "sorted":
                    sorted_src = True
                if isinstance(st, ast.Call) and isinstance(st.func, ast.Attribute) and st.func.attr == "sort" and isinstance(st.func.value, ast.Name) and st.func.value.id == src.id:
                    sorted_src = True
        if sorted_src:
            continue
        # how are the groups used: keyed storage?
        p_ = par.get(n)
        keyed = False
        if isinstance(p_, ast.comprehension):
            comp = par.get(p_)
            keyed = isinstance(comp, ast.DictComp)
            if isinstance(comp, (ast.ListComp, ast.GeneratorExp)) and isinstance(par.get(comp), ast.Call) and isinstance(par[comp].func, ast.Name) and par[comp].func.id == "dict":
                keyed = True
        elif isinstance(p_, ast.For):
            keyed = any(isinstance(x, ast.Subscript) and isinstance(x.ctx, ast.Store) for b in p_.body for x in ast.walk(b))
        if keyed:
            yield Slip("PY9", f, n, f"`{ast.unparse(n)[:70]}` groups consecutive runs only and `{ast.unparse(src)[:30]}` is not sorted by the key: when a key re-appears after another "
                                    f"one, its later run REPLACES the earlier one in the keyed result -- elements are silently lost", "groupby-unsorted")


_MUTABLE_ANN = ("List[", "list[", "Dict[", "dict[", "Set[", "set[", "List", "Dict", "Set", "list", "dict", "set", "deque", "DefaultDict[", "defaultdict")


def cached_over_mutable(model: Model, f: FunctionInfo) -> Iterator[Slip]:
    """PY10: a ``functools.cached_property`` / ``lru_cache`` / ``cache`` accessor of an object computed from a field of that object that holds a mutable container
    (annotated List / Dict / Set): the container can grow in place (also on a frozen dataclass), and the accessor keeps answering with the first snapshot."""
    c = f.cls
    if c is None or f.self_name is None:
        return
    memo = [d for d in f.decorators if d.split(".")[-1] in ("cached_property", "lru_cache", "cache")]
    if not memo or len([p_ for p_ in f.params if p_.arg != f.self_name]) > 0:
        return
    flds = c.all_fields()
    sn = f.self_name
    reads = [x.attr for x in ast.walk(f.node) if isinstance(x, ast.Attribute) and isinstance(x.value, ast.Name) and x.value.id == sn and isinstance(x.ctx, ast.Load)]
    for r in reads:
        fi = flds.get(r)
        if fi is not None and fi.annotation is not None:
            ann = ast.unparse(fi.annotation).replace("typing.", "")
            if ann.startswith(_MUTABLE_ANN):
                yield Slip("PY10", f, f.node, f"`{c.name}.{f.name}` is memoised ({memo[0]}) but computed from `self.{r}: {ann}`, a container that can change in place: after "
                                              f"`obj.{r}.append(..)` / `.extend(..)` the accessor still answers with the snapshot of its first read", f"cached:{r}")
                return


def shadowed_field_default(model: Model, c) -> Iterator[Slip]:
    """PY11: a class body assigns, WITHOUT annotation, a name that is an init field of a dataclass it inherits from.  That is not a field override: the inherited
    ``__init__`` still stores the base default on every instance, and the instance attribute hides the class attribute -- the value written in the subclass never
    reaches an object built without that argument."""
    bases = [k for k in c.mro()[1:] if k.is_dataclass]
    if not bases:
        return
    own_annotated = set(c.own_fields)
    for name, val in c.class_attrs.items():
        if name in own_annotated or name.startswith("__"):
            continue
        for k in bases:
            fi = k.own_fields.get(name)
            if fi is not None and fi.init is not False and not getattr(fi, "is_classvar", False):
                if "__init__" in c.methods:
                    break        # an own constructor may well use the class attribute
                carrier = FunctionInfo(name="<class body>", node=c.node, module=c.module, cls=c, kind="method", decorators=[])
                yield Slip("PY11", carrier, val, f"`{c.name}.{name} = {ast.unparse(val)[:50]}` is a plain class attribute, but `{name}` is an init field of the dataclass {k.name}: the "
                                             f"inherited __init__ stores {k.name}'s default on every instance, which hides this value -- objects built without the argument never see it",
                           f"shadowed:{name}")
                break


def scan(model: Model, keep_module) -> Tuple[List[Slip], int]:
    out: List[Slip] = []
    n = 0
    seen_nodes = set()
    for f in model.all_functions():
        if not keep_module(f.module):
            continue
        if id(f.node) in seen_nodes:
            continue
        seen_nodes.add(id(f.node))
        n += 1
        for gen in (late_binding_closures, one_shot_iterators, stored_then_mutated, replicated_mutables):
            out.extend(gen(f))
        out.extend(none_conflated(model, f))
        out.extend(float_into_int_array(model, f))
        out.extend(derived_init_field(model, f))
        out.extend(unchained_post_init(model, f))
        out.extend(groupby_unsorted(f))
        out.extend(cached_over_mutable(model, f))
    for c in model.all_classes():
        if keep_module(c.module):
            out.extend(shadowed_field_default(model, c))
    return out, n


# ---------------------------------------------------------------------------------------------------------------------
_SELF_CHECKED = [False]


def self_check():
    """Every lint fires on its positive example and is silent on the negative twin (qcolint/pylints_examples.py); raises AnalysisError otherwise."""
    if _SELF_CHECKED[0]:
        return
    import os
    import tempfile
    from .model import AnalysisError
    from .pylints_examples import EXAMPLES
    problems = []
    with tempfile.TemporaryDirectory(prefix="qcolint_py_") as tmp:
        pkg = os.path.join(tmp, "qce_circuit")
        os.makedirs(pkg)
        open(os.path.join(pkg, "__init__.py"), "w").close()
        for kind, ex in EXAMPLES.items():
            for pol in ("positive", "negative"):
                with open(os.path.join(pkg, f"{kind.lower()}_{pol}.py"), "w") as fh:
                    fh.write(ex[pol])
        model = Model(tmp)
        slips, _n = scan(model, lambda mod: True)
        for kind in EXAMPLES:
            pos = [s_ for s_ in slips if s_.kind == kind and s_.fn.module.relpath.endswith(f"{kind.lower()}_positive.py")]
            neg = [s_ for s_ in slips if s_.fn.module.relpath.endswith(f"{kind.lower()}_negative.py")]
            if not pos:
                problems.append(f"{kind} does not fire on its positive example")
            if neg:
                problems.append(f"{kind} example twin: {neg[0].kind} fires on the negative example ({neg[0].what[:80]})")
    if problems:
        raise AnalysisError("data-model lints failed their self-check: " + "; ".join(problems))
    _SELF_CHECKED[0] = True
