"""A tiny interpreter for list-shuffling code on lists of OPAQUE symbols with concrete lengths.

Some accessors only rearrange the elements of a few input lists (interleave, concatenate, de-duplicate by position, slice, zip).  What such a
function does to its inputs is an *index map*, and an index map is decided by running the function's own statements on lists whose elements are
distinct opaque symbols, for every combination of small input lengths: all control flow (``len`` tests, ``range``, ``zip``, slices) is concrete,
no library code is executed, and nothing about the elements is ever inspected except their identity.  One-dimensional numpy arrays are modelled
as lists (``asarray`` / ``array`` / ``empty`` / ``append`` / ``concatenate`` / strided slice assignment).  Anything outside this fragment raises
``Unsupported`` -- the caller reports 'undecided', never a verdict.
"""
from __future__ import annotations

import ast
from typing import Any, Dict, List

from .sym import Unsupported


class Sym(str):
    """an opaque element"""
    __slots__ = ()


class _Return(Exception):
    def __init__(self, value):
        self.value = value


class ListInterp:
    def __init__(self, self_attrs: Dict[str, Any], self_name: str = "self", np_names=("np", "numpy"), max_steps: int = 20000,
                 functions: Dict[str, ast.FunctionDef] = None):
        self.functions = dict(functions or {})      # functions of the package the accessor calls by name: interpreted in turn (same fragment)
        self.depth = 0
        self.self_attrs = self_attrs
        self.self_name = self_name
        self.np_names = set(np_names)
        self.steps = 0
        self.max_steps = max_steps

    # ------------------------------------------------------------------------------------------------
    def run(self, fn: ast.FunctionDef, args: Dict[str, Any] = None):
        env: Dict[str, Any] = dict(args or {})
        try:
            self.block(fn.body, env)
        except _Return as r:
            return r.value
        return None

    def block(self, stmts: List[ast.stmt], env):
        for st in stmts:
            self.steps += 1
            if self.steps > self.max_steps:
                raise Unsupported("too many steps")
            self.stmt(st, env)

    def stmt(self, st: ast.stmt, env):
        if isinstance(st, ast.Expr):
            if isinstance(st.value, ast.Constant):
                return
            self.ev(st.value, env)
            return
        if isinstance(st, ast.Return):
            raise _Return(self.ev(st.value, env) if st.value is not None else None)
        if isinstance(st, ast.Assign):
            v = self.ev(st.value, env)
            for t in st.targets:
                self.assign(t, v, env)
            return
        if isinstance(st, ast.AnnAssign):
            if st.value is not None:
                self.assign(st.target, self.ev(st.value, env), env)
            return
        if isinstance(st, ast.AugAssign):
            cur = self.ev(ast.copy_location(ast.Name(id=st.target.id, ctx=ast.Load()), st.target), env) if isinstance(st.target, ast.Name) else None
            if cur is None and not isinstance(st.target, ast.Name):
                raise Unsupported("augmented assignment to a non-name")
            v = self.ev(st.value, env)
            if isinstance(st.op, ast.Add):
                if isinstance(cur, list):
                    cur.extend(list(v))      # in place, as Python does
                    return
                env[st.target.id] = cur + v
                return
            if isinstance(st.op, ast.Sub):
                env[st.target.id] = cur - v
                return
            raise Unsupported("augmented operator")
        if isinstance(st, ast.If):
            self.block(st.body if self.truth(self.ev(st.test, env)) else st.orelse, env)
            return
        if isinstance(st, ast.For):
            it = self.ev(st.iter, env)
            for x in list(self.iterable(it)):
                self.assign(st.target, x, env)
                self.block(st.body, env)
            if st.orelse:
                self.block(st.orelse, env)
            return
        if isinstance(st, ast.Pass):
            return
        raise Unsupported(f"statement {type(st).__name__}")

    def assign(self, t: ast.expr, v, env):
        if isinstance(t, ast.Name):
            env[t.id] = v
            return
        if isinstance(t, (ast.Tuple, ast.List)):
            vs = list(self.iterable(v))
            if len(vs) != len(t.elts):
                raise Unsupported("unpacking length")
            for tt, vv in zip(t.elts, vs):
                self.assign(tt, vv, env)
            return
        if isinstance(t, ast.Subscript):
            base = self.ev(t.value, env)
            if not isinstance(base, list):
                raise Unsupported("item assignment on a non-list")
            if isinstance(t.slice, ast.Slice):
                sl = slice(*(None if x is None else self.int(self.ev(x, env)) for x in (t.slice.lower, t.slice.upper, t.slice.step)))
                vs = list(self.iterable(v))
                idx = list(range(*sl.indices(len(base))))
                if sl.step not in (None, 1) or True:
                    if len(idx) != len(vs):
                        if sl.step in (None, 1):
                            base[sl] = vs
                            return
                        raise ValueError("extended slice size mismatch")       # numpy / list would raise too
                    for i, x in zip(idx, vs):
                        base[i] = x
                return
            base[self.int(self.ev(t.slice, env))] = v
            return
        raise Unsupported(f"assignment target {type(t).__name__}")

    # ------------------------------------------------------------------------------------------------
    def truth(self, v) -> bool:
        if isinstance(v, Sym):
            raise Unsupported("truth value of an opaque element")
        return bool(v)

    def int(self, v) -> int:
        if isinstance(v, bool) or not isinstance(v, int):
            raise Unsupported("a concrete integer is needed")
        return v

    def iterable(self, v):
        if isinstance(v, (list, tuple, range)):
            return v
        if isinstance(v, (zip, map, filter, enumerate)) or hasattr(v, "__next__"):
            return v
        raise Unsupported("not an iterable of the fragment")

    def ev(self, e: ast.expr, env):
        self.steps += 1
        if self.steps > self.max_steps:
            raise Unsupported("too many steps")
        if isinstance(e, ast.Constant):
            return e.value
        if isinstance(e, ast.Name):
            if e.id in env:
                return env[e.id]
            if e.id in ("True", "False", "None"):
                return {"True": True, "False": False, "None": None}[e.id]
            raise Unsupported(f"name {e.id}")
        if isinstance(e, ast.Attribute):
            if isinstance(e.value, ast.Name) and e.value.id == self.self_name:
                if e.attr in self.self_attrs:
                    v = self.self_attrs[e.attr]
                    return v
                raise Unsupported(f"self.{e.attr}")
            if e.attr in ("dtype", "shape", "size"):
                base = self.ev(e.value, env)
                if e.attr == "size":
                    return len(base)
                if e.attr == "shape":
                    return (len(base),)
                return None
            raise Unsupported(f"attribute {e.attr}")
        if isinstance(e, (ast.List, ast.Tuple)):
            out = []
            for x in e.elts:
                if isinstance(x, ast.Starred):
                    out.extend(list(self.iterable(self.ev(x.value, env))))
                else:
                    out.append(self.ev(x, env))
            return out if isinstance(e, ast.List) else tuple(out)
        if isinstance(e, (ast.ListComp, ast.GeneratorExp)):
            out = []

            def rec(i, env2):
                if i == len(e.generators):
                    out.append(self.ev(e.elt, env2))
                    return
                g = e.generators[i]
                for x in list(self.iterable(self.ev(g.iter, env2))):
                    env3 = dict(env2)
                    self.assign(g.target, x, env3)
                    if all(self.truth(self.ev(c, env3)) for c in g.ifs):
                        rec(i + 1, env3)
            rec(0, dict(env))
            return out
        if isinstance(e, ast.Subscript):
            base = self.ev(e.value, env)
            if not isinstance(base, (list, tuple)):
                raise Unsupported("subscript of a non-sequence")
            if isinstance(e.slice, ast.Slice):
                sl = slice(*(None if x is None else self.int(self.ev(x, env)) for x in (e.slice.lower, e.slice.upper, e.slice.step)))
                return list(base[sl]) if isinstance(base, list) else base[sl]
            return base[self.int(self.ev(e.slice, env))]
        if isinstance(e, ast.BinOp):
            a, b = self.ev(e.left, env), self.ev(e.right, env)
            if isinstance(a, Sym) or isinstance(b, Sym):
                raise Unsupported("arithmetic on an opaque element")
            if isinstance(e.op, ast.Add):
                if isinstance(a, list) != isinstance(b, list):
                    a, b = list(a), list(b)
                return a + b
            if isinstance(e.op, ast.Sub):
                return a - b
            if isinstance(e.op, ast.Mult):
                return a * b
            if isinstance(e.op, ast.FloorDiv):
                return a // b
            if isinstance(e.op, ast.Mod):
                return a % b
            raise Unsupported("operator")
        if isinstance(e, ast.UnaryOp):
            v = self.ev(e.operand, env)
            if isinstance(e.op, ast.Not):
                return not self.truth(v)
            if isinstance(e.op, ast.USub):
                return -v
            raise Unsupported("unary operator")
        if isinstance(e, ast.BoolOp):
            vals = None
            for x in e.values:
                vals = self.ev(x, env)
                t = self.truth(vals)
                if isinstance(e.op, ast.And) and not t:
                    return vals
                if isinstance(e.op, ast.Or) and t:
                    return vals
            return vals
        if isinstance(e, ast.IfExp):
            return self.ev(e.body, env) if self.truth(self.ev(e.test, env)) else self.ev(e.orelse, env)
        if isinstance(e, ast.Compare):
            left = self.ev(e.left, env)
            for op, c in zip(e.ops, e.comparators):
                right = self.ev(c, env)
                if isinstance(op, (ast.In, ast.NotIn)):
                    r = any(x is left or (not isinstance(x, Sym) and not isinstance(left, Sym) and x == left) for x in self.iterable(right))
                    r = r if isinstance(op, ast.In) else not r
                elif isinstance(op, (ast.Is, ast.IsNot)):
                    r = (left is right) if isinstance(op, ast.Is) else (left is not right)
                else:
                    if isinstance(left, Sym) or isinstance(right, Sym):
                        if isinstance(op, (ast.Eq, ast.NotEq)):
                            r = (left is right) if isinstance(op, ast.Eq) else (left is not right)
                        else:
                            raise Unsupported("ordering of opaque elements")
                    else:
                        r = {ast.Lt: left < right, ast.LtE: left <= right, ast.Gt: left > right, ast.GtE: left >= right,
                             ast.Eq: left == right, ast.NotEq: left != right}.get(type(op)) if type(op) in (ast.Lt, ast.LtE, ast.Gt, ast.GtE, ast.Eq, ast.NotEq) else None
                        if r is None:
                            raise Unsupported("comparison")
                if not r:
                    return False
                left = right
            return True
        if isinstance(e, ast.Call):
            return self.call(e, env)
        raise Unsupported(f"expression {type(e).__name__}")

    def call(self, e: ast.Call, env):
        f = e.func
        args = []
        for a in e.args:
            if isinstance(a, ast.Starred):
                args.extend(list(self.iterable(self.ev(a.value, env))))
            else:
                args.append(self.ev(a, env))
        kw = {k.arg: self.ev(k.value, env) for k in e.keywords if k.arg is not None}
        name = None
        if isinstance(f, ast.Name):
            name = f.id
        elif isinstance(f, ast.Attribute) and isinstance(f.value, ast.Name) and f.value.id in self.np_names:
            name = "np." + f.attr
        elif isinstance(f, ast.Attribute) and isinstance(f.value, ast.Name) and f.value.id in ("itertools",):
            name = f.attr
        elif isinstance(f, ast.Attribute) and isinstance(f.value, ast.Name) and f.value.id == "chain" and f.attr == "from_iterable":
            name = "chain.from_iterable"
        if name is not None and name in self.functions and not any(isinstance(a, ast.Starred) for a in e.args):
            fn = self.functions[name]
            a_ = fn.args
            if a_.vararg or a_.kwarg or a_.kwonlyargs or a_.posonlyargs or self.depth >= 3:
                raise Unsupported(f"call {name}")
            params = [x.arg for x in a_.args]
            env2 = dict(zip(params, args))
            for k_, v_ in kw.items():
                if k_ not in params or k_ in env2:
                    raise Unsupported(f"call {name}")
                env2[k_] = v_
            for p_, d_ in zip(params[::-1], list(a_.defaults)[::-1]):
                if p_ not in env2:
                    if not isinstance(d_, ast.Constant):
                        raise Unsupported(f"call {name}: default of {p_}")
                    env2[p_] = d_.value
            if set(env2) != set(params):
                raise Unsupported(f"call {name}: arguments")
            self.depth += 1
            try:
                self.block(fn.body, env2)
            except _Return as r:
                return r.value
            finally:
                self.depth -= 1
            return None
        if name is not None:
            if name == "len":
                return len(args[0])
            if name in ("min", "max") and all(isinstance(a, int) and not isinstance(a, bool) for a in args) and len(args) >= 2:
                return min(args) if name == "min" else max(args)
            if name in ("list", "np.asarray", "np.array"):
                return list(self.iterable(args[0])) if args else []
            if name == "tuple":
                return tuple(self.iterable(args[0])) if args else ()
            if name == "range":
                return range(*[self.int(a) for a in args])
            if name == "zip":
                return list(zip(*[list(self.iterable(a)) for a in args]))
            if name == "zip_longest":
                import itertools
                return list(itertools.zip_longest(*[list(self.iterable(a)) for a in args], fillvalue=kw.get("fillvalue")))
            if name == "enumerate":
                return list(enumerate(list(self.iterable(args[0])), *(args[1:2])))
            if name == "reversed":
                return list(reversed(list(self.iterable(args[0]))))
            if name == "chain":
                out = []
                for a in args:
                    out.extend(list(self.iterable(a)))
                return out
            if name == "chain.from_iterable":
                out = []
                for a in self.iterable(args[0]):
                    out.extend(list(self.iterable(a)))
                return out
            if name == "np.empty":
                shp = args[0] if args else kw.get("shape")
                n = shp[0] if isinstance(shp, (tuple, list)) else shp
                return [None] * self.int(n)
            if name in ("np.append", "np.concatenate", "np.hstack"):
                if name == "np.append":
                    return list(self.iterable(args[0])) + list(self.iterable(args[1]))
                out = []
                for a in self.iterable(args[0]):
                    out.extend(list(self.iterable(a)))
                return out
            if name == "isinstance":
                raise Unsupported("isinstance on opaque elements")
            raise Unsupported(f"call {name}")
        if isinstance(f, ast.Attribute):
            recv = self.ev(f.value, env)
            m = f.attr
            if isinstance(recv, list):
                if m == "append":
                    recv.append(args[0])
                    return None
                if m == "extend":
                    recv.extend(list(self.iterable(args[0])))
                    return None
                if m == "insert":
                    recv.insert(self.int(args[0]), args[1])
                    return None
                if m == "copy":
                    return list(recv)
                if m in ("tolist", "flatten", "ravel"):
                    return list(recv)
                if m == "index":
                    for i, x in enumerate(recv):
                        if x is args[0]:
                            return i
                    raise ValueError("not in list")
                if m == "pop":
                    return recv.pop(*[self.int(a) for a in args])
            raise Unsupported(f"method {m}")
        raise Unsupported("call")
