"""E6 -- summaries of the library's circuit *builder* functions.

A builder is a function that creates a DeclarativeCircuit, ``add``s operations / sub-circuits to it (possibly in loops over
connectivity lists and under guards) and returns it.  ``emits`` flattens one path of the path enumerator into the ordered
list of things added to a given circuit object, each with the loops and the guard it sits under.
"""
from __future__ import annotations

from typing import List, Optional, Tuple

from .paths import Event, Path, find_calls
from .sym import TRUE, Term, t_and


class Emit:
    __slots__ = ("term", "loops", "cond", "node", "kind")

    def __init__(self, term: Term, loops: Tuple[Term, ...], cond: Term, node, kind: str = "add"):
        self.term, self.loops, self.cond, self.node, self.kind = term, loops, cond, node, kind

    @property
    def cls(self) -> Optional[str]:
        t = self.term
        if t[0] == "new":
            return t[1]
        if t[0] == "var" and t[3][0] == "new":
            return t[3][1]
        if t[0] == "call" and isinstance(t[1], tuple) and t[1][0] == "fn":
            return t[1][1]
        return None

    def field(self, name: str) -> Optional[Term]:
        t = self.term[3] if self.term[0] == "var" else self.term
        if t[0] == "new":
            return dict(t[2]).get(name)
        return None

    def __repr__(self):
        from .sym import show
        return f"<emit {show(self.term)[:80]} loops={len(self.loops)} if {show(self.cond)}>"


def emits(path: Path, recv: Term, method: str = "add") -> List[Emit]:
    """Ordered ``recv.add(X)`` calls of a path, descending into loops (every body path, in order)."""
    out: List[Emit] = []

    def walk(events: List[Event], loops: Tuple[Term, ...], cond: Term):
        for e in events:
            if e.kind == "effect" and e.term is not None:
                for c in find_calls(e.term, method):
                    if isinstance(c[1], tuple) and c[1][0] == "attr" and _same_obj(c[1][1], recv):
                        arg = (list(c[2]) + [v for _, v in c[3]] + [None])[0]
                        if arg is not None:
                            out.append(Emit(arg, loops, cond, e.node))
            if e.kind == "loop":
                for bp in e.extra["paths"]:
                    walk(bp.events, loops + (e.term if e.term is not None else ("while",),), t_and(cond, bp.cond))
    walk(path.events, (), TRUE)
    return out


def _same_obj(a: Term, b: Term) -> bool:
    if a == b:
        return True
    # a local bound to a constructed circuit keeps its name through field stores
    if a[0] == "new" and b[0] == "new":
        return False  # differently constructed objects (e.g. sub-circuits with their own repetition strategy) are different
    if a[0] == "var" and b[0] == "var":
        return a[1] == b[1] and a[2] == b[2]
    return False
