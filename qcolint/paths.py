"""E3 -- path enumeration over the structured statements of one function.

A *path* is the sequence of events (effects, stores, nested-loop summaries) met from the entry of a statement
list to one of its exits, together with the conjunction of branch conditions taken.  Conditions are terms of
``sym``; a path whose condition is unsatisfiable by truth table (atoms treated as independent, enumeration
atoms as mutually exclusive) is infeasible and dropped -- this removes the classic false alarm on guard
sequences that are exhaustive only semantically (``if a and b … if a and not b … if not a``).
"""
from __future__ import annotations

import ast
from fractions import Fraction
from typing import Dict, List, Optional, Sequence, Tuple

from .model import AnalysisError, FunctionInfo
from .model import is_helper_name as _is_helper_name
from .sym import (FALSE, NONE, TRUE, Evaluator, Frame, Term, Unsupported, is_private_helper, lin, satisfiable, show, subst, subterms, sym, t_and, t_not)

MAX_PATHS = 20000
API_ITERATORS_NAMES = ("get_node_iterator", "get_branch_iterator")


class Event:
    __slots__ = ("kind", "node", "term", "extra")

    def __init__(self, kind: str, node: ast.AST, term: Optional[Term] = None, extra=None):
        self.kind, self.node, self.term, self.extra = kind, node, term, extra

    def __repr__(self):
        return f"<{self.kind} {show(self.term) if self.term is not None else ''}>"


class Path:
    __slots__ = ("cond", "events", "exit", "value", "env", "exit_node")

    def __init__(self, cond: Term, events: List[Event], env: Dict[str, Term]):
        self.cond, self.events, self.env = cond, events, env
        self.exit: str = "fall"
        self.value: Optional[Term] = None
        self.exit_node: Optional[ast.AST] = None

    def fork(self, extra_cond: Term) -> "Path":
        p = Path(t_and(self.cond, extra_cond), list(self.events), dict(self.env))
        return p

    def calls(self, name: str) -> List[Event]:
        """Effect events that are calls of attribute/function ``name`` (searching nested call terms too)."""
        out = []
        for e in self.events:
            if e.kind == "effect" and e.term is not None and _mentions_call(e.term, name):
                out.append(e)
            if e.kind == "store" and e.term is not None and _mentions_call(e.term, name):
                out.append(e)
        return out

    def __repr__(self):
        return f"<path {self.exit} if {show(self.cond)}: {self.events}>"


def _mentions_call(t, name: str) -> bool:
    if not isinstance(t, tuple):
        return False
    if t and t[0] == "call":
        f = t[1]
        if isinstance(f, tuple) and f[0] == "attr" and f[2] == name:
            return True
        if isinstance(f, tuple) and f[0] == "fn" and f[1].split(".")[-1] == name:
            return True
        if f == name:
            return True
    return any(_mentions_call(x, name) for x in t if isinstance(x, tuple))


def find_calls(t, name: str, acc=None) -> List[Term]:
    """All call sub-terms of ``t`` whose callee attribute / function name is ``name``."""
    if acc is None:
        acc = []
    if isinstance(t, tuple):
        if t and t[0] == "call":
            f = t[1]
            if ((isinstance(f, tuple) and f[0] == "attr" and f[2] == name)
                    or (isinstance(f, tuple) and f[0] == "fn" and f[1].split(".")[-1] == name) or f == name):
                acc.append(t)
        for x in t:
            if isinstance(x, tuple):
                find_calls(x, name, acc)
    return acc


class PathEnumerator:
    def __init__(self, ev: Evaluator, prune: bool = True, inline_private: bool = True, no_inline: Optional[Sequence[str]] = None):
        self.ev = ev
        self.prune = prune
        self.count = 0
        self.localdefs: Dict[Tuple[str, str], ast.FunctionDef] = {}
        self._inline_depth = 0
        self._inline_stack: List[str] = []
        self._unpacking_stmt = False
        self.inline_private = inline_private        # statement-level calls of private helpers are run in place
        from .normalize import Normalizer
        nz = getattr(ev.model, "_normalizer", None)
        if nz is None:
            nz = Normalizer(ev.model)
            ev.model._normalizer = nz
        self.norm = nz
        self.no_inline = set(no_inline or ())
        self.split_ite = True                       # a conditional expression assigned / returned is read as the if-statement it abbreviates
        self.loop_view = False                      # spell comprehensions over private helpers as loops (see normalize.Normalizer.body)
        self.single_use_any = False                 # opt-in: a function called at one place only is read as part of its caller, however its result is used
        self.unroll_literal_loops = True            # ``for x in (a, b, c)`` over a literal is read as the straight-line code it abbreviates
        self.unroll_limit = 8                       # ... up to this many items
        self.own_class_helpers = False              # opt-in: ``x = self.helper(..)`` on a non-interface method of the analysed class is read in place

    def function_paths(self, fn: FunctionInfo, self_cls=None, args: Optional[Dict[str, Term]] = None) -> List[Path]:
        env: Dict[str, Term] = {}
        sname = fn.self_name
        if sname is not None:
            env[sname] = sym(sname) if fn.kind != "classmethod" else ("cls", (self_cls or fn.cls).name)
            if fn.kind != "classmethod":
                self.ev.set_type(env[sname], self_cls or fn.cls)
        for p in fn.params:
            if p.arg == sname:
                continue
            env[p.arg] = (args or {}).get(p.arg, sym(p.arg))
            if env[p.arg][0] == "sym":
                self.ev.set_type(env[p.arg], self.ev.ann_class(p.annotation, fn.module))
        if fn.node.args.kwarg is not None:
            env[fn.node.args.kwarg.arg] = ("kwargs", fn.node.args.kwarg.arg)
        if fn.node.args.vararg is not None:
            env[fn.node.args.vararg.arg] = ("varargs", fn.node.args.vararg.arg)
        frame = Frame(fn, fn.module, env, self_cls or fn.cls, 0)
        start = Path(TRUE, [], env)
        out = self.block(self.norm.body(fn, fn.node, loop_view=self.loop_view, keep=frozenset(self.no_inline)) if self.inline_private else fn.body, [start], frame)
        if self.ev.lambdas:
            self._beta_paths(out, 0)
        return out

    def _beta_paths(self, paths: List[Path], depth: int) -> None:
        """lambdas taken from a table and left in call position by a substitution are applied (events, values; loop bodies included)"""
        if depth > 4:
            return
        for p in paths:
            for e in p.events:
                if e.term is not None and isinstance(e.term, tuple):
                    try:
                        e.term = self.ev.beta(e.term)
                    except Exception:
                        pass
                if e.kind == "loop" and isinstance(e.extra, dict) and "paths" in e.extra:
                    self._beta_paths(e.extra["paths"], depth + 1)
            if p.value is not None:
                try:
                    p.value = self.ev.beta(p.value)
                except Exception:
                    pass

    # ------------------------------------------------------------------------------------------
    def feasible(self, cond: Term) -> bool:
        if not self.prune:
            return cond != FALSE
        if cond == FALSE:
            return False
        try:
            return satisfiable(cond, self.ev.enum_members)
        except Unsupported:
            return True

    def block(self, stmts: Sequence[ast.stmt], paths: List[Path], fr: Frame) -> List[Path]:
        """Advance all live ('fall') paths through ``stmts``."""
        done: List[Path] = [p for p in paths if p.exit != "fall"]
        live: List[Path] = [p for p in paths if p.exit == "fall"]
        for st in stmts:
            if not live:
                break
            nxt: List[Path] = []
            for p in live:
                for q in self.stmt(st, p, fr):
                    (nxt if q.exit == "fall" else done).append(q)
            live = nxt
            self.count = len(live) + len(done)
            if self.count > MAX_PATHS:
                raise Unsupported("too many paths")
        return done + live

    def _assume(self, p: Path, c: Term):
        """on a branch the test is known: two-way values guarded by the same atoms collapse (``x = a if c else b`` ... ``if c:`` -> x is a)"""
        lits = {}
        for a in (c[1] if c[0] == "and" else (c,)):
            if a[0] == "not":
                lits[a[1]] = FALSE
            elif a[0] not in ("or", "and", "const"):
                lits[a] = TRUE
        if not lits:
            return
        for k, v in list(p.env.items()):
            if isinstance(v, tuple) and v and subterms(v, lambda x: x[0] == "ite" and (x[1] in lits or (x[1][0] == "not" and x[1][1] in lits) or any(y in lits for y in (x[1][1] if x[1][0] == "and" else ())))):
                p.env[k] = subst(v, lits)

    def _narrow(self, c: Term):
        """isinstance(x, T) taken as true narrows the static type of x to T (only ever to a subclass)."""
        parts = c[1] if c[0] == "and" else (c,)
        for a in parts:
            if a[0] == "isinstance" and isinstance(a[2], str):
                T = self.ev.model.maybe_cls(a[2])
                cur = self.ev.type_of(a[1])
                if T is not None and (cur is None or T.is_subclass_of(cur)):
                    self.ev.set_type(a[1], T)

    def _frame(self, fr: Frame, p: Path) -> Frame:
        return Frame(fr.fn, fr.module, p.env, fr.self_cls, fr.depth)

    def stmt(self, st: ast.stmt, p: Path, fr: Frame) -> List[Path]:
        ev = self.ev
        f = self._frame(fr, p)
        if isinstance(st, (ast.Pass, ast.Import, ast.ImportFrom, ast.Global, ast.Nonlocal)):
            return [p]
        if isinstance(st, ast.Expr) and isinstance(st.value, ast.Call):
            c0 = st.value
            # setattr(X, 'name', v) as a statement is the store X.name = v
            if isinstance(c0.func, ast.Name) and c0.func.id == "setattr" and len(c0.args) == 3 and not c0.keywords \
                    and isinstance(c0.args[1], ast.Constant) and isinstance(c0.args[1].value, str):
                tgt = ast.Attribute(value=c0.args[0], attr=c0.args[1].value, ctx=ast.Store())
                ast.copy_location(tgt, st)
                self._assign(tgt, ev.expr(c0.args[2], f), p, f, st)
                return [p]
            # registrations on an ExitStack of this function
            if isinstance(c0.func, ast.Attribute) and isinstance(c0.func.value, ast.Name) and p.env.get(c0.func.value.id) == ("exitstack", c0.func.value.id) \
                    and c0.func.attr in ("callback", "enter_context") and c0.args and not c0.keywords:
                key = "@exitstack:" + c0.func.value.id
                items = list(p.env.get(key, ("tuple", ()))[1])
                if c0.func.attr == "enter_context" and len(c0.args) == 1:
                    v = ev.expr(c0.args[0], f)
                    p.events.append(Event("with", st, v))
                    items.append((("const", "endwith"), None, v))
                else:
                    fn0, rest = c0.args[0], c0.args[1:]
                    if isinstance(fn0, ast.Name) and fn0.id == "setattr" and len(rest) == 3 and isinstance(rest[1], ast.Constant) and isinstance(rest[1].value, str):
                        term = ("store", ev.expr(rest[0], f), rest[1].value, ev.expr(rest[2], f))
                        # keep the syntax of the stored value (rules ask where it comes from)
                        syn = ast.Assign(targets=[ast.Attribute(value=rest[0], attr=rest[1].value, ctx=ast.Store())], value=rest[2])
                        ast.copy_location(syn, st)
                        ast.fix_missing_locations(syn)
                        items.append((("const", "callback"), syn, term))
                        p.env[key] = ("tuple", tuple(items))
                        return [p]
                    if False:
                        pass
                    else:
                        call_node = ast.Call(func=fn0, args=list(rest), keywords=[])
                        ast.copy_location(call_node, st)
                        ast.fix_missing_locations(call_node)
                        term = ev.expr(call_node, f)
                    items.append((("const", "callback"), None, term))
                p.env[key] = ("tuple", tuple(items))
                return [p]
        call = self._local_call(st, p, fr)
        if call is not None:
            return self._inline_local(st, call, p, fr)
        if isinstance(st, ast.Expr):
            if isinstance(st.value, ast.Constant):
                return [p]
            if isinstance(st.value, ast.YieldFrom):
                # ``yield from xs`` hands on every element of xs: the loop it abbreviates
                tmp = f"_qcl_elem_{st.lineno}"
                loop = ast.For(target=ast.Name(id=tmp, ctx=ast.Store()), iter=st.value.value,
                               body=[ast.Expr(value=ast.Yield(value=ast.Name(id=tmp, ctx=ast.Load())))], orelse=[])
                ast.copy_location(loop, st)
                ast.fix_missing_locations(loop)
                return self.stmt(loop, p, fr)
            if isinstance(st.value, ast.Yield):
                v = ev.expr(st.value.value, f) if st.value.value is not None else NONE
                p.events.append(Event("yield", st, v))
                return [p]
            p.events.append(Event("effect", st, ev.expr(st.value, f)))
            return [p]
        if isinstance(st, (ast.Assign, ast.AnnAssign)):
            if st.value is None:
                return [p]
            if isinstance(st.value, (ast.Yield, ast.YieldFrom)):
                raise Unsupported("yield expression in assignment")
            v = ev.expr(st.value, f)
            targets = st.targets if isinstance(st, ast.Assign) else [st.target]
            if v[0] == "ite" and self.split_ite and len(targets) == 1 and isinstance(targets[0], (ast.Name, ast.Tuple, ast.List)) \
                    and (isinstance(st.value, ast.IfExp) or (isinstance(st.value, ast.Call) and v[2][0] != "ite" and v[3][0] != "ite")):
                # (also a two-way choice made inside a pure helper that was read as a value)
                # ``x = a if c else b``  is  ``if c: x = a`` / ``else: x = b``
                outs = []
                for c, val in ((v[1], v[2]), (t_not(v[1]), v[3])):
                    q = p.fork(c)
                    if self.feasible(q.cond):
                        self._assign(targets[0], val, q, self._frame(fr, q), st)
                        outs.append(q)
                return outs
            for tg in targets:
                self._assign(tg, v, p, f, st)
            if isinstance(st, ast.AnnAssign) and isinstance(st.target, ast.Name) and v[0] in ("sym", "attr", "call", "sub"):
                c = ev.ann_class(st.annotation, fr.module)
                if c is not None and ev.type_of(v) is None:
                    ev.set_type(v, c)
            # a call on the right-hand side is also an effect worth recording (e.g. x = graph.add(...))
            if isinstance(st.value, ast.Call):
                p.events.append(Event("effect", st, v))
            return [p]
        if isinstance(st, ast.AugAssign):
            if isinstance(st.target, ast.Name):
                cur = ev.expr(st.target, f)
                val = ev.expr(st.value, f)
                if isinstance(st.op, ast.Add) and cur[0] == "var" and cur[3][0] in ("list", "comp"):
                    # ``acc += xs`` on a local list extends it in place
                    p.events.append(Event("effect", st, ("call", ("attr", cur, "extend"), (val,), ())))
                    return [p]
                new = ev.binop(st.op, cur, val)
                p.env[st.target.id] = new
                p.events.append(Event("aug", st, val, extra=(st.target.id, type(st.op).__name__)))
                return [p]
            base = ev.expr(st.target.value, f) if isinstance(st.target, (ast.Attribute, ast.Subscript)) else None
            p.events.append(Event("store", st, ("store", base, ast.unparse(st.target), ev.expr(st.value, f)),
                                  extra=("aug", type(st.op).__name__)))
            return [p]
        if isinstance(st, ast.Return):
            v = ev.expr(st.value, f) if st.value is not None else NONE
            if v[0] == "ite" and self.split_ite and isinstance(st.value, ast.IfExp):
                outs = []
                for c, val in ((v[1], v[2]), (t_not(v[1]), v[3])):
                    q = p.fork(c)
                    if self.feasible(q.cond):
                        q.value, q.exit, q.exit_node = val, "return", st
                        outs.append(q)
                return outs
            if st.value is not None and isinstance(st.value, ast.Call) and v[0] == "call":
                # ``return f(x)`` also *does* f(x)
                p.events.append(Event("effect", st, v))
            p.value = v
            p.exit, p.exit_node = "return", st
            return [p]
        if isinstance(st, ast.Raise):
            p.value = ev.expr(st.exc, f) if st.exc is not None else None
            p.exit, p.exit_node = "raise", st
            return [p]
        if isinstance(st, ast.Continue):
            p.exit, p.exit_node = "continue", st
            return [p]
        if isinstance(st, ast.Break):
            p.exit, p.exit_node = "break", st
            return [p]
        if isinstance(st, ast.Assert):
            c = ev.expr(st.test, f)
            q = p.fork(t_not(c))
            q.exit, q.exit_node = "raise", st
            p.cond = t_and(p.cond, c)
            return [x for x in (p, q) if self.feasible(x.cond)]
        if isinstance(st, ast.If):
            c = self._resolve_lens(ev.expr(st.test, f), p, st, fr)
            out: List[Path] = []
            pt = p.fork(c)
            pe = p.fork(t_not(c))
            self._assume(pt, c)
            self._assume(pe, t_not(c))
            if self.feasible(pt.cond):
                self._narrow(c)
                pt.events.append(Event("branch", st, c, extra=True))
                out.extend(self.block(st.body, [pt], fr))
            if self.feasible(pe.cond):
                pe.events.append(Event("branch", st, c, extra=False))
                if not st.orelse and all(q.exit != "fall" for q in out):
                    # ``if not isinstance(x, T): continue / return`` -- what follows runs only with x a T
                    self._narrow(t_not(c))
                out.extend(self.block(st.orelse, [pe], fr))
            return out
        if isinstance(st, (ast.For, ast.While)):
            return self._loop(st, p, fr)
        if isinstance(st, ast.With):
            stacks = []
            managers = []
            for item in st.items:
                ce = item.context_expr
                if isinstance(ce, ast.Call) and not ce.args and not ce.keywords and (
                        (isinstance(ce.func, ast.Name) and ce.func.id == "ExitStack") or (isinstance(ce.func, ast.Attribute) and ce.func.attr == "ExitStack")) \
                        and isinstance(item.optional_vars, ast.Name):
                    # ``with ExitStack() as s``: what is registered on s runs, last in first out, on EVERY exit of the block --
                    # the try / finally it abbreviates
                    name = item.optional_vars.id
                    p.env[name] = ("exitstack", name)
                    p.env["@exitstack:" + name] = ("tuple", ())
                    p.events.append(Event("try", st))
                    stacks.append(name)
                    continue
                v = ev.expr(ce, f)
                p.events.append(Event("with", st, v))
                if item.optional_vars is not None and isinstance(item.optional_vars, ast.Name):
                    p.env[item.optional_vars.id] = ("withvar", item.optional_vars.id, show(v))
                cm = self._class_manager(ce, v, f) if item.optional_vars is None else None
                if cm is not None:
                    # ``with K(..):`` for a class K of the package with __enter__ / __exit__: what __enter__ does happens here, what __exit__ does
                    # happens on EVERY exit of the block -- the try / finally the statement abbreviates.  Read only when __exit__ does the same
                    # whether or not the block raised (otherwise the statement is left as the plain ``with`` event it was)
                    try:
                        plan = self._manager_plan(cm, st)
                    except Unsupported:
                        plan = None
                    if plan is not None:
                        p.events.append(Event("try", st))
                        self._commit(plan[0], p)
                        managers.append(plan[1])
            outs = self.block(st.body, [p], fr)
            for q in outs:
                for leaving in reversed(managers):
                    q.events.append(Event("finally", st))
                    self._commit(leaving, q)
                for name in reversed(stacks):
                    q.events.append(Event("finally", st))
                    for kind, node, term in reversed(q.env.get("@exitstack:" + name, ("tuple", ()))[1]):
                        if kind == ("const", "endwith"):
                            q.events.append(Event("endwith", st))
                        elif term[0] == "store":
                            q.events.append(Event("store", node if node is not None else st, term))
                            if term[1][0] == "cls":
                                q.env[f"@{term[1][1]}.{term[2]}"] = term[3]
                        else:
                            q.events.append(Event("effect", st, term))
                for item in st.items:
                    if not (isinstance(item.optional_vars, ast.Name) and item.optional_vars.id in stacks):
                        q.events.append(Event("endwith", st))
            return outs
        if isinstance(st, ast.Try):
            p.events.append(Event("try", st))
            body = self.block(st.body, [p.fork(TRUE)], fr)
            outs = list(body)
            for h in st.handlers:
                q = p.fork(TRUE)
                q.events.append(Event("except", h, ("const", ast.unparse(h.type) if h.type else "BaseException")))
                if h.name:
                    q.env[h.name] = ("exc", h.name)
                outs.extend(self.block(h.body, [q], fr))
            if st.orelse:
                outs = [x for x in outs if x.exit != "fall"] + self.block(st.orelse, [x for x in outs if x.exit == "fall"], fr)
            if st.finalbody:
                fin: List[Path] = []
                for q in outs:
                    kind, val, node = q.exit, q.value, q.exit_node
                    q.exit = "fall"
                    q.events.append(Event("finally", st))
                    for r in self.block(st.finalbody, [q], fr):
                        if r.exit == "fall":
                            r.exit, r.value, r.exit_node = kind, val, node
                        fin.append(r)
                outs = fin
            return outs
        if isinstance(st, (ast.FunctionDef, ast.ClassDef)):
            p.env[st.name] = ("localdef", st.name)
            p.events.append(Event("localdef", st))
            if isinstance(st, ast.FunctionDef):
                self.localdefs[(fr.fn.qualname, st.name)] = st
                self.ev.localdefs[st.name] = st
            return [p]
        if isinstance(st, ast.Delete):
            p.events.append(Event("effect", st, ("const", ast.unparse(st))))
            return [p]
        raise Unsupported(f"statement {type(st).__name__} at line {st.lineno}")

    # ------------------------------------------------------------------------------------------
    def _class_manager(self, ce: ast.AST, v: Term, f: Frame):
        """A context manager written as a class of the package, constructed in the with statement itself: (class, field state, field -> argument syntax).
        The field state is read from ``self.<field> = <parameter | constant>`` statements of its __init__ (anything else leaves the field unknown)."""
        if not (v[0] == "new" and isinstance(ce, ast.Call)):
            return None
        K = self.ev.model.maybe_cls(v[1])
        if K is None or K.resolve("__enter__") is None or K.resolve("__exit__") is None:
            return None
        init = K.resolve("__init__")
        given = dict(v[2])
        fields: Dict[str, Term] = {}
        syntax: Dict[str, ast.AST] = {}
        captured: Dict[str, tuple] = {}
        if init is None:
            if not K.is_dataclass:
                return None
            fields = dict(given)
        else:
            sn = init.self_name
            params = [a.arg for a in init.params if a.arg != sn]
            kw = {k.arg: k.value for k in ce.keywords if k.arg}
            for i, a in enumerate(ce.args):
                if i < len(params) and not isinstance(a, ast.Starred):
                    kw.setdefault(params[i], a)
            for stt in init.node.body:
                tg, val = None, None
                if isinstance(stt, ast.Assign) and len(stt.targets) == 1:
                    tg, val = stt.targets[0], stt.value
                elif isinstance(stt, ast.AnnAssign) and stt.value is not None:
                    tg, val = stt.target, stt.value
                if tg is None or not (isinstance(tg, ast.Attribute) and isinstance(tg.value, ast.Name) and tg.value.id == sn):
                    continue
                if isinstance(val, ast.Name) and val.id in params:
                    if val.id in given:
                        fields[tg.attr] = given[val.id]
                        if val.id in kw:
                            syntax[tg.attr] = kw[val.id]
                    else:
                        d = init.default_of(val.id) if hasattr(init, "default_of") else None
                        if isinstance(d, ast.Constant):
                            fields[tg.attr] = ("const", d.value)
                elif isinstance(val, ast.Constant):
                    fields[tg.attr] = ("const", val.value)
                elif all(q in given for q in params if any(isinstance(n, ast.Name) and n.id == q for n in ast.walk(val))):
                    # computed from the arguments when the object is made (the with statement makes it right before entering)
                    try:
                        got = self._fold_getattr(self.ev.expr(val, Frame(init, init.module, dict(given), K, f.depth + 1)))
                    except Unsupported:
                        continue
                    fields[tg.attr] = got
                    if got[0] in ("attr", "fn", "cls"):
                        captured[tg.attr] = (got, 0)
        return {"cls": K, "fields": fields, "syntax": syntax, "captured": captured}

    def _manager_plan(self, cm, st: ast.stmt):
        """(events of __enter__, events of __exit__) of a class-form manager for this instance; Unsupported when __exit__ behaves differently after an exception"""
        enter = self._manager_events(cm, "__enter__", st, None)
        after = dict(cm["fields"])
        normal = self._manager_events(cm, "__exit__", st, False)
        cm["fields"] = after
        exceptional = self._manager_events(cm, "__exit__", st, True)
        if [(e.kind, e.term) for e in normal] != [(e.kind, e.term) for e in exceptional]:
            raise Unsupported(f"{cm['cls'].name}.__exit__ does not do the same when the block raised")
        return enter, normal

    def _commit(self, events: List[Event], p: Path) -> None:
        for e in events:
            p.events.append(e)
            if e.kind == "store" and e.term[1][0] == "cls":
                p.env[f"@{e.term[1][1]}.{e.term[2]}"] = e.term[3]

    def _manager_events(self, cm, method: str, st: ast.stmt, raised: Optional[bool]) -> List[Event]:
        """What ``method`` of the class-form context manager does, with the fields of the instance replaced by what they hold.
        Exactly one way through the method must remain once the fields are known (its tests on the fields are decided); the ways out by an
        exception raised inside the method are not followed."""
        K = cm["cls"]
        fn = K.resolve(method)
        sub = PathEnumerator(self.ev)
        paths = [q for q in sub.function_paths(fn, self_cls=K) if q.exit in ("fall", "return")]
        sname = fn.self_name
        out: List[Event] = []
        exc_map = {}
        if raised is not None:
            for prm in [x for x in fn.param_names if x != sname][:3]:
                exc_map[sym(prm)] = ("cls", "BaseException") if raised else NONE
        live = []
        for q in paths:
            m = {("attr", sym(sname), k): val for k, val in cm["fields"].items()}
            m.update(exc_map)
            c = subst(q.cond, m)
            # a field holding a function / class / object is not None
            for a in subterms(c, lambda x: x[0] == "eq" and NONE in (x[1], x[2])):
                other = a[2] if a[1] == NONE else a[1]
                if other[0] in ("fn", "cls", "localdef", "lambda", "new"):
                    c = subst(c, {a: FALSE})
            if self.feasible(c):
                live.append(q)
        if len(live) != 1:
            raise Unsupported(f"{K.name}.{method}: {len(live)} ways through it for this instance (expected one)")
        fields = cm["fields"]
        model = self.ev.model
        for e in live[0].events:
            m = {("attr", sym(sname), k): val for k, val in fields.items()}
            m.update(exc_map)
            if e.kind == "store" and e.term is not None and e.term[1] == sym(sname):
                val = self._fold_getattr(subst(e.term[3], m))
                fields[e.term[2]] = val
                if val[0] == "attr" or val[0] in ("fn", "cls"):
                    cm["captured"][e.term[2]] = (val, 0)
                continue
            if e.kind in ("store", "effect") and e.term is not None:
                t = subst(e.term, m)
                if e.kind == "effect" and t[0] == "call" and t[1] in ("setattr", ("global", "setattr")) and len(t[2]) == 3 and not t[3] \
                        and t[2][1][0] == "const" and isinstance(t[2][1][1], str):
                    owner, name, val = t[2][0], t[2][1][1], self._fold_getattr(t[2][2])
                    raw = e.term[2][2]
                    src = raw[2] if raw[0] == "attr" and raw[1] == sym(sname) else None
                    syn_val = cm["syntax"].get(src) if src is not None else None
                    node = ast.Assign(targets=[ast.Attribute(value=ast.Name(id=owner[1] if owner[0] == "cls" else "_", ctx=ast.Load()), attr=name, ctx=ast.Store())],
                                      value=syn_val if syn_val is not None else ast.Constant(value=None))
                    ast.copy_location(node, st)
                    ast.fix_missing_locations(node)
                    extra = "manager:" + K.name
                    if src is not None and src in cm["captured"]:
                        cap, _ = cm["captured"][src]
                        extra = "captured-on-entry:" + (f"{cap[1][1]}.{cap[2]}" if cap[0] == "attr" and cap[1][0] == "cls" else show(cap))
                    out.append(Event("store", node, ("store", owner, name, val), extra=extra))
                    continue
                if e.kind == "effect" and t[0] == "call" and t[1] in ("getattr", ("global", "getattr")):
                    continue        # a read
                if e.kind == "effect" and t[0] == "call" and isinstance(t[1], tuple) and t[1][0] == "fn" and not t[2] and not t[3]:
                    # a callback handed to the manager: what it does happens here
                    cands = [x for x in model.all_functions() if x.qualname == t[1][1]]
                    if len(cands) == 1 and cands[0].kind == "function":
                        inner = [r for r in PathEnumerator(self.ev).function_paths(cands[0]) if r.exit in ("fall", "return")]
                        if len(inner) == 1:
                            out.append(Event("enter-local", st, ("const", cands[0].name)))
                            out.extend(x for x in inner[0].events)
                            out.append(Event("leave-local", st, ("const", cands[0].name)))
                            continue
                out.append(Event(e.kind, e.node, t, extra=e.extra))
        return out

    def _fold_getattr(self, t: Term) -> Term:
        if t[0] == "call" and t[1] in ("getattr", ("global", "getattr")) and len(t[2]) == 2 and not t[3] and t[2][1][0] == "const" and isinstance(t[2][1][1], str):
            try:
                return self.ev.attr(t[2][0], t[2][1][1], Frame(None, None, {}, None, 0))
            except Exception:
                return ("attr", t[2][0], t[2][1][1])
        return t

    def _local_call(self, st: ast.stmt, p: Path, fr: Frame):
        """``f(...)``, ``x = f(...)`` or ``return f(...)`` where f is a closure defined earlier in this function, or a private helper
        (``self._f``, ``Cls._f``, module-level ``_f``) that resolves statically.  -> (call, def node, FunctionInfo|None, self term, self class)"""
        v = None
        if isinstance(st, (ast.Expr, ast.Return)) and isinstance(st.value, ast.Call):
            v = st.value
        elif isinstance(st, ast.Assign) and len(st.targets) == 1 and isinstance(st.value, ast.Call):
            v = st.value
        elif isinstance(st, ast.AnnAssign) and isinstance(st.value, ast.Call):
            v = st.value
        if v is None:
            return None
        if any(isinstance(a, ast.Starred) for a in v.args) or any(k.arg is None for k in v.keywords):
            return None
        self._unpacking_stmt = isinstance(st, ast.Assign) and len(st.targets) == 1 and isinstance(st.targets[0], (ast.Tuple, ast.List))
        d, info, self_term, self_cls = None, None, None, None
        if isinstance(v.func, ast.Name):
            if p.env.get(v.func.id) == ("localdef", v.func.id) and (fr.fn.qualname, v.func.id) in self.localdefs:
                d = self.localdefs[(fr.fn.qualname, v.func.id)]
            elif v.func.id not in p.env and self.inline_private:
                tgt = self.ev.model.lookup_symbol(fr.module, v.func.id)
                if isinstance(tgt, FunctionInfo) and is_private_helper(tgt):
                    d, info = tgt.node, tgt
                elif isinstance(tgt, FunctionInfo) and tgt.kind == "function" and tgt.module is fr.fn.module and tgt is not fr.fn and self._single_use(tgt, fr):
                    # a function that exists for this one caller is a piece of it (split for readability)
                    d, info = tgt.node, tgt
                elif isinstance(tgt, FunctionInfo) and tgt.kind == "function" and tgt.module is fr.fn.module and tgt is not fr.fn and self._continues_builder(v, tgt, p):
                    # ``add_measurements(result, ...)``: a function of this module that is handed the circuit under construction and adds to it is a
                    # piece of this builder (the steps it adds are steps of the caller)
                    d, info = tgt.node, tgt
                elif isinstance(tgt, FunctionInfo) and tgt.kind == "function" and tgt.module is fr.fn.module and tgt is not fr.fn \
                        and isinstance(st, (ast.Assign, ast.AnnAssign)) and self._extended_here(st, fr):
                    # ``c = other_builder(...)`` followed by ``c.add(...)``: this function continues building what the other one started;
                    # the other builder's steps are part of this one's
                    d, info = tgt.node, tgt
        elif isinstance(v.func, ast.Attribute) and self.inline_private and (_is_helper_name(v.func.attr)
                                                                              or self._single_use_name(v.func.attr, fr) or self._own_helper_name(v, fr)):
            try:
                base = self.ev.expr(v.func.value, self._frame(fr, p))
            except Unsupported:
                return None
            c = self.ev.model.maybe_cls(base[1]) if base[0] == "cls" else self.ev.type_of(base)
            if c is not None:
                fs = c.resolve_all(v.func.attr)
                if len(fs) == 1 and (is_private_helper(fs[0]) or self._single_use(fs[0], fr) or self._own_helper(fs[0], fr)) and "abstractmethod" not in fs[0].decorators:
                    d, info = fs[0].node, fs[0]
                    if info.kind == "method" and base[0] != "cls":
                        self_term, self_cls = base, c
                    elif info.kind == "classmethod":
                        self_term, self_cls = ("cls", c.name), c
                    elif info.kind == "method":
                        return None
                    else:
                        self_cls = c
        if d is None:
            return None
        if info is not None and (info.qualname in self.no_inline or info.qualname in self._inline_stack or info.qualname in self.ev.opaque):
            return None
        if d.decorator_list and info is None:
            return None
        if info is not None and any(x not in ("staticmethod", "classmethod") for x in info.decorators):
            return None
        if d.args.vararg or d.args.kwarg or any(isinstance(n, (ast.Yield, ast.YieldFrom, ast.Nonlocal)) for n in ast.walk(d)):
            return None
        return v, d, info, self_term, self_cls

    def _call_sites(self, name: str) -> int:
        cache = self.ev.model.__dict__.setdefault("_call_site_counts", None)
        if cache is None:
            cache = {}
            for g in self.ev.model.all_functions():
                for n in ast.walk(g.node):
                    if isinstance(n, ast.Call):
                        nm = n.func.attr if isinstance(n.func, ast.Attribute) else (n.func.id if isinstance(n.func, ast.Name) else None)
                        if nm:
                            cache[nm] = cache.get(nm, 0) + 1
                    elif isinstance(n, (ast.Attribute, ast.Name)) and isinstance(getattr(n, "ctx", None), ast.Load):
                        # a bare reference (passed as a callback) counts as a use as well
                        nm = n.attr if isinstance(n, ast.Attribute) else n.id
                        cache["&" + nm] = cache.get("&" + nm, 0) + 1
            self.ev.model._call_site_counts = cache
        return cache.get(name, 0)

    def _helper_def_of(self, call: ast.Call, fr: Frame):
        """the definition a statement-level call of a helper (private or new name) refers to, resolved syntactically"""
        f = call.func
        if isinstance(f, ast.Name) and _is_helper_name(f.id) and fr.fn is not None:
            tgt = self.ev.model.lookup_symbol(fr.module, f.id)
            return tgt.node if isinstance(tgt, FunctionInfo) else None
        if isinstance(f, ast.Attribute) and _is_helper_name(f.attr) and isinstance(f.value, ast.Name) and fr.fn is not None:
            c = None
            if fr.fn.cls is not None and f.value.id in (fr.fn.self_name, "cls"):
                c = fr.self_cls or fr.fn.cls
            else:
                tgt = self.ev.model.lookup_symbol(fr.module, f.value.id)
                c = tgt if tgt is not None and not isinstance(tgt, (FunctionInfo, tuple)) else None
            if c is not None and hasattr(c, "resolve_all"):
                fs = c.resolve_all(f.attr)
                if len(fs) == 1:
                    return fs[0].node
        return None

    def _names_updated_through_helpers(self, stmts, fr: Frame) -> List[str]:
        out: List[str] = []
        for st in stmts:
            for n in ast.walk(st):
                if isinstance(n, ast.Call):
                    d = self._helper_def_of(n, fr)
                    if d is None:
                        continue
                    augs = aug_assigned_params(d)
                    if not augs:
                        continue
                    params = [a.arg for a in d.args.posonlyargs + d.args.args]
                    if params and params[0] in ("self", "cls") and isinstance(n.func, ast.Attribute):
                        params = params[1:]
                    bound = dict(zip(params, n.args))
                    bound.update({k.arg: k.value for k in n.keywords if k.arg})
                    for a in augs:
                        v = bound.get(a)
                        if isinstance(v, ast.Name) and v.id not in out:
                            out.append(v.id)
        return out

    def _resolve_lens(self, c: Term, p: Path, st: ast.stmt, fr: Frame) -> Term:
        """``len(xs)`` of a local list whose elements are fixed on the path so far (a display extended by appends of displays) is that number.
        Not inside a loop that the list was created outside of: there the appends of earlier iterations are not on this body path."""
        lens = subterms(c, lambda x: x[0] == "call" and x[1] == "len" and len(x[2]) == 1 and not x[3] and x[2][0][0] == "var")
        if not lens:
            return c
        fn_node = getattr(fr.fn, "node", None) if fr.fn is not None else None
        if fn_node is None or self._inline_depth > 0:
            return c
        enclosing = [n for n in ast.walk(fn_node) if isinstance(n, (ast.For, ast.While, ast.AsyncFor)) and n.lineno <= st.lineno <= (n.end_lineno or n.lineno)]

        def created_inside_all(var) -> bool:
            ln = var[2] if isinstance(var[2], int) else None
            return ln is not None and all(n.lineno <= ln <= (n.end_lineno or n.lineno) for n in enclosing)
        lens = [t for t in lens if created_inside_all(t[2][0])]
        if not lens:
            return c
        from .listflow import concrete_list
        mp = {}
        for t in lens:
            try:
                items = concrete_list(p, t[2][0])
            except Exception:
                items = None
            if items is not None:
                mp[t] = lin({}, Fraction(len(items)))
        return subst(c, mp) if mp else c

    def _own_helper_name(self, call: ast.Call, fr: Frame) -> bool:
        if not self.own_class_helpers or fr.fn is None or fr.fn.cls is None or self._inline_depth > 0:
            return False
        f = call.func
        if not (isinstance(f.value, ast.Name) and f.value.id == fr.fn.self_name):
            return False
        defs = [g for g in self.ev.model.all_functions() if g.name == f.attr]
        return len(defs) == 1 and self._own_helper(defs[0], fr)

    def _own_helper(self, g: FunctionInfo, fr: Frame) -> bool:
        """a method of the analysed class that is not part of any interface (defined once, never overridden, not inherited) is a piece of that class's
        code: with ``own_class_helpers`` a rule reads ``x = self.g(..)`` as the statements of g"""
        if not self.own_class_helpers or fr.fn is None or g.cls is None or g.cls is not fr.fn.cls or g is fr.fn:
            return False
        if g.name.startswith("__") or g.kind != "method" or "abstractmethod" in g.decorators or g.decorators:
            return False
        if any(g.name in k.methods for k in self.ev.model.subclasses(g.cls)) or any(g.name in k.methods for k in g.cls.mro() if k is not g.cls):
            return False
        return g.qualname not in self.no_inline and g.qualname not in self.ev.opaque

    def _single_use_name(self, name: str, fr: Frame) -> bool:
        if name.startswith("__") or name in ("copy", "add", "construct", "extend", "append", "get", "update"):
            return False
        defs = [g for g in self.ev.model.all_functions() if g.name == name]
        return len(defs) == 1 and self._single_use(defs[0], fr)

    def _single_use(self, g: FunctionInfo, fr: Frame) -> bool:
        """defined once under this name, called at exactly one place in the package (here), never passed around, not part of an interface --
        and its result is taken apart right at the call (``a, b = f(..)``): the decide / apply split of one function"""
        own = fr.fn is not None and ((g.cls is not None and g.cls is fr.fn.cls) or (g.cls is None and g.module is fr.fn.module))
        if not (self._unpacking_stmt or (self.single_use_any and own)):
            return False
        if g.name.startswith("__") or g.kind in ("property", "setter") or "abstractmethod" in g.decorators:
            return False
        if g.cls is not None and any(g.name in k.methods for k in self.ev.model.subclasses(g.cls)):
            return False
        if g.cls is not None and any(g.name in k.methods for k in g.cls.mro() if k is not g.cls):
            return False
        if len([x for x in self.ev.model.all_functions() if x.name == g.name]) != 1:
            return False
        if g.name in API_ITERATORS_NAMES or g.qualname in self.no_inline or g.qualname in self.ev.opaque:
            return False
        calls = self._call_sites(g.name)
        refs = self._call_sites("&" + g.name)
        return calls == 1 and refs <= 1      # the call itself contains one load of the name

    def _continues_builder(self, call: ast.Call, g: FunctionInfo, p: Path) -> bool:
        """the callee's first parameter is a (declarative) circuit, the caller passes a circuit it is building (a local bound to a fresh construction), and
        the callee adds to that parameter"""
        a = g.node.args
        if not a.args or self._inline_depth > 2:
            return False
        first = a.args[0]
        ann = ast.unparse(first.annotation) if first.annotation is not None else ""
        if "DeclarativeCircuit" not in ann:
            return False
        arg0 = call.args[0] if call.args else next((k.value for k in call.keywords if k.arg == first.arg), None)
        if not isinstance(arg0, ast.Name):
            return False
        v = p.env.get(arg0.id)
        if v is None or not (v[0] in ("new", "var", "call") and "DeclarativeCircuit" in show(v)[:60]):
            return False
        for n in ast.walk(g.node):
            if isinstance(n, ast.Call) and isinstance(n.func, ast.Attribute) and n.func.attr in ("add", "add_operation", "add_sub_circuit") \
                    and isinstance(n.func.value, ast.Name) and n.func.value.id == first.arg:
                return True
        return False

    def _extended_here(self, st: ast.stmt, fr: Frame) -> bool:
        tg = st.targets[0] if isinstance(st, ast.Assign) else st.target
        if not isinstance(tg, ast.Name) or fr.fn is None:
            return False
        for n in ast.walk(fr.fn.node):
            if isinstance(n, ast.Call) and isinstance(n.func, ast.Attribute) and n.func.attr in ("add", "add_operation", "add_sub_circuit") \
                    and isinstance(n.func.value, ast.Name) and n.func.value.id == tg.id and n.lineno > st.lineno:
                return True
        return False

    def _inline_local(self, st: ast.stmt, found, p: Path, fr: Frame) -> List[Path]:
        """Run the helper's body in place.  Closure: free variables are read from the environment at the time of the call (late binding);
        private helper: its own parameters only.  Its locals do not leak; its effects are recorded in the order they happen."""
        call, d, info, self_term, self_cls = found
        if self._inline_depth >= 5:
            raise Unsupported("helpers nested too deep")
        f = self._frame(fr, p)
        params = [a.arg for a in d.args.posonlyargs + d.args.args + d.args.kwonlyargs]
        given: Dict[str, Term] = {}
        if info is not None and info.kind in ("method", "classmethod") and params:
            given[params[0]] = self_term
            params = params[1:]
        def arg(name, node):
            v = self.ev.expr(node, f)
            # a container created at the call site is one object inside the helper (keep its identity)
            return ("var", name, getattr(node, "lineno", 0), v) if _fresh_container(v) else v
        arg_nodes: Dict[str, ast.expr] = {}
        for name, a in zip(params, call.args):
            given[name] = arg(name, a)
            arg_nodes[name] = a
        if len(call.args) > len(params):
            raise Unsupported(f"call of {d.name}: too many positional arguments")
        for k in call.keywords:
            given[k.arg] = arg(k.arg, k.value)
            arg_nodes[k.arg] = k.value
        positional = [a.arg for a in (d.args.posonlyargs + d.args.args)]
        defaults = dict(zip(positional[::-1], d.args.defaults[::-1]))
        for a, dv in zip(d.args.kwonlyargs, d.args.kw_defaults):
            if dv is not None:
                defaults[a.arg] = dv
        def_frame = Frame(info, info.module, {}, self_cls, 0) if info is not None else f
        for name in params:
            if name not in given:
                if name not in defaults:
                    raise Unsupported(f"call of helper {d.name}: parameter {name} not bound")
                given[name] = self.ev.expr(defaults[name], def_frame)
        outer = dict(p.env)
        inner_env = dict(p.env) if info is None else {}
        inner_env.update(given)
        if info is not None:
            for a in d.args.posonlyargs + d.args.args + d.args.kwonlyargs:
                t = inner_env.get(a.arg)
                if t is not None and t[0] in ("sym", "attr", "call", "sub", "bound") and self.ev.type_of(t) is None:
                    c = self.ev.ann_class(a.annotation, info.module)
                    if c is not None:
                        self.ev.set_type(t, c)
        q0 = Path(p.cond, list(p.events), inner_env)
        q0.events.append(Event("enter-local", call, ("const", d.name)))
        self._inline_depth += 1
        if info is not None:
            self._inline_stack.append(info.qualname)
        try:
            if info is None:
                body_frame = Frame(fr.fn, fr.module, inner_env, fr.self_cls, fr.depth)
            else:
                body_frame = Frame(info, info.module, inner_env, self_cls or info.cls, fr.depth)
            outs = self.block(self.norm.body(info if info is not None else fr.fn, d, loop_view=self.loop_view, keep=frozenset(self.no_inline)), [q0], body_frame)
        finally:
            self._inline_depth -= 1
            if info is not None:
                self._inline_stack.pop()
        res: List[Path] = []
        for q in outs:
            if q.exit in ("raise",):
                q.env = dict(outer)
                res.append(q)
                continue
            if q.exit not in ("return", "fall"):
                raise Unsupported(f"helper {d.name} leaves with {q.exit}")
            v = q.value if q.exit == "return" and q.value is not None else NONE
            env = dict(outer)
            evs = q.events
            if info is not None:
                for pa in aug_assigned_params(d):
                    an = arg_nodes.get(pa)
                    if isinstance(an, ast.Name) and pa in q.env and an.id in outer:
                        # ``param += x`` updates the caller's object in place: the caller's name denotes the updated value afterwards
                        env[an.id] = q.env[pa]
                        if an.id != pa:
                            evs = [Event(e.kind, e.node, e.term, (an.id,) + tuple(e.extra[1:])) if e.kind == "aug" and e.extra and e.extra[0] == pa and e not in p.events else e for e in evs]
            r = Path(q.cond, evs, env)
            r.events.append(Event("leave-local", call, ("const", d.name)))
            if isinstance(st, ast.Return):
                r.value, r.exit, r.exit_node = v, "return", st
            elif isinstance(st, ast.Expr):
                if v[0] == "call":
                    r.events.append(Event("effect", st, v))
            else:
                tg = st.targets[0] if isinstance(st, ast.Assign) else st.target
                self._assign(tg, v, r, self._frame(fr, r), st)
            res.append(r)
        return res

    def _assign(self, tg: ast.expr, v: Term, p: Path, f: Frame, st: ast.stmt):
        if isinstance(tg, ast.Name):
            if _fresh_container(v):
                # mutable local container: keep its identity (two empty lists are different objects)
                v = ("var", tg.id, st.lineno, v)
            p.env[tg.id] = v
            p.events.append(Event("assign", st, v, extra=tg.id))
            return
        if isinstance(tg, (ast.Tuple, ast.List)):
            parts = self.ev.unpack(v, len(tg.elts)) if not any(isinstance(x, ast.Starred) for x in tg.elts) else None
            if parts is not None:
                for t2, v2 in zip(tg.elts, parts):
                    self._assign(t2, v2, p, f, st)
            else:
                for i, t2 in enumerate(tg.elts):
                    self._assign(t2, ("item", v, i), p, f, st)
            return
        if isinstance(tg, ast.Attribute):
            base = self.ev.expr(tg.value, f)
            p.events.append(Event("store", st, ("store", base, tg.attr, v)))
            if base[0] == "cls":
                # a class attribute rebound on this path is read back as rebound (monkey-patching is path state)
                p.env[f"@{base[1]}.{tg.attr}"] = v
            if isinstance(tg.value, ast.Name) and base[0] == "new":
                # a store on an object constructed in this function updates the constructed value
                flds = dict(base[2])
                flds[tg.attr] = v
                p.env[tg.value.id] = ("new", base[1], tuple(sorted(flds.items())))
            return
        if isinstance(tg, ast.Subscript):
            base = self.ev.expr(tg.value, f)
            idx = self.ev.expr(tg.slice, f) if not isinstance(tg.slice, ast.Slice) else ("const", "slice")
            p.events.append(Event("store", st, ("store", base, ("index", idx), v)))
            if isinstance(tg.value, ast.Name) and base[0] == "var" and base[3][0] == "dict" and idx[0] == "const" \
                    and not any(k == ("star",) for k, _ in base[3][1]):
                # a local dict display updated under a constant key keeps its identity and has that entry
                items = [(k, val) for k, val in base[3][1] if k != idx] + [(idx, v)]
                p.env[tg.value.id] = ("var", base[1], base[2], ("dict", tuple(items)))
            return
        raise Unsupported(f"assignment target {ast.unparse(tg)}")

    def _unrolled(self, st: ast.For, p: Path, fr: Frame) -> List[Path]:
        live, done = [p], []
        for elt in st.iter.elts:
            nxt: List[Path] = []
            for q in live:
                f = self._frame(fr, q)
                v = self.ev.expr(elt, f)
                self._assign(st.target, v, q, f, st)
                for r in self.block(st.body, [q], fr):
                    if r.exit in ("fall", "continue"):
                        r.exit, r.exit_node = "fall", None
                        nxt.append(r)
                    elif r.exit == "break":
                        r.exit, r.exit_node = "fall", None
                        done.append(("brk", r))
                    else:
                        done.append(("out", r))
            live = nxt
        return [r for _, r in done] + live

    def _fluent_rebinding(self, name: str, st, body_paths: List[Path]) -> bool:
        acc = ("loopvar", name, st.lineno)
        changed = False
        for bp in body_paths:
            nv = bp.env.get(name)
            if nv == acc:
                continue
            if not (nv is not None and nv[0] == "call" and isinstance(nv[1], tuple) and nv[1][0] == "attr" and nv[1][1] == acc):
                return False
            c = self.ev.type_of(acc) or self.ev.type_of(self._init_of(name, st)) if self._init_of(name, st) is not None else self.ev.type_of(acc)
            if c is None or not self._returns_self(c, nv[1][2], 0):
                return False
            changed = True
        return changed

    def _init_of(self, name: str, st) -> Optional[Term]:
        return self._cur_env.get(name) if getattr(self, "_cur_env", None) else None

    def _returns_self(self, c, method: str, depth: int) -> bool:
        fs = c.resolve_all(method)
        if len(fs) != 1 or fs[0].kind != "method" or depth > 3:
            return False
        f = fs[0]
        rets = [n for n in ast.walk(f.node) if isinstance(n, ast.Return)]
        if not rets:
            return False
        for r in rets:
            v = r.value
            if isinstance(v, ast.Name) and v.id == f.self_name:
                continue
            if isinstance(v, ast.Call) and isinstance(v.func, ast.Attribute) and isinstance(v.func.value, ast.Name) and v.func.value.id == f.self_name \
                    and self._returns_self(c, v.func.attr, depth + 1):
                continue
            return False
        return True

    def _flag_quantifier(self, name: str, st: ast.For, it: Term, body_paths: List[Path], p: Path, fr: Frame) -> Optional[Term]:
        from .sym import t_or
        init = None
        for e in p.events:
            pass
        init = [e for e in p.events if e.kind == "loop"][-1].extra["init_env"].get(name)
        if init not in (TRUE, FALSE):
            return None
        acc = ("loopvar", name, st.lineno)
        flips = []
        for bp in body_paths:
            if bp.exit not in ("fall", "continue", "break"):
                return None
            nv = bp.env.get(name)
            if nv == acc:
                if bp.exit == "break":
                    return None     # leaving early without deciding the flag: not a plain quantifier
                continue
            if nv != (FALSE if init == TRUE else TRUE):
                return None
            flips.append(bp.cond)
        if not flips:
            return None
        elem = ("bound", "for", st.lineno, show(it))
        cb = ("bound", fr.depth, 0, show(it))
        cond = subst(t_or(*flips) if len(flips) > 1 else flips[0], {elem: cb})
        if subterms(cond, lambda x: x[0] == "loopvar" and x[2] == st.lineno):
            return None
        if init == TRUE:
            return ("quant", "all", ("comp", "gen", t_not(cond), ((it, ()),)))
        return ("quant", "any", ("comp", "gen", cond, ((it, ()),)))

    def _unrolled_terms(self, st: ast.For, items: List[Term], p: Path, fr: Frame) -> List[Path]:
        live, done = [p], []
        for v in items:
            nxt: List[Path] = []
            for q in live:
                f = self._frame(fr, q)
                self._assign(st.target, v, q, f, st)
                for r in self.block(st.body, [q], fr):
                    if r.exit in ("fall", "continue"):
                        r.exit, r.exit_node = "fall", None
                        nxt.append(r)
                    elif r.exit == "break":
                        r.exit, r.exit_node = "fall", None
                        done.append(r)
                    else:
                        done.append(r)
            live = nxt
        return done + live

    def _loop(self, st, p: Path, fr: Frame, it_override: Optional[Term] = None) -> List[Path]:
        ev = self.ev
        if isinstance(st, ast.For) and st.orelse and it_override is None:
            # the else-branch of a loop runs only when the loop was not left by ``break``: read the flag form it abbreviates
            from .normalize import completion_flag_form
            return self.block(completion_flag_form(st), [p], fr)
        f = self._frame(fr, p)
        body_env = dict(p.env)
        self._cur_env = dict(p.env)
        # variables assigned anywhere in the loop are loop-carried: havoc them for the body summary
        assigned = _assigned_names(st.body)
        for n in self._names_updated_through_helpers(st.body, fr):
            if n not in assigned:
                assigned.append(n)
        for n in assigned:
            if n in body_env:
                body_env[n] = ("loopvar", n, st.lineno)
        it: Optional[Term] = None
        if it_override is None and isinstance(st, ast.For) and self.unroll_literal_loops and isinstance(st.iter, (ast.Tuple, ast.List)) and 0 < len(st.iter.elts) <= self.unroll_limit \
                and not any(isinstance(x, ast.Starred) for x in st.iter.elts) and not st.orelse:
            return self._unrolled(st, p, fr)
        if isinstance(st, ast.For):
            it = it_override if it_override is not None else ev.expr(st.iter, f)
            it = _concrete_iter(it, p)
            if self.split_ite and not st.orelse:
                # ``for x in (a if c else b).nodes():`` -- the choice is made once, before the loop: the if-statement it abbreviates
                ites = subterms(it, lambda x: x[0] == "ite")
                if ites and not subterms(ites[0][1], lambda x: x[0] in ("bound", "loopvar")):
                    outp: List[Path] = []
                    for c_, alt in ((ites[0][1], ites[0][2]), (t_not(ites[0][1]), ites[0][3])):
                        q = p.fork(c_)
                        if self.feasible(q.cond):
                            self._assume(q, c_)
                            q.events.append(Event("branch", st, ites[0][1], extra=(c_ == ites[0][1])))
                            outp.extend(self._loop(st, q, fr, it_override=subst(it, {ites[0]: alt})))
                    return outp
            if it[0] == "concat" and not st.orelse:
                # a loop over a chain of iterables is the loops over its parts, one after the other
                live, done = [p], []
                for part in it[1]:
                    nxt: List[Path] = []
                    for q in live:
                        for r in self._loop(st, q, fr, it_override=part):
                            (nxt if r.exit == "fall" else done).append(r)
                    live = nxt
                return done + live
            if self.unroll_literal_loops and it[0] in ("tuple", "list") and not st.orelse and 0 < len(it[1]) <= self.unroll_limit and not any(x[0] == "star" for x in it[1]):
                return self._unrolled_terms(st, list(it[1]), p, fr)
            if self.unroll_literal_loops and it[0] == "var" and not st.orelse:
                # a local list whose elements are fixed on this path (filled by appends of displays): the loop is the straight-line code
                from .listflow import concrete_list
                items = concrete_list(p, it)
                if items is not None and 0 < len(items) <= self.unroll_limit and all(x[0] in ("tuple", "list", "new", "const", "fn", "enum", "lin") for x in items):
                    return self._unrolled_terms(st, items, p, fr)
            mapped = None
            if it[0] == "var" and it[3][0] == "comp" and it[3][1] == "gen":
                it = it[3]      # a generator bound to a local name and consumed by this loop
            if it[0] == "comp" and it[1] == "gen" and len(it[3]) == 1:
                # ``for y in (f(x) for x in D if c)``: range over D, y = f(x), body only where c
                dom, conds = it[3][0]
                cbs = subterms((it[2],) + tuple(conds), lambda x: x[0] == "bound" and isinstance(x[1], int) and x[3] == show(dom))
                if len(cbs) <= 1:
                    mapped = (it[2], tuple(conds), cbs[0] if cbs else None)
                    it = dom
            if mapped is not None and self.unroll_literal_loops and it[0] in ("tuple", "list") and 0 < len(it[1]) <= self.unroll_limit and not st.orelse \
                    and not any(x[0] == "star" for x in it[1]):
                # a filtered / mapped walk over a display: one guarded step per item
                live, done = [p], []
                for item in it[1]:
                    mp_i = {mapped[2]: item} if mapped[2] is not None else {}
                    c_i = t_and(*[subst(c, mp_i) for c in mapped[1]]) if mapped[1] else TRUE
                    v_i = subst(mapped[0], mp_i)
                    nxt: List[Path] = []
                    for q in live:
                        q_yes, q_no = q.fork(c_i), q.fork(t_not(c_i))
                        if self.feasible(q_no.cond) and c_i != TRUE:
                            nxt.append(q_no)
                        if self.feasible(q_yes.cond):
                            self._assign(st.target, v_i, q_yes, self._frame(fr, q_yes), st)
                            for r in self.block(st.body, [q_yes], fr):
                                if r.exit in ("fall", "continue"):
                                    r.exit, r.exit_node = "fall", None
                                    nxt.append(r)
                                elif r.exit == "break":
                                    r.exit, r.exit_node = "fall", None
                                    done.append(r)
                                else:
                                    done.append(r)
                    live = nxt
                return done + live
            bound = ("bound", "for", st.lineno, show(it))
            bf = Frame(fr.fn, fr.module, body_env, fr.self_cls, fr.depth)
            ec = ev.elem_type(it)
            if ec is not None:
                ev.set_type(bound, ec)
            cond0 = TRUE
            if mapped is None:
                ev.bind_target(st.target, bound, bf)
            else:
                mp = {mapped[2]: bound} if mapped[2] is not None else {}
                ev.bind_target(st.target, subst(mapped[0], mp), bf)
                skip_cond = t_not(t_and(*[subst(c, mp) for c in mapped[1]])) if mapped[1] else FALSE
                cond0 = t_and(*[subst(c, mp) for c in mapped[1]]) if mapped[1] else TRUE
        else:
            bf = Frame(fr.fn, fr.module, body_env, fr.self_cls, fr.depth)
            cond0 = ev.expr(st.test, bf)
        start = Path(cond0, [], body_env)
        body_paths = self.block(st.body, [start], Frame(fr.fn, fr.module, body_env, fr.self_cls, fr.depth))
        # ``acc = acc.m(...)`` with m handing back its receiver (fluent style) keeps acc the same object: not loop-carried after all
        stable = [n for n in assigned if n in p.env and self._fluent_rebinding(n, st, body_paths)]
        if stable:
            for n in stable:
                body_env[n] = p.env[n]
            assigned = [n for n in assigned if n not in stable]
            start = Path(cond0, [], body_env)
            body_paths = self.block(st.body, [start], Frame(fr.fn, fr.module, body_env, fr.self_cls, fr.depth))
            for bp in body_paths:
                for n in stable:
                    bp.env[n] = p.env[n]
        if isinstance(st, ast.For) and mapped is not None and mapped[1] and self.feasible(skip_cond):
            body_paths.append(Path(skip_cond, [], dict(body_env)))      # elements the generator filters out: body not run
        p.events.append(Event("loop", st, it, extra=dict(paths=body_paths, init_env=dict(p.env), assigned=assigned,
                                                          test=cond0 if isinstance(st, ast.While) else None,
                                                          mapped_elt=(subst(mapped[0], {mapped[2]: bound} if mapped[2] is not None else {})
                                                                      if isinstance(st, ast.For) and mapped is not None else None))))
        # after the loop: loop-carried variables are unknown ...
        for n in assigned:
            p.env[n] = ("after", n, st.lineno)
        # ... except a boolean flag that only ever flips one way: ``ok = True; for e in D: if bad(e): ok = False [; break]`` is all(not bad(e) for e in D)
        if isinstance(st, ast.For) and it is not None and (not isinstance(st, ast.For) or mapped is None):
            for n in assigned:
                q = self._flag_quantifier(n, st, it, body_paths, p, fr)
                if q is not None:
                    p.env[n] = q
        outs = [p]
        # a return/raise inside the loop body is a possible exit of the enclosing function
        for bp in body_paths:
            if bp.exit in ("return", "raise"):
                q = p.fork(TRUE)
                q.events.append(Event("loopexit", bp.exit_node or st, bp.cond))
                q.exit, q.value, q.exit_node = bp.exit, bp.value, bp.exit_node
                outs.append(q)
        if st.orelse:
            outs = [x for x in outs if x.exit != "fall"] + self.block(st.orelse, [x for x in outs if x.exit == "fall"], fr)
        return outs


def _concrete_iter(it: Term, p: Optional[Path] = None) -> Term:
    """``reversed`` / ``zip`` / ``list`` / ``tuple`` of displays of known length are the display they produce (so that a loop over them unrolls).
    A local list counts only with the elements it holds on the path so far (it may have been filled by appends)."""
    def plain(x):
        if x[0] == "var" and len(x) > 3 and isinstance(x[3], tuple):
            if p is None:
                return ("opaque",)
            from .listflow import concrete_list
            try:
                items = concrete_list(p, x)
            except Exception:
                items = None
            if items is None:
                return ("opaque",)
            return ("list", tuple(items))
        return x
    t = it
    if t[0] == "call" and t[1] in ("reversed", "zip", "list", "tuple") and t[2] and not t[3]:
        args = [plain(_concrete_iter(a, p)) for a in t[2]]
        if all(a[0] in ("list", "tuple") and not any(x[0] == "star" for x in a[1]) for a in args):
            if t[1] == "reversed" and len(args) == 1:
                return ("list", tuple(reversed(args[0][1])))
            if t[1] in ("list", "tuple") and len(args) == 1:
                return (t[1], tuple(args[0][1]))
            if t[1] == "zip" and len({len(a[1]) for a in args}) == 1:
                return ("list", tuple(("tuple", tuple(a[1][i] for a in args)) for i in range(len(args[0][1]))))
    return it


def _fresh_container(v: Term) -> bool:
    if v[0] in ("list", "dict", "set", "comp", "dictcomp"):
        return True
    if v[0] == "call" and v[1] in ("set", "list", "dict", "OrderedDict", "defaultdict", "deque"):
        return True
    return False


_IMMUTABLE_ANN = ("int", "float", "str", "bool", "bytes", "tuple", "Tuple", "frozenset", "complex")


def aug_assigned_params(d: ast.FunctionDef) -> List[str]:
    """parameters that the function updates with an augmented assignment (``param += x``): for objects with an in-place ``__iadd__`` (lists, arrays,
    stim circuits ...) the caller's object is changed; parameters annotated with an immutable builtin are excluded"""
    params = {a.arg: a for a in d.args.posonlyargs + d.args.args + d.args.kwonlyargs}
    out: List[str] = []
    for n in ast.walk(d):
        if isinstance(n, ast.AugAssign) and isinstance(n.target, ast.Name) and n.target.id in params and n.target.id not in out:
            ann = params[n.target.id].annotation
            txt = ast.unparse(ann) if ann is not None else ""
            if txt.split("[")[0].split(".")[-1] in _IMMUTABLE_ANN:
                continue
            # rebinding by a plain assignment anywhere makes it a local, not the caller's object
            if any(isinstance(m, ast.Assign) and any(isinstance(t, ast.Name) and t.id == n.target.id for t in m.targets) for m in ast.walk(d)):
                continue
            out.append(n.target.id)
    return out


def _assigned_names(stmts: Sequence[ast.stmt]) -> List[str]:
    out: List[str] = []
    for st in stmts:
        for n in ast.walk(st):
            if isinstance(n, (ast.FunctionDef, ast.Lambda)):
                continue
            tg = []
            if isinstance(n, ast.Assign):
                tg = n.targets
            elif isinstance(n, (ast.AnnAssign, ast.AugAssign)):
                tg = [n.target]
            elif isinstance(n, ast.For):
                tg = [n.target]
            for t in tg:
                for nm in _target_names(t):
                    if nm not in out:
                        out.append(nm)
    return out


def _target_names(t: ast.expr) -> List[str]:
    if isinstance(t, ast.Name):
        return [t.id]
    if isinstance(t, (ast.Tuple, ast.List)):
        return [n for e in t.elts for n in _target_names(e)]
    if isinstance(t, ast.Starred):
        return _target_names(t.value)
    return []  # attribute / subscript stores do not rebind a local name


def loop_events(path: Path) -> List[Event]:
    return [e for e in path.events if e.kind == "loop"]
