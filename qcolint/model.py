"""E1 -- source model: modules, imports, classes (MRO, dataclass metadata), functions.

The model is built from the *current* working tree on every run; nothing is cached.
"""
from __future__ import annotations

import ast
import os
from dataclasses import dataclass, field
from typing import Dict, Iterator, List, Optional, Tuple, Union


class AnalysisError(Exception):
    """The checker cannot decide: anchor vanished, floor not reached, code outside the supported fragment."""


PKG = "qce_circuit"


def default_src_root() -> str:
    """Directory that contains the ``qce_circuit`` package to analyse."""
    env = os.environ.get("QCOLINT_SRC")
    if env:
        return env
    return "/repo/src"


# --------------------------------------------------------------------------------------
@dataclass
class FieldInfo:
    name: str
    annotation: Optional[ast.expr]
    node: ast.stmt
    owner: "ClassInfo"
    init: bool = True
    compare: bool = True
    hash: Optional[bool] = None
    repr: bool = True
    default: Optional[ast.expr] = None
    default_factory: Optional[ast.expr] = None
    is_classvar: bool = False

    @property
    def has_default(self) -> bool:
        return self.default is not None or self.default_factory is not None

    @property
    def lineno(self) -> int:
        return self.node.lineno


@dataclass
class FunctionInfo:
    name: str
    node: Union[ast.FunctionDef, ast.AsyncFunctionDef]
    module: "ModuleInfo"
    cls: Optional["ClassInfo"] = None
    kind: str = "function"  # function | method | property | setter | staticmethod | classmethod
    decorators: List[str] = field(default_factory=list)

    @property
    def qualname(self) -> str:
        if self.cls is not None:
            suffix = ".setter" if self.kind == "setter" else ""
            return f"{self.cls.name}.{self.name}{suffix}"
        return f"{self.module.short}.{self.name}"

    @property
    def lineno(self) -> int:
        return self.node.lineno

    @property
    def loc(self) -> str:
        return f"{self.module.relpath}:{self.node.lineno}"

    @property
    def params(self) -> List[ast.arg]:
        a = self.node.args
        return list(a.posonlyargs) + list(a.args) + list(a.kwonlyargs)

    @property
    def param_names(self) -> List[str]:
        return [p.arg for p in self.params]

    @property
    def self_name(self) -> Optional[str]:
        if self.cls is None or self.kind == "staticmethod":
            return None
        ps = self.node.args.posonlyargs + self.node.args.args
        return ps[0].arg if ps else None

    @property
    def body(self) -> List[ast.stmt]:
        """Body without a leading docstring."""
        b = list(self.node.body)
        if b and isinstance(b[0], ast.Expr) and isinstance(b[0].value, ast.Constant) and isinstance(b[0].value.value, str):
            b = b[1:]
        return b

    def __hash__(self):
        return id(self)

    def __eq__(self, other):
        return self is other

    def __repr__(self):
        return f"<fn {self.qualname} @{self.loc}>"


@dataclass
class ClassInfo:
    name: str
    node: ast.ClassDef
    module: "ModuleInfo"
    base_exprs: List[ast.expr] = field(default_factory=list)
    bases: List[Union["ClassInfo", str]] = field(default_factory=list)
    decorators: List[str] = field(default_factory=list)
    dataclass_params: Optional[Dict[str, object]] = None  # None = not a dataclass
    own_fields: Dict[str, FieldInfo] = field(default_factory=dict)
    methods: Dict[str, List[FunctionInfo]] = field(default_factory=dict)  # all defs incl. dispatch overloads
    properties: Dict[str, FunctionInfo] = field(default_factory=dict)
    setters: Dict[str, FunctionInfo] = field(default_factory=dict)
    class_attrs: Dict[str, ast.expr] = field(default_factory=dict)
    _mro: Optional[List["ClassInfo"]] = None

    def __hash__(self):
        return id(self)

    def __eq__(self, other):
        return self is other

    def __repr__(self):
        return f"<class {self.name}>"

    @property
    def loc(self) -> str:
        return f"{self.module.relpath}:{self.node.lineno}"

    @property
    def is_dataclass(self) -> bool:
        return self.dataclass_params is not None

    def dc_param(self, key: str, default=False):
        if self.dataclass_params is None:
            return default
        return self.dataclass_params.get(key, default)

    # -- hierarchy ---------------------------------------------------------------------
    def mro(self) -> List["ClassInfo"]:
        if self._mro is None:
            self._mro = _c3(self)
        return self._mro

    def is_subclass_of(self, other: Union["ClassInfo", str]) -> bool:
        for c in self.mro():
            if c is other or (isinstance(other, str) and c.name == other):
                return True
        if isinstance(other, str):
            return other in self.external_bases()
        return False

    def external_bases(self) -> List[str]:
        out = []
        for c in self.mro():
            for b in c.bases:
                if isinstance(b, str):
                    out.append(b)
        return out

    # -- members -----------------------------------------------------------------------
    def own_function(self, name: str) -> Optional[FunctionInfo]:
        fs = self.methods.get(name)
        return fs[0] if fs else None

    def resolve(self, name: str) -> Optional[FunctionInfo]:
        """MRO-resolved method or property getter."""
        for c in self.mro():
            if name in c.properties:
                return c.properties[name]
            if name in c.methods:
                return c.methods[name][0]
            if name in c.own_fields or name in c.class_attrs:
                return None
        return None

    def resolve_all(self, name: str) -> List[FunctionInfo]:
        for c in self.mro():
            if name in c.properties:
                return [c.properties[name]]
            if name in c.methods:
                return list(c.methods[name])
        return []

    def resolve_setter(self, name: str) -> Optional[FunctionInfo]:
        for c in self.mro():
            if name in c.setters:
                return c.setters[name]
            if name in c.properties:
                return None
        return None

    def is_property(self, name: str) -> bool:
        for c in self.mro():
            if name in c.properties:
                return True
            if name in c.methods or name in c.own_fields:
                return False
        return False

    def all_fields(self) -> Dict[str, FieldInfo]:
        """Dataclass fields in dataclass order (base classes first, redefinition keeps position)."""
        out: Dict[str, FieldInfo] = {}
        for c in reversed(self.mro()):
            if not c.is_dataclass:
                continue
            for n, f in c.own_fields.items():
                if f.is_classvar:
                    continue
                out[n] = f  # dict keeps original insertion position on overwrite
        return out

    def find_field(self, name: str) -> Optional[FieldInfo]:
        for c in self.mro():
            if name in c.own_fields:
                return c.own_fields[name]
        return None

    def is_abstract(self) -> bool:
        """A class is abstract when some MRO-resolved member is still decorated @abstractmethod."""
        seen = set()
        for c in self.mro():
            for n, fs in list(c.methods.items()) + [(k, [v]) for k, v in c.properties.items()]:
                if n in seen:
                    continue
                seen.add(n)
                if any("abstractmethod" in f.decorators for f in fs):
                    return True
        return False

    def explicit_dunder(self, name: str) -> Optional[FunctionInfo]:
        """Explicit definition of a dunder in this class body only."""
        fs = self.methods.get(name)
        return fs[0] if fs else None


def _c3(cls: ClassInfo) -> List[ClassInfo]:
    def merge(seqs: List[List[ClassInfo]]) -> List[ClassInfo]:
        res: List[ClassInfo] = []
        seqs = [list(s) for s in seqs if s]
        while seqs:
            for s in seqs:
                cand = s[0]
                if not any(cand in t[1:] for t in seqs):
                    break
            else:
                raise AnalysisError(f"inconsistent MRO for {cls.name}")
            res.append(cand)
            seqs = [[x for x in s if x is not cand] for s in seqs]
            seqs = [s for s in seqs if s]
        return res

    internal = [b for b in cls.bases if isinstance(b, ClassInfo)]
    return [cls] + merge([b.mro() for b in internal] + [internal])


@dataclass
class ModuleInfo:
    name: str
    path: str
    relpath: str
    tree: ast.Module
    source: str
    imports: Dict[str, Tuple[str, Optional[str]]] = field(default_factory=dict)
    classes: Dict[str, ClassInfo] = field(default_factory=dict)
    functions: Dict[str, FunctionInfo] = field(default_factory=dict)
    assigns: Dict[str, ast.expr] = field(default_factory=dict)
    sub_assigns: Dict[str, list] = field(default_factory=dict)   # module-level ``NAME[key] = value`` after the definition, in order
    rebound: set = field(default_factory=set)   # module-level names that are STATE: declared ``global`` in a function, or changed in place by one

    @property
    def short(self) -> str:
        return self.name.split(".")[-1]

    def __hash__(self):
        return id(self)

    def __eq__(self, other):
        return self is other


# --------------------------------------------------------------------------------------
def _load_vocabulary() -> frozenset:
    path = os.path.join(os.path.dirname(os.path.abspath(__file__)), "vocabulary.txt")
    try:
        with open(path) as fh:
            return frozenset(ln.strip() for ln in fh if ln.strip())
    except OSError:
        return frozenset()


# names of the functions / methods that existed when the rules were written (the vocabulary the rules may name as atoms).  A function under a name
# that is NOT in this list is new code -- typically a helper extracted by a refactoring -- and is read in place, exactly like a ``_private`` helper.
KNOWN_FUNCTION_NAMES = _load_vocabulary()


def is_helper_name(name: str) -> bool:
    """a name the rules cannot have been written against: ``_private`` or not in the vocabulary"""
    if name.startswith("__"):
        return False
    if name.startswith("_"):
        return True
    return bool(KNOWN_FUNCTION_NAMES) and name not in KNOWN_FUNCTION_NAMES


def dotted(node: ast.AST) -> Optional[str]:
    """``a.b.c`` for Name/Attribute chains, else None."""
    parts = []
    while isinstance(node, ast.Attribute):
        parts.append(node.attr)
        node = node.value
    if isinstance(node, ast.Name):
        parts.append(node.id)
        return ".".join(reversed(parts))
    return None


def deco_name(d: ast.expr) -> str:
    if isinstance(d, ast.Call):
        d = d.func
    return dotted(d) or ast.dump(d)


def is_main_guard(stmt: ast.stmt) -> bool:
    if not isinstance(stmt, ast.If):
        return False
    t = stmt.test
    return (isinstance(t, ast.Compare) and isinstance(t.left, ast.Name) and t.left.id == "__name__"
            and len(t.comparators) == 1 and isinstance(t.comparators[0], ast.Constant)
            and t.comparators[0].value == "__main__")


def strip_subscript(e: ast.expr) -> ast.expr:
    while isinstance(e, ast.Subscript):
        e = e.value
    return e


class Model:
    """All modules of the package under ``src_root``."""

    def __init__(self, src_root: Optional[str] = None):
        self.src_root = src_root or default_src_root()
        self.pkg_root = os.path.join(self.src_root, PKG)
        if not os.path.isdir(self.pkg_root):
            raise AnalysisError(f"package directory not found: {self.pkg_root}")
        self.modules: Dict[str, ModuleInfo] = {}
        self.classes_by_name: Dict[str, List[ClassInfo]] = {}
        self._load()
        self._link()

    # ------------------------------------------------------------------------------
    def _load(self):
        for dirpath, dirnames, filenames in os.walk(self.pkg_root):
            dirnames[:] = sorted(d for d in dirnames if d != "__pycache__")
            for fn in sorted(filenames):
                if not fn.endswith(".py"):
                    continue
                path = os.path.join(dirpath, fn)
                rel = os.path.relpath(path, self.src_root)
                modname = rel[:-3].replace(os.sep, ".")
                if modname.endswith(".__init__"):
                    modname = modname[: -len(".__init__")]
                with open(path, "r", encoding="utf-8") as fh:
                    src = fh.read()
                try:
                    tree = ast.parse(src, filename=path)
                except SyntaxError as e:
                    raise AnalysisError(f"cannot parse {rel}: {e}")
                m = ModuleInfo(name=modname, path=path, relpath=os.path.join("src", rel), tree=tree, source=src)
                self.modules[modname] = m
                self._scan_module(m, is_pkg=fn == "__init__.py")

    def _scan_module(self, m: ModuleInfo, is_pkg: bool):
        for stmt in m.tree.body:
            if is_main_guard(stmt):
                continue
            self._scan_stmt(m, stmt, is_pkg)
        # module-level names that functions rebind or change in place are state, not constants
        mutators = {"append", "extend", "insert", "remove", "pop", "clear", "update", "add", "discard", "setdefault", "popitem", "sort", "reverse"}
        for fn in ast.walk(m.tree):
            if not isinstance(fn, (ast.FunctionDef, ast.AsyncFunctionDef)):
                continue
            local = {a.arg for a in fn.args.args + fn.args.kwonlyargs + fn.args.posonlyargs}
            globs = set()
            for n in ast.walk(fn):
                if isinstance(n, ast.Global):
                    globs.update(n.names)
                elif isinstance(n, (ast.Assign, ast.AnnAssign, ast.For, ast.withitem, ast.comprehension, ast.NamedExpr)):
                    tg = getattr(n, "targets", None) or [getattr(n, "target", None) or getattr(n, "optional_vars", None)]
                    for t in tg:
                        if t is not None:
                            local.update(x.id for x in ast.walk(t) if isinstance(x, ast.Name) and isinstance(x.ctx, ast.Store))
            m.rebound.update(g for g in globs if g in m.assigns)
            for n in ast.walk(fn):
                nm = None
                if isinstance(n, ast.Call) and isinstance(n.func, ast.Attribute) and n.func.attr in mutators and isinstance(n.func.value, ast.Name):
                    nm = n.func.value.id
                elif isinstance(n, (ast.Assign, ast.AugAssign, ast.Delete)):
                    for t in (n.targets if isinstance(n, (ast.Assign, ast.Delete)) else [n.target]):
                        if isinstance(t, ast.Subscript) and isinstance(t.value, ast.Name):
                            nm = t.value.id
                if nm is not None and nm in m.assigns and (nm not in local or nm in globs):
                    m.rebound.add(nm)

    def _scan_stmt(self, m: ModuleInfo, stmt: ast.stmt, is_pkg: bool):
        if isinstance(stmt, ast.Import):
            for a in stmt.names:
                m.imports[a.asname or a.name.split(".")[0]] = (a.name, None)
        elif isinstance(stmt, ast.ImportFrom):
            base = stmt.module or ""
            if stmt.level:
                parts = m.name.split(".")
                if not is_pkg:
                    parts = parts[:-1]
                parts = parts[: len(parts) - (stmt.level - 1)]
                base = ".".join(parts + ([stmt.module] if stmt.module else []))
            for a in stmt.names:
                m.imports[a.asname or a.name] = (base, a.name)
        elif isinstance(stmt, ast.ClassDef):
            m.classes[stmt.name] = self._scan_class(m, stmt)
        elif isinstance(stmt, (ast.FunctionDef, ast.AsyncFunctionDef)):
            m.functions[stmt.name] = FunctionInfo(name=stmt.name, node=stmt, module=m,
                                                  decorators=[deco_name(d) for d in stmt.decorator_list])
        elif isinstance(stmt, ast.Assign):
            for t in stmt.targets:
                if isinstance(t, ast.Name):
                    m.assigns[t.id] = stmt.value
                elif isinstance(t, ast.Subscript) and isinstance(t.value, ast.Name) and t.value.id in m.assigns:
                    m.sub_assigns.setdefault(t.value.id, []).append((t.slice, stmt.value))
        elif isinstance(stmt, ast.AnnAssign) and isinstance(stmt.target, ast.Name) and stmt.value is not None:
            m.assigns[stmt.target.id] = stmt.value
        elif isinstance(stmt, (ast.If, ast.Try)):
            # e.g. optional imports: scan both arms for definitions
            for sub in ast.iter_child_nodes(stmt):
                if isinstance(sub, ast.stmt):
                    self._scan_stmt(m, sub, is_pkg)
                elif isinstance(sub, ast.ExceptHandler):
                    for s2 in sub.body:
                        self._scan_stmt(m, s2, is_pkg)

    def _scan_class(self, m: ModuleInfo, node: ast.ClassDef) -> ClassInfo:
        c = ClassInfo(name=node.name, node=node, module=m, base_exprs=list(node.bases),
                      decorators=[deco_name(d) for d in node.decorator_list])
        for d in node.decorator_list:
            if deco_name(d) in ("dataclass", "dataclasses.dataclass"):
                params: Dict[str, object] = {}
                if isinstance(d, ast.Call):
                    for kw in d.keywords:
                        if kw.arg and isinstance(kw.value, ast.Constant):
                            params[kw.arg] = kw.value.value
                        elif kw.arg:
                            params[kw.arg] = ast.unparse(kw.value)
                c.dataclass_params = params
        for stmt in node.body:
            if isinstance(stmt, (ast.FunctionDef, ast.AsyncFunctionDef)):
                decos = [deco_name(d) for d in stmt.decorator_list]
                f = FunctionInfo(name=stmt.name, node=stmt, module=m, cls=c, kind="method", decorators=decos)
                if "property" in decos or "cached_property" in decos or "functools.cached_property" in decos:
                    f.kind = "property"
                    c.properties[stmt.name] = f
                    continue
                if any(d.endswith(".setter") for d in decos):
                    f.kind = "setter"
                    c.setters[stmt.name] = f
                    continue
                if any(d.endswith(".getter") or d.endswith(".deleter") for d in decos):
                    continue
                if "staticmethod" in decos:
                    f.kind = "staticmethod"
                elif "classmethod" in decos:
                    f.kind = "classmethod"
                c.methods.setdefault(stmt.name, []).append(f)
            elif isinstance(stmt, ast.AnnAssign) and isinstance(stmt.target, ast.Name):
                fi = FieldInfo(name=stmt.target.id, annotation=stmt.annotation, node=stmt, owner=c)
                ann = ast.unparse(stmt.annotation)
                if ann.startswith("ClassVar") or ann.startswith("typing.ClassVar"):
                    fi.is_classvar = True
                v = stmt.value
                if isinstance(v, ast.Call) and deco_name(v) in ("field", "dataclasses.field"):
                    for kw in v.keywords:
                        if kw.arg in ("init", "compare", "repr", "hash") and isinstance(kw.value, ast.Constant):
                            setattr(fi, kw.arg, kw.value.value)
                        elif kw.arg == "default":
                            fi.default = kw.value
                        elif kw.arg == "default_factory":
                            fi.default_factory = kw.value
                elif v is not None:
                    fi.default = v
                c.own_fields[fi.name] = fi
                if v is not None:
                    c.class_attrs[fi.name] = v
            elif isinstance(stmt, ast.Assign):
                for t in stmt.targets:
                    if isinstance(t, ast.Name):
                        c.class_attrs[t.id] = stmt.value
                # ``name = property(fget=_get, fset=_set)``: the call form of the decorators
                v = stmt.value
                if isinstance(v, ast.Call) and isinstance(v.func, ast.Name) and v.func.id == "property" and len(stmt.targets) == 1 and isinstance(stmt.targets[0], ast.Name):
                    kw = {k.arg: k.value for k in v.keywords if k.arg}
                    fget = kw.get("fget", v.args[0] if len(v.args) > 0 else None)
                    fset = kw.get("fset", v.args[1] if len(v.args) > 1 else None)
                    pname = stmt.targets[0].id
                    if isinstance(fget, ast.Name) and fget.id in c.methods:
                        g = c.methods[fget.id][0]
                        pf = FunctionInfo(name=pname, node=g.node, module=m, cls=c, kind="property", decorators=list(g.decorators) + ["property"])
                        c.properties[pname] = pf
                        c.class_attrs.pop(pname, None)
                    if isinstance(fset, ast.Name) and fset.id in c.methods:
                        g = c.methods[fset.id][0]
                        g.kind = "setter"        # its writes count where the property is assigned (like a decorated setter)
                        c.setters[pname] = FunctionInfo(name=pname, node=g.node, module=m, cls=c, kind="setter", decorators=list(g.decorators) + [pname + ".setter"])
        return c

    def _link(self):
        for m in self.modules.values():
            for c in m.classes.values():
                self.classes_by_name.setdefault(c.name, []).append(c)
        for m in self.modules.values():
            for c in m.classes.values():
                for b in c.base_exprs:
                    b0 = strip_subscript(b)
                    name = dotted(b0)
                    target = self.lookup_symbol(m, name) if name else None
                    if isinstance(target, ClassInfo):
                        c.bases.append(target)
                    else:
                        c.bases.append(name or ast.unparse(b))

    # ------------------------------------------------------------------------------
    def lookup_symbol(self, m: ModuleInfo, name: str, _depth: int = 0):
        """Resolve a (possibly dotted) name in module scope to ClassInfo / FunctionInfo / ('const', expr, module) / None."""
        if name is None or _depth > 8:
            return None
        head, _, rest = name.partition(".")
        obj = None
        if head in m.classes:
            obj = m.classes[head]
        elif head in m.functions:
            obj = m.functions[head]
        elif head in m.assigns:
            obj = ("const", m.assigns[head], m)
        elif head in m.imports:
            mod, sym = m.imports[head]
            if sym is None:
                # plain ``import x.y as z``
                tm = self.modules.get(mod)
                if tm is not None and rest:
                    return self.lookup_symbol(tm, rest, _depth + 1)
                return None
            tm = self.modules.get(mod)
            if tm is not None:
                obj = self.lookup_symbol(tm, sym, _depth + 1)
            if tm is not None and obj is not None:
                pass
            elif mod + "." + sym in self.modules:
                # ``from package import submodule`` (the package's __init__ need not name it)
                tm2 = self.modules[mod + "." + sym]
                if rest:
                    return self.lookup_symbol(tm2, rest, _depth + 1)
                return None
            else:
                return None
        if obj is None:
            return None
        if rest:
            if isinstance(obj, ClassInfo):
                # Class.member
                first, _, more = rest.partition(".")
                if more:
                    return None
                for c in obj.mro():
                    if first in c.methods:
                        return c.methods[first][0]
                    if first in c.properties:
                        return c.properties[first]
                    if first in c.class_attrs:
                        return ("classattr", c, first)
                return None
            return None
        return obj

    # -- convenient accessors (raise AnalysisError: a vanished anchor is never a silent pass) --
    def module(self, suffix: str) -> ModuleInfo:
        hits = [m for n, m in self.modules.items() if n == suffix or n.endswith("." + suffix)]
        if len(hits) != 1:
            raise AnalysisError(f"anchor module '{suffix}' not found (matches: {len(hits)})")
        return hits[0]

    def cls(self, name: str, module_suffix: Optional[str] = None) -> ClassInfo:
        hits = self.classes_by_name.get(name, [])
        if module_suffix is not None:
            hits = [c for c in hits if c.module.name.endswith(module_suffix)]
        if len(hits) != 1:
            raise AnalysisError(f"anchor class '{name}' not found or ambiguous (matches: {len(hits)})")
        return hits[0]

    def maybe_cls(self, name: str) -> Optional[ClassInfo]:
        hits = self.classes_by_name.get(name, [])
        return hits[0] if len(hits) == 1 else None

    def method(self, cls_name: str, name: str, own: bool = False) -> FunctionInfo:
        c = self.cls(cls_name)
        f = c.own_function(name) if own else c.resolve(name)
        if own and f is None:
            f = c.properties.get(name)
        if f is None:
            raise AnalysisError(f"anchor function '{cls_name}.{name}' not found")
        return f

    def function(self, module_suffix: str, name: str) -> FunctionInfo:
        m = self.module(module_suffix)
        f = m.functions.get(name)
        if f is None:
            raise AnalysisError(f"anchor function '{module_suffix}.{name}' not found")
        return f

    def all_classes(self) -> Iterator[ClassInfo]:
        for m in self.modules.values():
            yield from m.classes.values()

    def all_functions(self) -> Iterator[FunctionInfo]:
        for m in self.modules.values():
            yield from m.functions.values()
            for c in m.classes.values():
                for fs in c.methods.values():
                    yield from fs
                yield from c.properties.values()
                yield from c.setters.values()

    def subclasses(self, base: Union[ClassInfo, str], concrete_only: bool = False) -> List[ClassInfo]:
        out = []
        for c in self.all_classes():
            if c is base:
                continue
            if c.is_subclass_of(base):
                if concrete_only and c.is_abstract():
                    continue
                out.append(c)
        return sorted(out, key=lambda c: (c.module.name, c.node.lineno))
