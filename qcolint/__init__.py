"""qcolint -- repository-specific static analysis for MiniSean/QCoCircuits.

Pure standard library (``ast``).  Nothing in this package imports or executes
``qce_circuit``; every verdict is derived from the parsed source of
``/repo/src/qce_circuit`` (or of the directory named by ``QCOLINT_SRC``).
"""

__all__ = ["model", "sym", "report"]
