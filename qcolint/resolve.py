"""E2 -- annotation-driven resolver and call graph.

Types come from annotations (parameters, annotated locals, dataclass fields, ``self.x: T = ...`` in ``__init__``,
return annotations, element types of ``List[T]`` / ``Iterator[T]`` / ``Optional[T]``), constructor calls and
``self``/``cls``.  A call on an interface-typed receiver resolves, by class-hierarchy analysis, to every override
in the receiver's subclasses.  Property reads are call edges.  Unknown stays unknown (counted, never assumed fine).
"""
from __future__ import annotations

import ast
from typing import Dict, Iterable, List, Optional, Set, Tuple, Union

from .model import ClassInfo, FunctionInfo, Model, ModuleInfo, dotted, is_main_guard

ELEM_HEADS = ("List", "Iterator", "Iterable", "Sequence", "list", "Set", "FrozenSet", "Tuple", "Generator", "Collection")


class Ty:
    """A (possibly element-typed) class type."""
    __slots__ = ("cls", "elem", "is_class_obj")

    def __init__(self, cls: Optional[ClassInfo] = None, elem: Optional["Ty"] = None, is_class_obj: bool = False):
        self.cls, self.elem, self.is_class_obj = cls, elem, is_class_obj

    def __repr__(self):
        if self.elem is not None:
            return f"[{self.elem!r}]"
        return ("type:" if self.is_class_obj else "") + (self.cls.name if self.cls else "?")


class Resolver:
    def __init__(self, model: Model):
        self.model = model
        self._init_attrs: Dict[ClassInfo, Dict[str, Ty]] = {}
        self._subs: Dict[ClassInfo, List[ClassInfo]] = {}
        self.stats = dict(calls=0, resolved=0, external=0, unresolved=0)

    # -- annotations -----------------------------------------------------------------------------
    def ann(self, a: Optional[ast.expr], module: ModuleInfo) -> Optional[Ty]:
        if a is None:
            return None
        if isinstance(a, ast.Constant) and isinstance(a.value, str):
            try:
                a = ast.parse(a.value, mode="eval").body
            except SyntaxError:
                return None
        if isinstance(a, ast.Subscript):
            head = (dotted(a.value) or "").split(".")[-1]
            sl = a.slice
            if head == "Optional":
                return self.ann(sl, module)
            if head == "Union" and isinstance(sl, ast.Tuple):
                for e in sl.elts:
                    t = self.ann(e, module)
                    if t is not None:
                        return t
                return None
            if head in ELEM_HEADS:
                if isinstance(sl, ast.Tuple) and sl.elts:
                    sl = sl.elts[0]
                e = self.ann(sl, module)
                return Ty(elem=e if e is not None else Ty())
            if head in ("Dict", "dict"):
                return None
            if head in ("Type",):
                t = self.ann(sl, module)
                return Ty(t.cls, is_class_obj=True) if t and t.cls else None
            return self.ann(a.value, module)
        name = dotted(a)
        if not name:
            return None
        tgt = self.model.lookup_symbol(module, name)
        if isinstance(tgt, ClassInfo):
            return Ty(tgt)
        if isinstance(tgt, tuple) and tgt[0] == "const" and isinstance(tgt[1], ast.Call) and dotted(tgt[1].func) in ("TypeVar", "typing.TypeVar"):
            for kw in tgt[1].keywords:
                if kw.arg == "bound":
                    return self.ann(kw.value, tgt[2])
        return None

    def init_attrs(self, c: ClassInfo) -> Dict[str, Ty]:
        """Attributes annotated in __init__ bodies along the MRO (``self.x: T = ...``)."""
        if c in self._init_attrs:
            return self._init_attrs[c]
        out: Dict[str, Ty] = {}
        for k in reversed(c.mro()):
            init = k.own_function("__init__")
            if init is None:
                continue
            sn = init.self_name
            penv = {p.arg: self.ann(p.annotation, k.module) for p in init.params}
            for n in ast.walk(init.node):
                if isinstance(n, ast.AnnAssign) and isinstance(n.target, ast.Attribute) and isinstance(n.target.value, ast.Name) \
                        and n.target.value.id == sn:
                    t = self.ann(n.annotation, k.module)
                    if t is not None:
                        out[n.target.attr] = t
                elif isinstance(n, ast.Assign):
                    for tg in n.targets:
                        if isinstance(tg, ast.Attribute) and isinstance(tg.value, ast.Name) and tg.value.id == sn \
                                and isinstance(n.value, ast.Name) and penv.get(n.value.id) is not None:
                            out.setdefault(tg.attr, penv[n.value.id])
        self._init_attrs[c] = out
        return out

    def subclasses(self, c: ClassInfo) -> List[ClassInfo]:
        if c not in self._subs:
            self._subs[c] = self.model.subclasses(c)
        return self._subs[c]

    def member_type(self, c: ClassInfo, name: str) -> Optional[Ty]:
        for k in c.mro():
            if name in k.properties:
                return self.ann(k.properties[name].node.returns, k.module)
            if name in k.own_fields:
                return self.ann(k.own_fields[name].annotation, k.module)
            if name in k.methods:
                return None
        ia = self.init_attrs(c)
        return ia.get(name)

    # -- dispatch ------------------------------------------------------------------------------------
    def dispatch(self, c: ClassInfo, name: str, kinds=("method", "staticmethod", "classmethod", "property")) -> List[FunctionInfo]:
        """All functions a call of ``name`` on a receiver of static type ``c`` may reach (CHA)."""
        out: List[FunctionInfo] = []

        def add(f):
            if f is not None and f not in out and f.kind in kinds:
                out.append(f)
        for f in c.resolve_all(name):
            add(f)
        for s in self.subclasses(c):
            for f in (s.methods.get(name) or []):
                add(f)
            if name in s.properties:
                add(s.properties[name])
        return out

    def dispatch_setter(self, c: ClassInfo, name: str) -> List[FunctionInfo]:
        out = []
        f = c.resolve_setter(name)
        if f is not None:
            out.append(f)
        for s in self.subclasses(c):
            if name in s.setters and s.setters[name] not in out:
                out.append(s.setters[name])
        return out


class TypeEnv:
    """Flow-insensitive local types of one function (statement order, last annotation wins)."""

    def __init__(self, res: Resolver, fn: FunctionInfo, self_cls: Optional[ClassInfo] = None):
        self.res, self.fn = res, fn
        self.module = fn.module
        self.env: Dict[str, Ty] = {}
        self.self_cls = self_cls or fn.cls
        sn = fn.self_name
        if sn is not None and self.self_cls is not None:
            self.env[sn] = Ty(self.self_cls, is_class_obj=(fn.kind == "classmethod"))
        for p in fn.params:
            if p.arg == sn:
                continue
            t = res.ann(p.annotation, fn.module)
            if t is not None:
                self.env[p.arg] = t
        self._scan(fn.node.body)

    def _scan(self, stmts: Iterable[ast.stmt]):
        for st in stmts:
            if isinstance(st, ast.AnnAssign) and isinstance(st.target, ast.Name):
                t = self.res.ann(st.annotation, self.module)
                if t is None and st.value is not None:
                    t = self.type_of(st.value)
                if t is not None:
                    self.env[st.target.id] = t
            elif isinstance(st, ast.Assign):
                t = self.type_of(st.value)
                for tg in st.targets:
                    if isinstance(tg, ast.Name) and t is not None:
                        self.env[tg.id] = t
                    elif isinstance(tg, (ast.Tuple, ast.List)) and isinstance(st.value, (ast.Tuple, ast.List)) \
                            and len(tg.elts) == len(st.value.elts):
                        for a, b in zip(tg.elts, st.value.elts):
                            tb = self.type_of(b)
                            if isinstance(a, ast.Name) and tb is not None:
                                self.env[a.id] = tb
            elif isinstance(st, (ast.For, ast.AsyncFor)):
                it = self.type_of(st.iter)
                self._bind_loop(st.target, st.iter, it)
                self._scan(st.body)
                self._scan(st.orelse)
            elif isinstance(st, ast.While):
                self._scan(st.body)
                self._scan(st.orelse)
            elif isinstance(st, ast.If):
                self._narrow(st.test)
                self._scan(st.body)
                self._scan(st.orelse)
            elif isinstance(st, (ast.With, ast.AsyncWith)):
                for item in st.items:
                    if item.optional_vars is not None and isinstance(item.optional_vars, ast.Name):
                        t = self.type_of(item.context_expr)
                        if t is not None:
                            self.env[item.optional_vars.id] = t
                self._scan(st.body)
            elif isinstance(st, ast.Try):
                self._scan(st.body)
                for h in st.handlers:
                    self._scan(h.body)
                self._scan(st.orelse)
                self._scan(st.finalbody)
            elif isinstance(st, ast.Match):
                for c in st.cases:
                    self._bind_pattern(c.pattern, st.subject)
                    self._scan(c.body)

    def _bind_pattern(self, pat: ast.pattern, subject: Optional[ast.expr]):
        """names captured by a ``case`` pattern take the type of the matched part of the subject"""
        if isinstance(pat, ast.MatchAs):
            if pat.pattern is not None:
                self._bind_pattern(pat.pattern, subject)
            if pat.name and subject is not None:
                t = self.type_of(subject)
                if t is not None:
                    self.env[pat.name] = t
        elif isinstance(pat, ast.MatchSequence) and isinstance(subject, (ast.Tuple, ast.List)) and len(subject.elts) == len(pat.patterns):
            for p2, e in zip(pat.patterns, subject.elts):
                self._bind_pattern(p2, e)
        elif isinstance(pat, ast.MatchOr):
            for p2 in pat.patterns:
                self._bind_pattern(p2, subject)
        elif isinstance(pat, ast.MatchClass):
            t = self.res.ann(pat.cls, self.module)
            if isinstance(subject, ast.Name) and t is not None and t.cls is not None:
                cur = self.env.get(subject.id)
                if cur is None or cur.cls is None or t.cls.is_subclass_of(cur.cls):
                    self.env[subject.id] = t
            for attr, p2 in zip(pat.kwd_attrs, pat.kwd_patterns):
                if subject is not None:
                    self._bind_pattern(p2, ast.Attribute(value=subject, attr=attr, ctx=ast.Load()))

    def _narrow(self, test: ast.expr):
        """isinstance(x, T) narrows x inside the branch (applied function-wide: good enough for dispatch)."""
        for n in ast.walk(test):
            if isinstance(n, ast.Call) and isinstance(n.func, ast.Name) and n.func.id == "isinstance" and len(n.args) == 2 \
                    and isinstance(n.args[0], ast.Name):
                t = self.res.ann(n.args[1], self.module)
                cur = self.env.get(n.args[0].id)
                if t is not None and t.cls is not None and (cur is None or cur.cls is None or t.cls.is_subclass_of(cur.cls)):
                    self.env[n.args[0].id] = t

    def _bind_loop(self, target: ast.expr, iter_node: ast.expr, it: Optional[Ty]):
        if isinstance(target, ast.Name):
            if it is not None and it.elem is not None:
                self.env[target.id] = it.elem
        elif isinstance(target, (ast.Tuple, ast.List)):
            # enumerate(x) / zip(a, b)
            if isinstance(iter_node, ast.Call) and isinstance(iter_node.func, ast.Name):
                if iter_node.func.id == "enumerate" and len(target.elts) == 2 and iter_node.args:
                    self._bind_loop(target.elts[1], iter_node.args[0], self.type_of(iter_node.args[0]))
                elif iter_node.func.id == "zip":
                    for t2, a in zip(target.elts, iter_node.args):
                        self._bind_loop(t2, a, self.type_of(a))

    # ------------------------------------------------------------------------------------------------
    def type_of(self, e: ast.expr) -> Optional[Ty]:
        res = self.res
        if isinstance(e, ast.Name):
            if e.id in self.env:
                return self.env[e.id]
            tgt = res.model.lookup_symbol(self.module, e.id)
            if isinstance(tgt, ClassInfo):
                return Ty(tgt, is_class_obj=True)
            return None
        if isinstance(e, ast.Attribute):
            bt = self.type_of(e.value)
            if bt is None or bt.cls is None:
                return None
            return res.member_type(bt.cls, e.attr)
        if isinstance(e, ast.Call):
            f = e.func
            if isinstance(f, ast.Name):
                if f.id in ("reversed", "list", "sorted", "tuple", "iter", "tqdm", "set", "unique_in_order") and e.args:
                    return self.type_of(e.args[0])
                if f.id == "super":
                    return None
                tgt = res.model.lookup_symbol(self.module, f.id) if f.id not in self.env else None
                if isinstance(tgt, ClassInfo):
                    return Ty(tgt)
                if isinstance(tgt, FunctionInfo):
                    return res.ann(tgt.node.returns, tgt.module)
                return None
            if isinstance(f, ast.Attribute):
                bt = self.type_of(f.value)
                if bt is None or bt.cls is None:
                    return None
                if bt.is_class_obj:
                    m = bt.cls.resolve(f.attr)
                    if m is not None and m.kind in ("classmethod", "staticmethod"):
                        return res.ann(m.node.returns, m.module)
                    return None
                for m in res.dispatch(bt.cls, f.attr, kinds=("method", "staticmethod", "classmethod")):
                    t = res.ann(m.node.returns, m.module)
                    if t is not None:
                        return t
                return None
            return None
        if isinstance(e, ast.Subscript):
            bt = self.type_of(e.value)
            if bt is not None and bt.elem is not None:
                return bt if isinstance(e.slice, ast.Slice) else bt.elem
            return None
        if isinstance(e, ast.IfExp):
            return self.type_of(e.body) or self.type_of(e.orelse)
        if isinstance(e, (ast.ListComp, ast.GeneratorExp, ast.SetComp)):
            sub = TypeEnvView(self)
            for g in e.generators:
                sub.parent._bind_loop(g.target, g.iter, self.type_of(g.iter))
            t = self.type_of(e.elt)
            return Ty(elem=t if t is not None else Ty())
        if isinstance(e, ast.List) and e.elts:
            t = self.type_of(e.elts[0])
            return Ty(elem=t if t is not None else Ty())
        return None


class TypeEnvView:
    def __init__(self, parent: TypeEnv):
        self.parent = parent


# ------------------------------------------------------------------------------------------------
class CallSite:
    __slots__ = ("node", "name", "callees", "receiver", "kind", "external")

    def __init__(self, node, name, callees, receiver, kind, external=False):
        self.node, self.name, self.callees, self.receiver, self.kind, self.external = node, name, callees, receiver, kind, external


EXTERNAL_ROOTS = {"np", "numpy", "stim", "plt", "patches", "os", "ql", "warnings", "math", "itertools", "json", "yaml", "uuid",
                  "contextlib", "functools", "reduce", "tqdm", "sys", "copy", "matplotlib", "mpl", "transforms", "colors", "re"}


class CallGraph:
    def __init__(self, model: Model):
        self.model = model
        self.res = Resolver(model)
        self.sites: Dict[FunctionInfo, List[CallSite]] = {}
        self.envs: Dict[Tuple[FunctionInfo, Optional[ClassInfo]], TypeEnv] = {}

    def env(self, fn: FunctionInfo, self_cls: Optional[ClassInfo] = None) -> TypeEnv:
        k = (fn, self_cls)
        if k not in self.envs:
            self.envs[k] = TypeEnv(self.res, fn, self_cls)
        return self.envs[k]

    def _function_values(self, fn: FunctionInfo) -> List[FunctionInfo]:
        cache = self.__dict__.setdefault("_fn_values", {})
        if fn in cache:
            return cache[fn]
        out: List[FunctionInfo] = []
        seen_consts = set()

        def scan(node, module, depth=0):
            for m in ast.walk(node):
                if isinstance(m, ast.Name) and isinstance(m.ctx, ast.Load):
                    tgt = self.model.lookup_symbol(module, m.id)
                    if isinstance(tgt, FunctionInfo) and tgt is not fn and tgt not in out:
                        out.append(tgt)
                    elif isinstance(tgt, tuple) and tgt[0] == "const" and id(tgt[1]) not in seen_consts and depth < 3:
                        seen_consts.add(id(tgt[1]))
                        scan(tgt[1], tgt[2], depth + 1)
        # names in call position are ordinary calls; only value positions matter, but scanning all loads is a harmless superset restricted below
        called = {id(c.func) for c in ast.walk(fn.node) if isinstance(c, ast.Call)}
        for m in ast.walk(fn.node):
            if isinstance(m, ast.Name) and isinstance(m.ctx, ast.Load) and id(m) not in called:
                tgt = self.model.lookup_symbol(fn.module, m.id)
                if isinstance(tgt, FunctionInfo) and tgt is not fn and tgt not in out:
                    out.append(tgt)
                elif isinstance(tgt, tuple) and tgt[0] == "const" and id(tgt[1]) not in seen_consts:
                    seen_consts.add(id(tgt[1]))
                    scan(tgt[1], tgt[2], 1)
        cache[fn] = out
        return out

    def call_sites(self, fn: FunctionInfo) -> List[CallSite]:
        if fn in self.sites:
            return self.sites[fn]
        env = self.env(fn)
        out: List[CallSite] = []
        res = self.res
        stores: Set[int] = set()
        for n in ast.walk(fn.node):
            if isinstance(n, (ast.Assign, ast.AugAssign, ast.AnnAssign)):
                tgs = n.targets if isinstance(n, ast.Assign) else [n.target]
                for t in tgs:
                    if isinstance(t, ast.Attribute):
                        stores.add(id(t))
                        bt = env.type_of(t.value)
                        if bt is not None and bt.cls is not None and not bt.is_class_obj:
                            setters = res.dispatch_setter(bt.cls, t.attr)
                            if setters:
                                out.append(CallSite(n, t.attr, setters, t.value, "setter"))
        for n in ast.walk(fn.node):
            if isinstance(n, ast.Call):
                res.stats["calls"] += 1
                f = n.func
                if isinstance(f, ast.Name):
                    if f.id in env.env:
                        # a call through a local name (``for kind, resolve in TABLE: resolve(self, d)``): every package function whose value this function
                        # can get hold of -- named in its body or in a module-level constant it reads -- may be the callee (address-taken over-approximation)
                        cands = self._function_values(fn)
                        if cands:
                            out.append(CallSite(n, f.id, cands, None, "indirect"))
                            res.stats["resolved"] += 1
                        else:
                            res.stats["unresolved"] += 1
                        continue
                    tgt = self.model.lookup_symbol(fn.module, f.id)
                    if isinstance(tgt, FunctionInfo):
                        out.append(CallSite(n, f.id, [tgt], None, "function"))
                        res.stats["resolved"] += 1
                    elif isinstance(tgt, ClassInfo):
                        callees = [x for x in (tgt.resolve("__init__"), tgt.resolve("__post_init__")) if x is not None]
                        out.append(CallSite(n, f.id, callees, None, "constructor"))
                        res.stats["resolved"] += 1
                    elif tgt is None and any(isinstance(m_, ast.Name) and m_.id == f.id and isinstance(m_.ctx, ast.Store) for m_ in ast.walk(fn.node)) and self._function_values(fn):
                        # a local name bound in this function (loop target, unpacking) and called: see above
                        out.append(CallSite(n, f.id, self._function_values(fn), None, "indirect"))
                        res.stats["resolved"] += 1
                    else:
                        res.stats["external"] += 1
                        out.append(CallSite(n, f.id, [], None, "external", external=True))
                elif isinstance(f, ast.Attribute):
                    root = f.value
                    while isinstance(root, (ast.Attribute, ast.Call, ast.Subscript)):
                        root = root.value if not isinstance(root, ast.Call) else root.func
                    if isinstance(root, ast.Name) and root.id in EXTERNAL_ROOTS and root.id not in env.env:
                        res.stats["external"] += 1
                        out.append(CallSite(n, f.attr, [], f.value, "external", external=True))
                        continue
                    if isinstance(f.value, ast.Call) and isinstance(f.value.func, ast.Name) and f.value.func.id == "super" and fn.cls is not None:
                        mro = fn.cls.mro()
                        callees = []
                        for k in mro[1:]:
                            if f.attr in k.methods:
                                callees = [k.methods[f.attr][0]]
                                break
                        out.append(CallSite(n, f.attr, callees, f.value, "super"))
                        res.stats["resolved"] += 1
                        continue
                    bt = env.type_of(f.value)
                    if bt is not None and bt.cls is not None:
                        callees = res.dispatch(bt.cls, f.attr, kinds=("method", "staticmethod", "classmethod"))
                        out.append(CallSite(n, f.attr, callees, f.value, "method"))
                        res.stats["resolved"] += 1
                    else:
                        res.stats["unresolved"] += 1
                        out.append(CallSite(n, f.attr, [], f.value, "unresolved"))
            elif isinstance(n, ast.Attribute) and isinstance(n.ctx, ast.Load) and id(n) not in stores:
                bt = env.type_of(n.value)
                if bt is not None and bt.cls is not None and not bt.is_class_obj:
                    props = res.dispatch(bt.cls, n.attr, kinds=("property",))
                    if props:
                        out.append(CallSite(n, n.attr, props, n.value, "property"))
        self.sites[fn] = out
        return out

    def reachable(self, roots: Iterable[FunctionInfo], stop=lambda f: False) -> List[FunctionInfo]:
        seen: List[FunctionInfo] = []
        work = list(roots)
        while work:
            f = work.pop()
            if f in seen:
                continue
            seen.append(f)
            if stop(f):
                continue
            for cs in self.call_sites(f):
                for c in cs.callees:
                    if c not in seen:
                        work.append(c)
        return seen

    def path_to(self, root: FunctionInfo, target_pred, stop=lambda f: False) -> Optional[List[FunctionInfo]]:
        """Shortest call path from ``root`` to a function satisfying ``target_pred``."""
        from collections import deque
        prev: Dict[FunctionInfo, Optional[FunctionInfo]] = {root: None}
        dq = deque([root])
        while dq:
            f = dq.popleft()
            if target_pred(f):
                out = []
                while f is not None:
                    out.append(f)
                    f = prev[f]
                return list(reversed(out))
            if stop(f):
                continue
            for cs in self.call_sites(f):
                for c in cs.callees:
                    if c not in prev:
                        prev[c] = f
                        dq.append(c)
        return None
