"""Syntax normal form of a function body, applied before paths are enumerated.

Every rewrite keeps the meaning of the function (up to the evaluation order of sub-expressions without effects) and
only removes *spelling* differences that behaviour-preserving refactorings introduce, so that one rule reads all of:

N1  ``return next((e for x in D if c), default)``           ->  ``for x in D: if c: return e`` ; ``return default``
    ``v = next((e for x in D if c), default)``              ->  ``for x in D: if c: v = e; break`` ; ``else: v = default``
N2  a list comprehension that calls a helper which must be run in place (a private helper or local closure with
    statement effects / loops)                              ->  the accumulator loop it abbreviates
N4  ``for x in X: acc.append(x)``                               ->  ``acc.extend(X)``
N16 ``for .. break .. else: E``   ->  completion flag set before every break, ``if flag: E`` after the loop
N15 search loop ``for x in D: if c: break / else: leave``, rest   ->  ``for x in D: if c: rest`` / ``leave``
N14 ``for s in itertools.repeat(x, n): body``                      ->  ``for _ in range(n): s = x; body``
N13 ``i = len(L); while i > 0: i -= 1; ... L[i] ...`` (and the forward form)  ->  ``for x in reversed(L)`` / ``for x in L``
N12 ``yield from <pipeline>``                                      ->  ``for x in <pipeline>: yield x``
N11 ``v = functools.reduce(f, X, init)``                          ->  ``v = init; for x in X: v = f(v, x)``
N18 ``return A if c else B`` (A or B a reduce / next form)         ->  ``if c: return A`` / ``else: return B``
N10 ``list(<map/filter/chain/generator pipeline that runs package code>)`` and loops over such pipelines  ->  the loop nest
N9  ``it = iter(X); while (v := next(it, S)) is not S: body``   ->  ``for v in X: body`` (S a fresh ``object()``)
N8  ``match s: case P if g: ...``                               ->  the if / elif chain (class / sequence / literal / capture / or patterns)
N7  ``for x in _private_generator(..): body``                    ->  the generator's body with ``x = <yielded>; body`` at every yield
N6  ``for i, y in enumerate(<generator>): body``                 ->  ``cnt = 0; for y in <generator>: i = cnt; cnt += 1; body``
N5  ``for y in (f(x) for x in D if c): body``                    ->  ``for x in D: if c: y = f(x); body``
N3  a call of such a helper in expression position          ->  hoisted into ``tmp = helper(...)`` right before the statement
                                                                (the path enumerator then runs the helper's body in place)

New nodes carry the position of the node they replace.  Nothing is written back; the original tree is not modified.
"""
from __future__ import annotations

import ast
import copy
from typing import Dict, List, Optional, Set, Tuple

from .model import ClassInfo, FunctionInfo, Model

TMP = "__qcl_t"
# iterators of the graph API that the rules name as domains ("all nodes in listing order"); they are read on their own (C02.L1) and stay calls
API_ITERATORS = ("get_node_iterator", "get_branch_iterator")


def _is_private(name: str) -> bool:
    from .model import is_helper_name
    return is_helper_name(name)


def needs_statement_inlining(d: ast.FunctionDef) -> bool:
    """The helper cannot be read as a pure value: it loops, stores, or has call statements."""
    for n in ast.walk(d):
        if n is d:
            continue
        if isinstance(n, (ast.For, ast.While, ast.With, ast.Try)):
            return True
        if isinstance(n, ast.Expr) and isinstance(n.value, ast.Call):
            return True
        if isinstance(n, (ast.Assign, ast.AugAssign, ast.AnnAssign)):
            tgs = n.targets if isinstance(n, ast.Assign) else [n.target]
            if any(isinstance(t, (ast.Attribute, ast.Subscript)) for t in tgs):
                return True
    return False


class Normalizer:
    def __init__(self, model: Model):
        self.model = model
        self._cache: Dict[tuple, List[ast.stmt]] = {}

    # ------------------------------------------------------------------------------------------
    def body(self, fn: Optional[FunctionInfo], d: ast.AST, local_names: Optional[Set[str]] = None, loop_view: bool = False,
             keep: frozenset = frozenset()) -> List[ast.stmt]:
        """``loop_view``: additionally spell every list comprehension that calls a private helper (pure or not) as the loop it abbreviates, with
        the helper call hoisted -- for rules that read the steps of the helper's body."""
        key = (id(d), loop_view, keep)
        if key not in self._cache:
            ctx = _Ctx(self.model, fn, set(local_names or ()))
            ctx.root = d
            ctx.loop_view = loop_view
            ctx.keep = keep          # qualified names of functions that are read on their own (never unfolded / hoisted here)
            d2 = tally_lists_as_counters(d)
            if d2 is not d:
                ctx.root = d2
            self._cache[key] = ctx.block(list(d2.body))
        return self._cache[key]


def tally_lists_as_counters(d: ast.AST) -> ast.AST:
    """N17: a local list that starts empty, is only ever ``append``-ed to (statement level) and only ever read through ``len(xs)`` / ``sum(xs)`` is a
    pair of counters: ``len(xs)`` counts the appends, ``sum(xs)`` adds the appended values (``sum`` of booleans counts the true ones).  Returns a
    rewritten copy of the function (or ``d`` itself when nothing applies)."""
    if not isinstance(d, (ast.FunctionDef, ast.AsyncFunctionDef)):
        return d
    cands = {}
    for n in ast.walk(d):
        tg, val = None, None
        if isinstance(n, ast.Assign) and len(n.targets) == 1 and isinstance(n.targets[0], ast.Name):
            tg, val = n.targets[0].id, n.value
        elif isinstance(n, ast.AnnAssign) and isinstance(n.target, ast.Name) and n.value is not None:
            tg, val = n.target.id, n.value
        if tg is not None:
            empty = (isinstance(val, ast.List) and not val.elts) or (isinstance(val, ast.Call) and isinstance(val.func, ast.Name) and val.func.id == "list" and not val.args and not val.keywords)
            cands.setdefault(tg, []).append((n, empty))
    names = [k for k, v in cands.items() if len(v) == 1 and v[0][1]]
    if not names:
        return d
    parents = {}
    for n in ast.walk(d):
        for c in ast.iter_child_nodes(n):
            parents[id(c)] = n
    ok_names = []
    for nm in names:
        uses = [n for n in ast.walk(d) if isinstance(n, ast.Name) and n.id == nm and isinstance(n.ctx, ast.Load)]
        if not uses:
            continue
        good = True
        reads = 0
        for u in uses:
            par = parents.get(id(u))
            if isinstance(par, ast.Attribute) and par.attr == "append" and par.value is u:
                call = parents.get(id(par))
                stmt = parents.get(id(call))
                if not (isinstance(call, ast.Call) and call.func is par and len(call.args) == 1 and not call.keywords and isinstance(stmt, ast.Expr)):
                    good = False
            elif isinstance(par, ast.Call) and isinstance(par.func, ast.Name) and par.func.id in ("len", "sum") and par.args == [u] and not par.keywords:
                reads += 1
            else:
                good = False
        if good and reads:
            ok_names.append(nm)
    if not ok_names:
        return d
    d2 = copy.deepcopy(d)

    class _Rw(ast.NodeTransformer):
        def visit_Call(self, node):
            self.generic_visit(node)
            if isinstance(node.func, ast.Name) and node.func.id in ("len", "sum") and len(node.args) == 1 and isinstance(node.args[0], ast.Name) and node.args[0].id in ok_names:
                return ast.copy_location(ast.Name(id=f"__qcl_{node.func.id}_{node.args[0].id}", ctx=ast.Load()), node)
            return node

        def visit_Expr(self, node):
            v = node.value
            if isinstance(v, ast.Call) and isinstance(v.func, ast.Attribute) and v.func.attr == "append" and isinstance(v.func.value, ast.Name) and v.func.value.id in ok_names:
                nm = v.func.value.id
                arg = self.visit(v.args[0])
                inc_len = ast.AugAssign(target=ast.Name(id=f"__qcl_len_{nm}", ctx=ast.Store()), op=ast.Add(), value=ast.Constant(value=1))
                cond = None
                if isinstance(arg, ast.IfExp) and isinstance(arg.body, ast.Constant) and isinstance(arg.orelse, ast.Constant) and arg.body.value is True and arg.orelse.value is False:
                    cond = arg.test
                elif isinstance(arg, (ast.Compare, ast.BoolOp)) or (isinstance(arg, ast.UnaryOp) and isinstance(arg.op, ast.Not)):
                    cond = arg
                if cond is not None:
                    inc_sum = ast.If(test=cond, body=[ast.AugAssign(target=ast.Name(id=f"__qcl_sum_{nm}", ctx=ast.Store()), op=ast.Add(), value=ast.Constant(value=1))], orelse=[])
                else:
                    inc_sum = ast.AugAssign(target=ast.Name(id=f"__qcl_sum_{nm}", ctx=ast.Store()), op=ast.Add(), value=arg)
                out = [inc_sum, inc_len]
                for o in out:
                    ast.copy_location(o, node)
                    ast.fix_missing_locations(o)
                return out
            return self.generic_visit(node)

        def _init(self, node, nm):
            out = [ast.Assign(targets=[ast.Name(id=f"__qcl_len_{nm}", ctx=ast.Store())], value=ast.Constant(value=0)),
                   ast.Assign(targets=[ast.Name(id=f"__qcl_sum_{nm}", ctx=ast.Store())], value=ast.Constant(value=0))]
            for o in out:
                ast.copy_location(o, node)
                ast.fix_missing_locations(o)
            return out

        def visit_Assign(self, node):
            if len(node.targets) == 1 and isinstance(node.targets[0], ast.Name) and node.targets[0].id in ok_names:
                return self._init(node, node.targets[0].id)
            return self.generic_visit(node)

        def visit_AnnAssign(self, node):
            if isinstance(node.target, ast.Name) and node.target.id in ok_names and node.value is not None:
                return self._init(node, node.target.id)
            return self.generic_visit(node)
    d2 = _Rw().visit(d2)
    ast.fix_missing_locations(d2)
    return d2


def completion_flag_form(st: ast.For) -> List[ast.stmt]:
    """N16: a loop with an else-branch as the statements it abbreviates -- a completion flag cleared before every ``break`` of this loop and the
    else-branch run under that flag (without a ``break`` the else-branch simply follows the loop)."""
    flag = f"_qcl_completed_{st.lineno}"
    found = [False]

    def mark(body):
        out = []
        for b in body:
            if isinstance(b, ast.Break):
                found[0] = True
                out.append(ast.copy_location(ast.Assign(targets=[ast.Name(id=flag, ctx=ast.Store())], value=ast.Constant(value=False), lineno=b.lineno), b))
                out.append(b)
            elif isinstance(b, ast.If):
                out.append(ast.copy_location(ast.If(test=b.test, body=mark(b.body), orelse=mark(b.orelse)), b))
            elif isinstance(b, ast.With):
                out.append(ast.copy_location(ast.With(items=b.items, body=mark(b.body)), b))
            elif isinstance(b, ast.Try):
                nb = ast.Try(body=mark(b.body), handlers=[ast.copy_location(ast.ExceptHandler(type=h.type, name=h.name, body=mark(h.body)), h) for h in b.handlers],
                             orelse=mark(b.orelse), finalbody=mark(b.finalbody))
                out.append(ast.copy_location(nb, b))
            else:
                out.append(b)
        return out
    body = mark(st.body)
    if not found[0]:
        loop = ast.copy_location(ast.For(target=st.target, iter=st.iter, body=st.body, orelse=[]), st)
        for a_ in ("_qcl_plain",):
            if getattr(st, a_, False):
                setattr(loop, a_, True)
        ast.fix_missing_locations(loop)
        return [loop] + list(st.orelse)
    init = ast.copy_location(ast.Assign(targets=[ast.Name(id=flag, ctx=ast.Store())], value=ast.Constant(value=True), lineno=st.lineno), st)
    loop = ast.copy_location(ast.For(target=st.target, iter=st.iter, body=body, orelse=[]), st)
    if getattr(st, "_qcl_plain", False):
        loop._qcl_plain = True
    after = ast.copy_location(ast.If(test=ast.Name(id=flag, ctx=ast.Load()), body=list(st.orelse), orelse=[]), st.orelse[0])
    for n_ in (init, loop, after):
        ast.fix_missing_locations(n_)
    return [init, loop, after]


def search_loop_form(stmts: List[ast.stmt]) -> List[ast.stmt]:
    """N15 alone, for readers of raw statement lists (the evaluator)."""
    for i, st in enumerate(stmts):
        if isinstance(st, ast.For) and st.orelse and _Ctx._exits(st.orelse) and len(st.body) == 1 and isinstance(st.body[0], ast.If) \
                and not st.body[0].orelse and len(st.body[0].body) == 1 and isinstance(st.body[0].body[0], ast.Break):
            rest = list(stmts[i + 1:])
            if _Ctx._exits(rest) and not any(isinstance(n, (ast.Break, ast.Continue)) for r in rest for n in ast.walk(r)):
                hit = ast.copy_location(ast.If(test=st.body[0].test, body=rest, orelse=[]), st.body[0])
                loop = ast.copy_location(ast.For(target=st.target, iter=st.iter, body=[hit], orelse=[]), st)
                ast.fix_missing_locations(loop)
                return list(stmts[:i]) + [loop] + list(st.orelse)
    return list(stmts)


def match_as_if(model: Model, fn: Optional[FunctionInfo], st: ast.Match) -> Optional[List[ast.stmt]]:
    """the if / elif chain a ``match`` statement abbreviates (None outside the supported pattern fragment)"""
    ctx = _Ctx(model, fn, set())
    ctx.n = 9000 + getattr(st, "lineno", 0)
    return ctx._match_as_if(st)


class _Ctx:
    def __init__(self, model: Model, fn: Optional[FunctionInfo], closures: Set[str]):
        self.model, self.fn = model, fn
        self.closures = closures           # names of nested defs seen so far (statement-inlined by the enumerator)
        self.n = 0
        self.root: Optional[ast.AST] = None

    # -- which calls must be run in place -------------------------------------------------------------
    def helper_def(self, call: ast.Call) -> Optional[ast.FunctionDef]:
        f = call.func
        if isinstance(f, ast.Name):
            if f.id in self.closures:
                return self._closure_defs.get(f.id)
            if _is_private(f.id) and self.fn is not None:
                tgt = self.model.lookup_symbol(self.fn.module, f.id)
                if isinstance(tgt, FunctionInfo):
                    return tgt.node
            return None
        if isinstance(f, ast.Attribute) and _is_private(f.attr) and isinstance(f.value, ast.Name) and self.fn is not None:
            c: Optional[ClassInfo] = None
            if self.fn.cls is not None and f.value.id in (self.fn.self_name, "cls"):
                c = self.fn.cls
            else:
                tgt = self.model.lookup_symbol(self.fn.module, f.value.id)
                if isinstance(tgt, ClassInfo):
                    c = tgt
            if c is not None:
                fs = c.resolve_all(f.attr)
                if len(fs) == 1 and fs[0].kind in ("method", "staticmethod", "classmethod"):
                    return fs[0].node
        return None

    _closure_defs: Dict[str, ast.FunctionDef] = {}

    def generator_def(self, call: ast.Call) -> Optional[ast.FunctionDef]:
        """a generator function of the package that is statically the callee (``self.gen(..)``, ``Cls.gen(..)``, module-level ``gen(..)``), public
        or not: its body can only be read where it is consumed"""
        f = call.func
        d = None
        if isinstance(f, ast.Name) and self.fn is not None:
            tgt = self.model.lookup_symbol(self.fn.module, f.id)
            if isinstance(tgt, FunctionInfo):
                d = tgt.node
        elif isinstance(f, ast.Attribute) and isinstance(f.value, ast.Name) and self.fn is not None:
            c: Optional[ClassInfo] = None
            if self.fn.cls is not None and f.value.id in (self.fn.self_name, "cls"):
                c = self.fn.cls
            else:
                tgt = self.model.lookup_symbol(self.fn.module, f.value.id)
                if isinstance(tgt, ClassInfo):
                    c = tgt
            if c is not None:
                fs = c.resolve_all(f.attr)
                if len(fs) == 1 and fs[0].kind in ("method", "staticmethod", "classmethod"):
                    d = fs[0].node
        if d is not None and any(isinstance(n, (ast.Yield, ast.YieldFrom)) for n in ast.walk(d)) and d is not (self.fn.node if self.fn else None):
            if any(k.split(".")[-1] == d.name for k in self.keep) or d.name in API_ITERATORS:
                return None
            return d
        return None

    loop_view = False
    keep: frozenset = frozenset()

    def must_run_in_place(self, call: ast.Call) -> bool:
        d = self.helper_def(call)
        return d is not None and (self.loop_view or needs_statement_inlining(d))

    def _calls_in(self, e: ast.AST) -> List[ast.Call]:
        """helper calls under ``e`` that are evaluated unconditionally and exactly once (not under lambda / comprehension / short-circuit)"""
        out: List[ast.Call] = []

        def walk(n: ast.AST):
            if isinstance(n, (ast.Lambda, ast.ListComp, ast.SetComp, ast.DictComp, ast.GeneratorExp, ast.IfExp)):
                if isinstance(n, ast.IfExp):
                    walk(n.test)
                return
            if isinstance(n, ast.BoolOp):
                walk(n.values[0])
                return
            if isinstance(n, ast.Call) and isinstance(n.func, ast.Name) and n.func.id in ("list", "tuple") and len(n.args) == 1 and not n.keywords and n is not e \
                    and isinstance(n.args[0], ast.Call) and self.generator_def(n.args[0]) is not None:
                # ``list(_gen(..))``: taken out as a whole (the generator call stays its argument, so that the collection is spelled as the generator's loop)
                for a_ in list(n.args[0].args) + [k_.value for k_ in n.args[0].keywords]:
                    walk(a_)
                out.append(n)
                return
            for ch in ast.iter_child_nodes(n):
                walk(ch)
            if isinstance(n, ast.Call) and self.must_run_in_place(n):
                out.append(n)
            elif isinstance(n, ast.Call) and isinstance(n.func, ast.Name) and n.func.id in ("list", "tuple") and len(n.args) == 1 and not n.keywords \
                    and n is not e and self._needs_unfold(n.args[0]):
                out.append(n)      # ``list(<pipeline that runs package code>)`` inside a larger expression: taken out, then spelled as its loop
        walk(e)
        return out

    def _has_helper_call(self, e: ast.AST) -> bool:
        return any(isinstance(n, ast.Call) and self.must_run_in_place(n) for n in ast.walk(e))

    # -- statements -------------------------------------------------------------------------------------
    def block(self, stmts: List[ast.stmt]) -> List[ast.stmt]:
        stmts = self._search_else(list(stmts))
        out: List[ast.stmt] = []
        for st in stmts:
            out.extend(self.stmt(st))
        return out

    @staticmethod
    def _exits(stmts: List[ast.stmt]) -> bool:
        return bool(stmts) and isinstance(stmts[-1], (ast.Return, ast.Raise))

    def _search_else(self, stmts: List[ast.stmt]) -> List[ast.stmt]:
        """N15  ``for x in D: if c: break`` / ``else: <leave>`` / ``<rest, ending in return>``   ->   ``for x in D: if c: <rest>`` / ``<leave>``
        (a search loop: what follows the loop runs for the element at which the search stopped)"""
        for i, st in enumerate(stmts):
            if isinstance(st, ast.For) and st.orelse and self._exits(st.orelse) and len(st.body) == 1 and isinstance(st.body[0], ast.If) \
                    and not st.body[0].orelse and len(st.body[0].body) == 1 and isinstance(st.body[0].body[0], ast.Break):
                rest = stmts[i + 1:]
                if self._exits(rest) and not any(isinstance(n, (ast.Break, ast.Continue)) for r in rest for n in ast.walk(r)):
                    hit = ast.If(test=st.body[0].test, body=list(rest), orelse=[])
                    ast.copy_location(hit, st.body[0])
                    loop = ast.For(target=st.target, iter=st.iter, body=[hit], orelse=[])
                    ast.copy_location(loop, st)
                    ast.fix_missing_locations(loop)
                    return stmts[:i] + [loop] + list(st.orelse)
        # N16  ``for x in D: .. break ..`` / ``else: E``   ->   ``ok = True`` / ``for x in D: .. ok = False; break ..`` / ``if ok: E``
        for i, st in enumerate(stmts):
            if isinstance(st, ast.For) and st.orelse and not getattr(st, "_qcl_plain", False):
                return self._search_else(stmts[:i] + completion_flag_form(st) + stmts[i + 1:])
        return stmts

    def tmp(self) -> str:
        self.n += 1
        return f"{TMP}{self.n}"

    def stmt(self, st: ast.stmt) -> List[ast.stmt]:
        if isinstance(st, ast.FunctionDef):
            self.closures.add(st.name)
            self._closure_defs = dict(self._closure_defs)
            self._closure_defs[st.name] = st
            return [st]
        if isinstance(st, (ast.If,)):
            pre, test = self.hoist(st.test, st)
            new = copy.copy(st)
            new.test = test
            new.body = self.block(st.body)
            new.orelse = self.block(st.orelse)
            return pre + [new]
        if isinstance(st, ast.For):
            counted = self._enumerate_loop(st)
            if counted is not None:
                return self.block(counted)
            if isinstance(st.iter, ast.Call) and self._callee(st.iter).split(".")[-1] == "repeat" and len(st.iter.args) == 2 and not st.iter.keywords \
                    and self._callee(st.iter) in ("repeat", "itertools.repeat") and not st.orelse:
                # N14: ``for s in itertools.repeat(x, n)``  ->  ``for _ in range(n): s = x``
                t = self.tmp()
                new = ast.For(target=ast.Name(id=t, ctx=ast.Store()), iter=ast.Call(func=ast.Name(id="range", ctx=ast.Load()), args=[st.iter.args[1]], keywords=[]),
                              body=[ast.Assign(targets=[st.target], value=st.iter.args[0])] + list(st.body), orelse=[])
                ast.copy_location(new, st)
                ast.fix_missing_locations(new)
                return self.stmt(new)
            unfolded = self._generator_loop(st)
            if unfolded is not None:
                return self.block(unfolded)
            if not getattr(st, "_qcl_plain", False) and not st.orelse and not isinstance(self._deref(st.iter), ast.GeneratorExp) and self._is_pipeline(self._deref(st.iter)) and self._needs_unfold(st.iter) \
                    and not any(isinstance(n, ast.Break) for b in st.body for n in ast.walk(b)):
                nest = self._loops_for(st.iter, lambda x: [ast.Assign(targets=[st.target], value=x)] + list(st.body), st)
                if nest is not None:
                    return self.block(nest)
            mapped = self._mapped_loop(st)
            if mapped is not None:
                return self.stmt(mapped)
            pre, it = self.hoist(st.iter, st)
            ext = _as_extend(st, it)
            if ext is not None and self._is_local_list(ext.value.func.value.id):
                return pre + [ext]
            new = copy.copy(st)
            new.iter = it
            new.body = self.block(st.body)
            new.orelse = self.block(st.orelse)
            return pre + [new]
        if isinstance(st, ast.Match):
            chain = self._match_as_if(st)
            if chain is not None:
                return self.block(chain)
            return [st]
        if isinstance(st, ast.While):
            as_for = self._iterator_while(st) or self._index_while(st)
            if as_for is not None:
                return self.stmt(as_for)
            new = copy.copy(st)
            new.body = self.block(st.body)
            new.orelse = self.block(st.orelse)
            return [new]
        if isinstance(st, ast.With):
            new = copy.copy(st)
            new.body = self.block(st.body)
            return [new]
        if isinstance(st, ast.Try):
            new = copy.copy(st)
            new.body = self.block(st.body)
            new.orelse = self.block(st.orelse)
            new.finalbody = self.block(st.finalbody)
            hs = []
            for h in st.handlers:
                h2 = copy.copy(h)
                h2.body = self.block(h.body)
                hs.append(h2)
            new.handlers = hs
            return [new]
        if isinstance(st, ast.Expr) and isinstance(st.value, ast.YieldFrom) and (self._is_pipeline(self._deref(st.value.value))
                                                                              or isinstance(self._deref(st.value.value), ast.GeneratorExp)):
            # N12: ``yield from <pipeline>`` hands on every element of the pipeline
            nest = self._loops_for(st.value.value, lambda x: [ast.Expr(value=ast.Yield(value=x))], st)
            if nest is not None:
                return self.block(nest)
        if isinstance(st, (ast.Return, ast.Assign, ast.AnnAssign, ast.Expr, ast.AugAssign)):
            value = getattr(st, "value", None)
            if value is None:
                return [st]
            # N18 -------------------------------------------------------------------------------
            # ``return A if c else B`` where a branch is a fold / search that is read as its loop: the if statement it abbreviates
            if isinstance(st, ast.Return) and isinstance(value, ast.IfExp) and any(
                    isinstance(br, ast.Call) and (self._callee(br).split(".")[-1] == "reduce" and len(br.args) == 3 or self._next_form(br) is not None)
                    for br in (value.body, value.orelse)):
                r1, r2 = ast.Return(value=value.body), ast.Return(value=value.orelse)
                split = ast.If(test=value.test, body=[r1], orelse=[r2])
                for n in (r1, r2, split):
                    ast.copy_location(n, st)
                ast.fix_missing_locations(split)
                return self.block([split])
            # N1 ---------------------------------------------------------------------------------
            nx = self._next_form(value)
            if nx is not None and isinstance(st, (ast.Return, ast.Assign, ast.AnnAssign)):
                return self.block(self._desugar_next(st, *nx))
            # N11 --------------------------------------------------------------------------------
            if isinstance(st, (ast.Return, ast.Assign, ast.AnnAssign)) and isinstance(value, ast.Call) and self._callee(value).split(".")[-1] == "reduce" \
                    and len(value.args) == 3 and not value.keywords:
                acc = self.tmp()
                x = self.tmp()
                step = self._apply2(value.args[0], ast.Name(id=acc, ctx=ast.Load()), ast.Name(id=x, ctx=ast.Load()))
                init = ast.Assign(targets=[ast.Name(id=acc, ctx=ast.Store())], value=value.args[2])
                loop = ast.For(target=ast.Name(id=x, ctx=ast.Store()), iter=value.args[1],
                               body=[ast.Assign(targets=[ast.Name(id=acc, ctx=ast.Store())], value=step)], orelse=[])
                fin = copy.copy(st)
                fin.value = ast.Name(id=acc, ctx=ast.Load())
                out = [init, loop, fin]
                for n in out:
                    for m in ast.walk(n):
                        if not hasattr(m, "lineno"):
                            ast.copy_location(m, st)
                    ast.fix_missing_locations(n)
                return self.block(out)
            # N10 --------------------------------------------------------------------------------
            if isinstance(st, (ast.Return, ast.Assign, ast.AnnAssign)) and isinstance(value, ast.Call) and isinstance(value.func, ast.Name) \
                    and value.func.id in ("list", "tuple") and len(value.args) == 1 and not value.keywords and self._needs_unfold(value.args[0]):
                des = self._desugar_collect(st, value.args[0])
                if des is not None:
                    return self.block(des)
            # N2 ---------------------------------------------------------------------------------
            if isinstance(value, ast.ListComp) and self._has_helper_call(value) and isinstance(st, (ast.Return, ast.Assign, ast.AnnAssign)):
                return self.block(self._desugar_listcomp(st, value))
            # N3 ---------------------------------------------------------------------------------
            if isinstance(value, ast.Call) and self.must_run_in_place(value) and not isinstance(st, ast.AugAssign):
                # already a statement-level call: only its arguments may need hoisting
                pre: List[ast.stmt] = []
                call = copy.copy(value)
                call.args = []
                for a in value.args:
                    p2, a2 = self.hoist(a, st)
                    pre += p2
                    call.args.append(a2)
                call.keywords = []
                for k in value.keywords:
                    p2, v2 = self.hoist(k.value, st)
                    pre += p2
                    call.keywords.append(ast.keyword(arg=k.arg, value=v2))
                new = copy.copy(st)
                new.value = call
                return pre + [new]
            pre, v2 = self.hoist(value, st)
            if not pre:
                return [st]
            new = copy.copy(st)
            new.value = v2
            return pre + [new]
        return [st]

    def _is_local_list(self, name: str) -> bool:
        """every binding of ``name`` in this function is a list display / list comprehension (or it is one of our own accumulators)"""
        if name.startswith(TMP):
            return True
        if self.root is None:
            return False
        binds = [n for n in ast.walk(self.root) if isinstance(n, (ast.Assign, ast.AnnAssign)) and
                 any(isinstance(t, ast.Name) and t.id == name for t in (n.targets if isinstance(n, ast.Assign) else [n.target]))]
        params = {a.arg for a in ast.walk(self.root) if isinstance(a, ast.arg)}
        return bool(binds) and name not in params and all(isinstance(b.value, (ast.List, ast.ListComp)) for b in binds)

    # -- N10 ------------------------------------------------------------------------------------------
    def _deref(self, e: ast.expr) -> ast.expr:
        """a local name bound once to an iterator pipeline and consumed once stands for that pipeline"""
        if isinstance(e, ast.Name) and self.root is not None:
            binds = [n for n in ast.walk(self.root) if isinstance(n, (ast.Assign, ast.AnnAssign)) and n.value is not None and
                     any(isinstance(t, ast.Name) and t.id == e.id for t in (n.targets if isinstance(n, ast.Assign) else [n.target]))]
            loads = [n for n in ast.walk(self.root) if isinstance(n, ast.Name) and n.id == e.id and isinstance(n.ctx, ast.Load)]
            if len(binds) == 1 and len(loads) == 1 and (isinstance(binds[0].value, ast.GeneratorExp) or self._is_pipeline(binds[0].value)):
                return binds[0].value
        return e

    @staticmethod
    def _callee(e: ast.expr) -> str:
        if isinstance(e, ast.Call):
            f = e.func
            parts = []
            while isinstance(f, ast.Attribute):
                parts.append(f.attr)
                f = f.value
            if isinstance(f, ast.Name):
                parts.append(f.id)
            return ".".join(reversed(parts))
        return ""

    def _is_pipeline(self, e: ast.expr) -> bool:
        c = self._callee(e)
        return c.split(".")[-1] in ("map", "filter", "filterfalse") or c.endswith("chain.from_iterable")

    def _needs_unfold(self, e: ast.expr) -> bool:
        """the iterable expression (seen through single-use local names) runs package code with statement effects when it is consumed"""
        seen = 0
        stack = [e]
        while stack and seen < 200:
            x = self._deref(stack.pop())
            seen += 1
            if isinstance(x, ast.Call):
                if self.generator_def(x) is not None or self.must_run_in_place(x):
                    return True
            stack.extend(ast.iter_child_nodes(x))
        return False

    def _apply(self, f: ast.expr, x: ast.expr) -> ast.expr:
        c = self._callee(f)
        if c.split(".")[-1] == "methodcaller" and isinstance(f, ast.Call) and len(f.args) >= 1 and isinstance(f.args[0], ast.Constant) and isinstance(f.args[0].value, str):
            return ast.Call(func=ast.Attribute(value=x, attr=f.args[0].value, ctx=ast.Load()), args=list(f.args[1:]), keywords=list(f.keywords))
        if c.split(".")[-1] == "attrgetter" and isinstance(f, ast.Call) and len(f.args) == 1 and isinstance(f.args[0], ast.Constant) and isinstance(f.args[0].value, str):
            out = x
            for part in f.args[0].value.split("."):
                out = ast.Attribute(value=out, attr=part, ctx=ast.Load())
            return out
        if isinstance(f, ast.Lambda) and len(f.args.args) == 1 and not f.args.vararg and not f.args.kwarg and not f.args.kwonlyargs and not f.args.defaults:
            return _subst_names(f.body, {f.args.args[0].arg: x})
        return ast.Call(func=f, args=[x], keywords=[])

    def _apply2(self, f: ast.expr, a: ast.expr, b: ast.expr) -> ast.expr:
        if isinstance(f, ast.Lambda) and len(f.args.args) == 2 and not f.args.vararg and not f.args.kwarg and not f.args.kwonlyargs and not f.args.defaults:
            return _subst_names(f.body, {f.args.args[0].arg: a, f.args.args[1].arg: b})
        return ast.Call(func=f, args=[a, b], keywords=[])

    def _loops_for(self, e: ast.expr, body_fn, at: ast.AST, depth: int = 0) -> Optional[List[ast.stmt]]:
        """statements that run ``body_fn(<element expression>)`` once per element of the iterable expression ``e``, in order"""
        if depth > 6:
            return None
        e = self._deref(e)
        c = self._callee(e)
        out: Optional[List[ast.stmt]]
        if isinstance(e, ast.Call) and c.endswith("chain.from_iterable") and len(e.args) == 1 and not e.keywords:
            out = self._loops_for(e.args[0], lambda m: self._loops_for(m, body_fn, at, depth + 1) or [], at, depth + 1)
        elif isinstance(e, ast.Call) and c.split(".")[-1] == "map" and len(e.args) == 2 and not e.keywords:
            def mapped(x, f=e.args[0]):
                t = self.tmp()
                return [ast.Assign(targets=[ast.Name(id=t, ctx=ast.Store())], value=self._apply(f, x))] + body_fn(ast.Name(id=t, ctx=ast.Load()))
            out = self._loops_for(e.args[1], mapped, at, depth + 1)
        elif isinstance(e, ast.Call) and c.split(".")[-1] in ("filter", "filterfalse") and len(e.args) == 2 and not e.keywords and not (isinstance(e.args[0], ast.Constant) and e.args[0].value is None):
            neg = c.split(".")[-1] == "filterfalse"

            def kept(x, f=e.args[0]):
                test = self._apply(f, x)
                if neg:
                    test = ast.UnaryOp(op=ast.Not(), operand=test)
                return [ast.If(test=test, body=body_fn(x), orelse=[])]
            out = self._loops_for(e.args[1], kept, at, depth + 1)
        elif isinstance(e, ast.Call) and c in ("tqdm", "iter") and len(e.args) >= 1:
            out = self._loops_for(e.args[0], body_fn, at, depth + 1)
        elif isinstance(e, (ast.GeneratorExp, ast.ListComp)) and len(e.generators) == 1 and not e.generators[0].is_async:
            # (a list comprehension produces all elements first; the order of the elements' own effects is the same)
            g = e.generators[0]

            def per(x, g=g, elt=e.elt):
                inner = body_fn(elt)
                for cnd in reversed(g.ifs):
                    inner = [ast.If(test=cnd, body=inner, orelse=[])]
                return [ast.Assign(targets=[g.target], value=x)] + inner
            out = self._loops_for(g.iter, per, at, depth + 1)
        else:
            t = self.tmp()
            body = body_fn(ast.Name(id=t, ctx=ast.Load()))
            loop = ast.For(target=ast.Name(id=t, ctx=ast.Store()), iter=e, body=body or [ast.Pass()], orelse=[])
            loop._qcl_plain = True      # already a plain loop over its iterable: not taken apart again
            out = [loop]
        if out is None:
            return None
        for n in out:
            for m in ast.walk(n):
                if not hasattr(m, "lineno"):
                    ast.copy_location(m, at)
            ast.fix_missing_locations(n)
        return out

    def _desugar_collect(self, st: ast.stmt, e: ast.expr) -> Optional[List[ast.stmt]]:
        """``x = list(<pipeline>)`` / ``return list(<pipeline>)``  ->  the accumulator loop nest"""
        if isinstance(st, ast.Return):
            name = self.tmp()
            tail: List[ast.stmt] = [ast.Return(value=ast.Name(id=name, ctx=ast.Load()))]
        else:
            tg = st.targets[0] if isinstance(st, ast.Assign) else st.target
            if not isinstance(tg, ast.Name):
                return None
            name, tail = tg.id, []
        head: List[ast.stmt] = [ast.Assign(targets=[ast.Name(id=name, ctx=ast.Store())], value=ast.List(elts=[], ctx=ast.Load()))]

        def add(x):
            return [ast.Expr(value=ast.Call(func=ast.Attribute(value=ast.Name(id=name, ctx=ast.Load()), attr="append", ctx=ast.Load()), args=[x], keywords=[]))]
        nest = self._loops_for(e, add, st)
        if nest is None:
            return None
        out = head + nest + tail
        for n in out:
            for m in ast.walk(n):
                if not hasattr(m, "lineno"):
                    ast.copy_location(m, st)
            ast.fix_missing_locations(n)
        return out

    # -- N13 ------------------------------------------------------------------------------------------
    def _index_while(self, st: ast.While) -> Optional[ast.For]:
        """``i = len(L); while i > 0: i -= 1; body(L[i])``  ->  ``for x in reversed(L): body(x)``
        ``i = 0; while i < len(L): body(L[i]); i += 1``      ->  ``for x in L: body(x)``   (i used only to index L; no continue in the 2nd form)"""
        if st.orelse or self.root is None or not isinstance(st.test, ast.Compare) or len(st.test.ops) != 1 or not isinstance(st.test.left, ast.Name):
            return None
        i = st.test.left.id
        binds = [n for n in ast.walk(self.root) if isinstance(n, (ast.Assign, ast.AnnAssign)) and n.value is not None and
                 any(isinstance(t, ast.Name) and t.id == i for t in (n.targets if isinstance(n, ast.Assign) else [n.target]))]
        augs = [n for n in ast.walk(self.root) if isinstance(n, ast.AugAssign) and isinstance(n.target, ast.Name) and n.target.id == i]
        if len(binds) != 1 or len(augs) != 1 or binds[0].lineno > st.lineno:
            return None
        init, aug = binds[0].value, augs[0]
        if not (isinstance(aug.value, ast.Constant) and aug.value.value == 1):
            return None

        def len_of(e):
            if isinstance(e, ast.Call) and isinstance(e.func, ast.Name) and e.func.id == "len" and len(e.args) == 1 and isinstance(e.args[0], ast.Name):
                return e.args[0].id
            return None
        backward = isinstance(st.test.ops[0], ast.Gt) and isinstance(st.test.comparators[0], ast.Constant) and st.test.comparators[0].value == 0 \
            and len_of(init) is not None and isinstance(aug.op, ast.Sub) and st.body and st.body[0] is aug
        forward = isinstance(st.test.ops[0], ast.Lt) and len_of(st.test.comparators[0]) is not None and isinstance(init, ast.Constant) and init.value == 0 \
            and isinstance(aug.op, ast.Add) and st.body and st.body[-1] is aug and not any(isinstance(n, ast.Continue) for n in ast.walk(st))
        if not (backward or forward):
            return None
        L = len_of(init) if backward else len_of(st.test.comparators[0])
        rest = st.body[1:] if backward else st.body[:-1]
        # i only indexes L; L itself is not rebound or mutated in the loop
        for b in rest:
            for n in ast.walk(b):
                if isinstance(n, ast.Name) and n.id == i:
                    par_ok = any(isinstance(p, ast.Subscript) and p.slice is n and isinstance(p.value, ast.Name) and p.value.id == L for p in ast.walk(b))
                    if not par_ok:
                        return None
                if isinstance(n, ast.Name) and n.id == L and isinstance(n.ctx, ast.Store):
                    return None
        x = self.tmp()

        def repl(node: ast.AST) -> ast.AST:
            if isinstance(node, ast.Subscript) and isinstance(node.value, ast.Name) and node.value.id == L and isinstance(node.slice, ast.Name) and node.slice.id == i:
                return ast.copy_location(ast.Name(id=x, ctx=ast.Load()), node)
            new = copy.copy(node)
            for field, val in ast.iter_fields(node):
                if isinstance(val, ast.AST):
                    setattr(new, field, repl(val))
                elif isinstance(val, list):
                    setattr(new, field, [repl(v) if isinstance(v, ast.AST) else v for v in val])
            return new
        it: ast.expr = ast.Name(id=L, ctx=ast.Load())
        if backward:
            it = ast.Call(func=ast.Name(id="reversed", ctx=ast.Load()), args=[it], keywords=[])
        new = ast.For(target=ast.Name(id=x, ctx=ast.Store()), iter=it, body=[repl(b) for b in rest] or [ast.Pass()], orelse=[])
        ast.copy_location(new, st)
        ast.fix_missing_locations(new)
        return new

    # -- N9 -------------------------------------------------------------------------------------------
    def _iterator_while(self, st: ast.While) -> Optional[ast.For]:
        """``it = iter(X)`` ... ``while (v := next(it, S)) is not S: body``  ->  ``for v in X: body`` (the iterator protocol spelled out)"""
        t = st.test
        if not (isinstance(t, ast.Compare) and len(t.ops) == 1 and isinstance(t.ops[0], ast.IsNot) and isinstance(t.left, ast.NamedExpr)
                and isinstance(t.left.target, ast.Name) and isinstance(t.comparators[0], ast.Name)) or st.orelse or self.root is None:
            return None
        call = t.left.value
        if not (isinstance(call, ast.Call) and isinstance(call.func, ast.Name) and call.func.id == "next" and len(call.args) == 2 and not call.keywords
                and isinstance(call.args[0], ast.Name) and isinstance(call.args[1], ast.Name) and call.args[1].id == t.comparators[0].id):
            return None
        it_name, sentinel = call.args[0].id, call.args[1].id

        def bindings(name):
            return [n for n in ast.walk(self.root) if isinstance(n, (ast.Assign, ast.AnnAssign)) and
                    any(isinstance(x, ast.Name) and x.id == name for x in (n.targets if isinstance(n, ast.Assign) else [n.target]))]
        bi, bs = bindings(it_name), bindings(sentinel)
        loads_it = [n for n in ast.walk(self.root) if isinstance(n, ast.Name) and n.id == it_name and isinstance(n.ctx, ast.Load)]
        if len(bi) != 1 or len(bs) != 1 or len(loads_it) != 1:
            return None
        v = bi[0].value
        if not (isinstance(v, ast.Call) and isinstance(v.func, ast.Name) and v.func.id == "iter" and len(v.args) == 1 and not v.keywords):
            return None
        sv = bs[0].value
        if not (isinstance(sv, ast.Call) and isinstance(sv.func, ast.Name) and sv.func.id == "object" and not sv.args):
            return None   # only a fresh sentinel can never be an element
        new = ast.For(target=ast.Name(id=t.left.target.id, ctx=ast.Store()), iter=v.args[0], body=list(st.body), orelse=[])
        ast.copy_location(new, st)
        ast.fix_missing_locations(new)
        return new

    # -- N8 -------------------------------------------------------------------------------------------
    def _match_as_if(self, st: ast.Match) -> Optional[List[ast.stmt]]:
        """``match subject: case P [if g]: body ...``  ->  the if / elif chain it abbreviates (class patterns with keyword sub-patterns, sequence
        patterns against a tuple display, literals / dotted constants / None, captures, wildcards, or-patterns without captures)."""
        subject = st.subject
        pre: List[ast.stmt] = []
        if not isinstance(subject, (ast.Name, ast.Tuple)):
            name = self.tmp()
            pre.append(ast.Assign(targets=[ast.Name(id=name, ctx=ast.Store())], value=subject))
            subject = ast.Name(id=name, ctx=ast.Load())
        elif isinstance(subject, ast.Tuple):
            elts = []
            for e in subject.elts:
                if isinstance(e, (ast.Name, ast.Constant)):
                    elts.append(e)
                else:
                    name = self.tmp()
                    pre.append(ast.Assign(targets=[ast.Name(id=name, ctx=ast.Store())], value=e))
                    elts.append(ast.Name(id=name, ctx=ast.Load()))
            subject = ast.Tuple(elts=elts, ctx=ast.Load())
        cases = []
        for c in st.cases:
            r = self._pattern(c.pattern, subject)
            if r is None:
                return None
            tests, binds = r
            guard = c.guard
            if guard is not None and binds:
                guard = _subst_names(guard, dict(binds))
            if guard is not None:
                tests = tests + [guard]
            test = ast.Constant(value=True) if not tests else (tests[0] if len(tests) == 1 else ast.BoolOp(op=ast.And(), values=tests))
            body = [ast.Assign(targets=[ast.Name(id=n, ctx=ast.Store())], value=v) for n, v in binds] + list(c.body)
            cases.append((test, body))
        chain: List[ast.stmt] = []
        for test, body in reversed(cases):
            if isinstance(test, ast.Constant) and test.value is True:
                chain = body
            else:
                chain = [ast.If(test=test, body=body, orelse=chain)]
        out = pre + chain
        for n in out:
            for m in ast.walk(n):
                if not hasattr(m, "lineno"):
                    ast.copy_location(m, st)
            ast.copy_location(n, st) if not hasattr(n, "lineno") else None
            ast.fix_missing_locations(n)
        return out

    def _pattern(self, pat: ast.pattern, subj: ast.expr):
        """-> ([test expressions], [(captured name, expression)]) or None when the pattern is outside the supported fragment"""
        if isinstance(pat, ast.MatchAs):
            if pat.pattern is None:
                return ([], [(pat.name, subj)] if pat.name else [])
            r = self._pattern(pat.pattern, subj)
            if r is None:
                return None
            return (r[0], r[1] + ([(pat.name, subj)] if pat.name else []))
        if isinstance(pat, ast.MatchSingleton):
            return ([ast.Compare(left=subj, ops=[ast.Is()], comparators=[ast.Constant(value=pat.value)])], [])
        if isinstance(pat, ast.MatchValue):
            return ([ast.Compare(left=subj, ops=[ast.Eq()], comparators=[pat.value])], [])
        if isinstance(pat, ast.MatchOr):
            alts = []
            for p2 in pat.patterns:
                r = self._pattern(p2, subj)
                if r is None or r[1]:
                    return None
                alts.append(ast.Constant(value=True) if not r[0] else (r[0][0] if len(r[0]) == 1 else ast.BoolOp(op=ast.And(), values=r[0])))
            if any(isinstance(a, ast.Constant) and a.value is True for a in alts):
                return ([], [])
            return ([ast.BoolOp(op=ast.Or(), values=alts)], [])
        if isinstance(pat, ast.MatchSequence) and not isinstance(subj, ast.Tuple):
            # a sequence pattern against a value: right length, then element by element (the subject is taken to be a list / tuple)
            if any(isinstance(p2, ast.MatchStar) for p2 in pat.patterns):
                return None
            tests = [ast.Compare(left=ast.Call(func=ast.Name(id="len", ctx=ast.Load()), args=[subj], keywords=[]), ops=[ast.Eq()],
                                 comparators=[ast.Constant(value=len(pat.patterns))])]
            binds = []
            for i, p2 in enumerate(pat.patterns):
                r = self._pattern(p2, ast.Subscript(value=subj, slice=ast.Constant(value=i), ctx=ast.Load()))
                if r is None:
                    return None
                tests += r[0]
                binds += r[1]
            return (tests, binds)
        if isinstance(pat, ast.MatchSequence):
            if not isinstance(subj, ast.Tuple) or len(subj.elts) != len(pat.patterns) or any(isinstance(p2, ast.MatchStar) for p2 in pat.patterns):
                return None
            tests, binds = [], []
            for p2, e in zip(pat.patterns, subj.elts):
                r = self._pattern(p2, e)
                if r is None:
                    return None
                tests += r[0]
                binds += r[1]
            return (tests, binds)
        if isinstance(pat, ast.MatchClass):
            if pat.patterns:
                return None   # positional sub-patterns need __match_args__
            tests = [ast.Call(func=ast.Name(id="isinstance", ctx=ast.Load()), args=[subj, pat.cls], keywords=[])]
            binds = []
            for attr, p2 in zip(pat.kwd_attrs, pat.kwd_patterns):
                r = self._pattern(p2, ast.Attribute(value=subj, attr=attr, ctx=ast.Load()))
                if r is None:
                    return None
                tests += r[0]
                binds += r[1]
            return (tests, binds)
        return None

    # -- N7 -------------------------------------------------------------------------------------------
    def _generator_loop(self, st: ast.For) -> Optional[List[ast.stmt]]:
        """``for x in _gen(a, b): body`` over a private generator function  ->  the generator's body with every ``yield e`` replaced by
        ``x = e; body`` (parameters bound first, the generator's own names kept apart)"""
        it = st.iter
        if not isinstance(it, ast.Call) or st.orelse:
            return None
        d = self.helper_def(it) or self.generator_def(it)
        if d is None or not any(isinstance(n, (ast.Yield, ast.YieldFrom)) for n in ast.walk(d)):
            return None
        if any(isinstance(n, (ast.Try, ast.With)) for n in ast.walk(d)) or any(isinstance(n, ast.Return) and n.value is not None for n in ast.walk(d)):
            return None
        if any(isinstance(n, ast.Return) for n in ast.walk(d)):
            return None   # an early ``return`` ends the generator: not a straight-line unfolding
        if any(isinstance(n, (ast.Break, ast.Return, ast.Yield)) for b in st.body for n in ast.walk(b)):
            return None
        if any(isinstance(n, ast.Continue) for b in st.body for n in ast.walk(b)) or any(isinstance(n, ast.Continue) for n in ast.walk(d)):
            # ``continue`` in the consumer body / in the generator is only the same thing when every yield is the last statement of its loop body
            if not _yields_are_tails(d):
                return None
        # every yield must be an expression statement of its own
        for n in ast.walk(d):
            if isinstance(n, ast.Yield):
                pass
        ys = [n for n in ast.walk(d) if isinstance(n, ast.Expr) and isinstance(n.value, (ast.Yield, ast.YieldFrom))]
        if len(ys) != len([n for n in ast.walk(d) if isinstance(n, (ast.Yield, ast.YieldFrom))]) or any(y.value.value is None for y in ys):
            return None
        if any(isinstance(a, ast.Starred) for a in it.args) or any(k.arg is None for k in it.keywords) or d.args.vararg or d.args.kwarg:
            return None
        self.n += 1
        pre = f"__qcl_g{self.n}_"
        params = [a.arg for a in d.args.posonlyargs + d.args.args + d.args.kwonlyargs]
        is_method = isinstance(it.func, ast.Attribute) and params and params[0] in ("self", "cls") and not any(
            isinstance(x, ast.Name) and x.id == "staticmethod" for x in d.decorator_list)
        own = set(params)
        for n in ast.walk(d):
            if isinstance(n, ast.Name) and isinstance(n.ctx, ast.Store):
                own.add(n.id)
        if is_method:
            own.discard(params[0])
        ren = {n: pre + n for n in own}
        binds: List[ast.stmt] = []
        formal = params[1:] if is_method else params
        given = dict(zip(formal, it.args))
        if len(it.args) > len(formal):
            return None
        for k in it.keywords:
            given[k.arg] = k.value
        positional = [a.arg for a in d.args.posonlyargs + d.args.args]
        defaults = dict(zip(positional[::-1], d.args.defaults[::-1]))
        for a, dv in zip(d.args.kwonlyargs, d.args.kw_defaults):
            if dv is not None:
                defaults[a.arg] = dv
        for name in formal:
            v = given.get(name, defaults.get(name))
            if v is None:
                return None
            binds.append(ast.Assign(targets=[ast.Name(id=ren[name], ctx=ast.Store())], value=v))
        self_expr = it.func.value if is_method else None

        def rename(node: ast.AST) -> ast.AST:
            new = copy.copy(node)
            if isinstance(new, ast.Name):
                if is_method and new.id == params[0] and self_expr is not None:
                    return copy.copy(self_expr)
                if new.id in ren:
                    new.id = ren[new.id]
                return new
            for field, val in ast.iter_fields(node):
                if isinstance(val, ast.AST):
                    setattr(new, field, rename(val))
                elif isinstance(val, list):
                    setattr(new, field, [rename(x) if isinstance(x, ast.AST) else x for x in val])
            return new

        def unfold(stmts: List[ast.stmt]) -> List[ast.stmt]:
            out: List[ast.stmt] = []
            for s_ in stmts:
                if isinstance(s_, ast.Expr) and isinstance(s_.value, ast.Constant):
                    continue
                if isinstance(s_, ast.Expr) and isinstance(s_.value, ast.Yield):
                    out.append(ast.Assign(targets=[st.target], value=rename(s_.value.value)))
                    out.extend(copy.deepcopy(st.body))
                    continue
                if isinstance(s_, ast.Expr) and isinstance(s_.value, ast.YieldFrom):
                    # ``yield from E``: every element of E is handed to the consumer
                    out.append(ast.For(target=copy.deepcopy(st.target), iter=rename(s_.value.value), body=copy.deepcopy(st.body), orelse=[]))
                    continue
                if isinstance(s_, (ast.If, ast.For, ast.While)):
                    n2 = copy.copy(s_)
                    if isinstance(s_, ast.If):
                        n2.test = rename(s_.test)
                    elif isinstance(s_, ast.For):
                        n2.target, n2.iter = rename(s_.target), rename(s_.iter)
                    else:
                        n2.test = rename(s_.test)
                    n2.body = unfold(s_.body)
                    n2.orelse = unfold(s_.orelse)
                    out.append(n2)
                    continue
                out.append(rename(s_))
            return out

        res = binds + unfold(list(d.body))
        for n in res:
            for m in ast.walk(n):
                if not hasattr(m, "lineno") or True:
                    ast.copy_location(m, st)
            ast.fix_missing_locations(n)
        return res

    # -- N6 -------------------------------------------------------------------------------------------
    def _as_genexp(self, node: ast.expr) -> Optional[ast.GeneratorExp]:
        """a generator expression, or the one ``filter(p, D)`` / ``map(f, D)`` abbreviates"""
        if isinstance(node, ast.GeneratorExp):
            return node
        if isinstance(node, ast.Call) and isinstance(node.func, ast.Name) and node.func.id in ("filter", "map") and len(node.args) == 2 and not node.keywords \
                and not any(isinstance(a, ast.Starred) for a in node.args):
            x = self.tmp()
            f, d = node.args
            call = ast.Call(func=copy.deepcopy(f), args=[ast.Name(id=x, ctx=ast.Load())], keywords=[])
            if node.func.id == "filter":
                test = ast.Name(id=x, ctx=ast.Load()) if isinstance(f, ast.Constant) and f.value is None else call
                g = ast.GeneratorExp(elt=ast.Name(id=x, ctx=ast.Load()), generators=[ast.comprehension(target=ast.Name(id=x, ctx=ast.Store()), iter=copy.deepcopy(d), ifs=[test], is_async=0)])
            else:
                g = ast.GeneratorExp(elt=call, generators=[ast.comprehension(target=ast.Name(id=x, ctx=ast.Store()), iter=copy.deepcopy(d), ifs=[], is_async=0)])
            ast.copy_location(g, node)
            ast.fix_missing_locations(g)
            return g
        return None

    def _enumerate_loop(self, st: ast.For) -> Optional[List[ast.stmt]]:
        """``for i, x in enumerate(G): body`` over a *filtered/mapped generator* G  ->  ``cnt = 0; for x in G: i = cnt; cnt += 1; body``
        (the position in a filtered stream is a counter of the elements that pass the filter)"""
        it = st.iter
        if not (isinstance(it, ast.Call) and isinstance(it.func, ast.Name) and it.func.id == "enumerate" and len(it.args) == 1 and not it.keywords):
            return None
        if not (isinstance(st.target, ast.Tuple) and len(st.target.elts) == 2 and isinstance(st.target.elts[0], ast.Name)) or st.orelse:
            return None
        src = it.args[0]
        gen = src
        if isinstance(src, ast.Name) and self.root is not None:
            binds = [n for n in ast.walk(self.root) if isinstance(n, (ast.Assign, ast.AnnAssign)) and
                     any(isinstance(t, ast.Name) and t.id == src.id for t in (n.targets if isinstance(n, ast.Assign) else [n.target]))]
            loads = [n for n in ast.walk(self.root) if isinstance(n, ast.Name) and n.id == src.id and isinstance(n.ctx, ast.Load)]
            if len(binds) == 1:
                gen = binds[0].value
                if not isinstance(gen, ast.GeneratorExp) and len(loads) == 1 and self._as_genexp(gen) is not None:
                    src = self._as_genexp(gen)      # a lazily filtered / mapped stream bound to a name that is consumed only here
                    gen = src
        elif self._as_genexp(src) is not None and not isinstance(src, ast.GeneratorExp):
            src = gen = self._as_genexp(src)
        if not isinstance(gen, ast.GeneratorExp):
            return None   # plain enumerate over a sequence is read as it is
        cnt = self.tmp()
        init = ast.Assign(targets=[ast.Name(id=cnt, ctx=ast.Store())], value=ast.Constant(value=0))
        take = ast.Assign(targets=[ast.Name(id=st.target.elts[0].id, ctx=ast.Store())], value=ast.Name(id=cnt, ctx=ast.Load()))
        step = ast.AugAssign(target=ast.Name(id=cnt, ctx=ast.Store()), op=ast.Add(), value=ast.Constant(value=1))
        loop = ast.For(target=st.target.elts[1], iter=src, body=[take, step] + list(st.body), orelse=[])
        for n in (init, take, step, loop):
            ast.copy_location(n, st)
            ast.fix_missing_locations(n)
        return [init, loop]

    # -- N5 -------------------------------------------------------------------------------------------
    def _mapped_loop(self, st: ast.For) -> Optional[ast.For]:
        """``for y in (f(x) for x in D if c): body``  ->  ``for x in D: if c: y = f(x); body`` (also through a local name that is bound once to
        the comprehension and used only here)"""
        it = st.iter
        if isinstance(it, ast.Name) and self.root is not None:
            binds = [n for n in ast.walk(self.root) if isinstance(n, (ast.Assign, ast.AnnAssign)) and
                     any(isinstance(t, ast.Name) and t.id == it.id for t in (n.targets if isinstance(n, ast.Assign) else [n.target]))]
            loads = [n for n in ast.walk(self.root) if isinstance(n, ast.Name) and n.id == it.id and isinstance(n.ctx, ast.Load)]
            if len(binds) == 1 and len(loads) == 1 and isinstance(binds[0].value, ast.GeneratorExp) and binds[0].lineno < st.lineno:
                it = binds[0].value
        if not isinstance(it, ast.GeneratorExp) or len(it.generators) != 1 or it.generators[0].is_async or st.orelse:
            return None
        if any(isinstance(n, (ast.Break,)) for n in ast.walk(st)) and it.generators[0].ifs:
            pass
        g = it.generators[0]
        same = isinstance(g.target, ast.Name) and isinstance(st.target, ast.Name) and isinstance(it.elt, ast.Name) \
            and g.target.id == st.target.id == it.elt.id
        if not same and {n.id for n in ast.walk(g.target) if isinstance(n, ast.Name)} & {n.id for n in ast.walk(st.target) if isinstance(n, ast.Name)}:
            return None
        bind = ast.Assign(targets=[st.target], value=it.elt)
        body: List[ast.stmt] = ([] if same else [bind]) + list(st.body)
        for c in reversed(g.ifs):
            body = [ast.If(test=c, body=body, orelse=[])]
        new = ast.For(target=g.target, iter=g.iter, body=body, orelse=[])
        for n in [new, bind] + [b for b in body if isinstance(b, ast.If)]:
            ast.copy_location(n, st)
        ast.fix_missing_locations(new)
        return new

    def hoist(self, e: ast.expr, at: ast.AST):
        calls = self._calls_in(e)
        if not calls:
            return [], e
        pre: List[ast.stmt] = []
        mapping: Dict[int, str] = {}
        for c in calls:
            name = self.tmp()
            mapping[id(c)] = name
        e2 = _replace(e, mapping)
        for c in calls:
            inner = _replace_children(c, mapping)
            asg = ast.Assign(targets=[ast.Name(id=mapping[id(c)], ctx=ast.Store())], value=inner)
            ast.copy_location(asg, at)
            ast.fix_missing_locations(asg)
            pre.extend(self.stmt(asg))
        return pre, e2

    # -- N1 -------------------------------------------------------------------------------------------
    def _next_form(self, v: ast.expr):
        if isinstance(v, ast.Call) and isinstance(v.func, ast.Name) and v.func.id == "next" and len(v.args) == 2 and not v.keywords:
            src = self._deref(v.args[0])
            d = v.args[1]
            if isinstance(d, ast.Name) and self.fn is not None:
                tgt = self.model.lookup_symbol(self.fn.module, d.id)
                if isinstance(tgt, tuple) and tgt[0] == "const" and isinstance(tgt[1], ast.Call) and isinstance(tgt[1].func, ast.Name) and tgt[1].func.id == "object":
                    return None     # ``next(.., MARKER)`` followed by a test against the marker is read as a value ("nothing selected")
            if isinstance(src, ast.GeneratorExp) and len(src.generators) == 1 and not src.generators[0].is_async:
                it = src.generators[0].iter
                if isinstance(it, (ast.Tuple, ast.List)):
                    return None     # a search through a display is read as a value (case by case), not as a loop
                if isinstance(it, ast.Name) and self.fn is not None:
                    tgt = self.model.lookup_symbol(self.fn.module, it.id)
                    if isinstance(tgt, tuple) and tgt[0] == "const" and isinstance(tgt[1], (ast.Tuple, ast.List)):
                        return None
                return src, v.args[1]
            if self._is_pipeline(src):
                return src, v.args[1]
        return None

    def _desugar_next(self, st: ast.stmt, gen, default: ast.expr) -> List[ast.stmt]:
        if not isinstance(gen, ast.GeneratorExp):
            # next(filter(p, xs), d) / next(map(f, xs), d): first element of the pipeline
            if isinstance(st, ast.Return):
                nest = self._loops_for(gen, lambda x: [ast.Return(value=x)], st)
                tail: List[ast.stmt] = [ast.Return(value=default)]
                if nest is None:
                    return [st]
                out = nest + tail
            else:
                tg = st.targets if isinstance(st, ast.Assign) else [st.target]
                nest = self._loops_for(gen, lambda x: [ast.Assign(targets=list(tg), value=x), ast.Break()], st)
                if nest is None or len(nest) != 1 or not isinstance(nest[0], ast.For):
                    return [st]
                # only a single (non-nested) loop can carry the for/else default
                if any(isinstance(n, ast.For) for b in nest[0].body for n in ast.walk(b)):
                    return [st]
                nest[0].orelse = [ast.Assign(targets=list(tg), value=default)]
                out = nest
            for n in out:
                for m in ast.walk(n):
                    if not hasattr(m, "lineno"):
                        ast.copy_location(m, st)
                ast.fix_missing_locations(n)
            return out
        g = gen.generators[0]
        if isinstance(st, ast.Return):
            hit: List[ast.stmt] = [ast.Return(value=gen.elt)]
            tail: List[ast.stmt] = [ast.Return(value=default)]
            orelse: List[ast.stmt] = []
        else:
            tg = st.targets if isinstance(st, ast.Assign) else [st.target]
            hit = [ast.Assign(targets=list(tg), value=gen.elt), ast.Break()]
            orelse = [ast.Assign(targets=list(tg), value=default)]
            tail = []
        body = hit
        for c in reversed(g.ifs):
            body = [ast.If(test=c, body=body, orelse=[])]
        loop = ast.For(target=g.target, iter=g.iter, body=body, orelse=orelse)
        out = [loop] + tail
        for n in out:
            ast.copy_location(n, st)
            ast.fix_missing_locations(n)
        return out

    # -- N2 -------------------------------------------------------------------------------------------
    def _desugar_listcomp(self, st: ast.stmt, comp: ast.ListComp) -> List[ast.stmt]:
        if isinstance(st, ast.Return):
            name = self.tmp()
            head: List[ast.stmt] = [ast.Assign(targets=[ast.Name(id=name, ctx=ast.Store())], value=ast.List(elts=[], ctx=ast.Load()))]
            tail: List[ast.stmt] = [ast.Return(value=ast.Name(id=name, ctx=ast.Load()))]
        else:
            tg = st.targets[0] if isinstance(st, ast.Assign) else st.target
            if not isinstance(tg, ast.Name):
                return [st]
            name = tg.id
            if isinstance(st, ast.AnnAssign):
                head = [ast.AnnAssign(target=ast.Name(id=name, ctx=ast.Store()), annotation=st.annotation, value=ast.List(elts=[], ctx=ast.Load()), simple=1)]
            else:
                head = [ast.Assign(targets=[ast.Name(id=name, ctx=ast.Store())], value=ast.List(elts=[], ctx=ast.Load()))]
            tail = []
        body: List[ast.stmt] = [ast.Expr(value=ast.Call(func=ast.Attribute(value=ast.Name(id=name, ctx=ast.Load()), attr="append", ctx=ast.Load()),
                                                        args=[comp.elt], keywords=[]))]
        for g in reversed(comp.generators):
            for c in reversed(g.ifs):
                body = [ast.If(test=c, body=body, orelse=[])]
            body = [ast.For(target=g.target, iter=g.iter, body=body, orelse=[])]
        out = head + body + tail
        for n in out:
            ast.copy_location(n, st)
            ast.fix_missing_locations(n)
        return out


def _yields_are_tails(d: ast.FunctionDef) -> bool:
    """every ``yield`` is directly followed by ``continue`` or is the last statement of its block (then a ``continue`` of the consumer placed
    at the yield, and a ``continue`` of the generator, both move on to the next element)"""
    def block_ok(stmts, in_loop) -> bool:
        for i, s_ in enumerate(stmts):
            if isinstance(s_, ast.Expr) and isinstance(s_.value, (ast.Yield, ast.YieldFrom)):
                nxt = stmts[i + 1] if i + 1 < len(stmts) else None
                if not (nxt is None or isinstance(nxt, ast.Continue)):
                    return False
            for sub in ("body", "orelse"):
                if isinstance(getattr(s_, sub, None), list) and not isinstance(s_, (ast.FunctionDef, ast.ClassDef)):
                    if not block_ok(getattr(s_, sub), in_loop or isinstance(s_, (ast.For, ast.While))):
                        return False
        return True
    return block_ok(d.body, False)


def _subst_names(e: ast.AST, mp: Dict[str, ast.expr]) -> ast.AST:
    if isinstance(e, ast.Name) and isinstance(e.ctx, ast.Load) and e.id in mp:
        return copy.deepcopy(mp[e.id])
    new = copy.copy(e)
    for field, val in ast.iter_fields(e):
        if isinstance(val, ast.AST):
            setattr(new, field, _subst_names(val, mp))
        elif isinstance(val, list):
            setattr(new, field, [_subst_names(x, mp) if isinstance(x, ast.AST) else x for x in val])
    return new


def _as_extend(st: ast.For, it: ast.expr) -> Optional[ast.stmt]:
    """N4  ``for x in X: acc.append(x)``  ->  ``acc.extend(X)``"""
    if st.orelse or len(st.body) != 1 or not isinstance(st.target, ast.Name):
        return None
    b = st.body[0]
    if not (isinstance(b, ast.Expr) and isinstance(b.value, ast.Call) and isinstance(b.value.func, ast.Attribute) and b.value.func.attr == "append"
            and isinstance(b.value.func.value, ast.Name) and len(b.value.args) == 1 and not b.value.keywords
            and isinstance(b.value.args[0], ast.Name) and b.value.args[0].id == st.target.id and b.value.func.value.id != st.target.id):
        return None
    new = ast.Expr(value=ast.Call(func=ast.Attribute(value=ast.Name(id=b.value.func.value.id, ctx=ast.Load()), attr="extend", ctx=ast.Load()), args=[it], keywords=[]))
    ast.copy_location(new, st)
    ast.fix_missing_locations(new)
    return new


def _replace(e: ast.AST, mapping: Dict[int, str]) -> ast.AST:
    """copy of ``e`` with the call nodes in ``mapping`` (by identity) replaced by their temporaries"""
    if id(e) in mapping:
        n = ast.Name(id=mapping[id(e)], ctx=ast.Load())
        return ast.copy_location(n, e)
    return _replace_children(e, mapping)


def _replace_children(e: ast.AST, mapping: Dict[int, str]) -> ast.AST:
    new = copy.copy(e)
    for field, val in ast.iter_fields(e):
        if isinstance(val, ast.AST):
            setattr(new, field, _replace(val, mapping))
        elif isinstance(val, list):
            setattr(new, field, [_replace(x, mapping) if isinstance(x, ast.AST) else x for x in val])
    return new
