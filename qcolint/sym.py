"""E4a / E4b -- normal forms.

``Evaluator`` turns the body of a small, loop-free function into *guarded outcomes*
``[(path-condition, kind, value)]`` over hashable terms, inlining local assignments, properties and
(bounded) simple methods of the analysed package.  Arithmetic is normalised to an affine form
``Σ cᵢ·atomᵢ + c₀`` over ``Fraction``; Boolean structure is kept as and/or/not over atoms so that two
formulations can be compared by their truth tables (``truth_table`` / ``equivalent``).

Nothing here executes repository code: the source is interpreted abstractly, symbol by symbol.
"""
from __future__ import annotations

import ast
import itertools
from fractions import Fraction
from typing import Any, Callable, Dict, Iterable, List, Optional, Sequence, Tuple

from .model import AnalysisError, ClassInfo, FunctionInfo, Model, ModuleInfo, dotted, strip_subscript


class Unsupported(AnalysisError):
    """Code outside the fragment the normaliser understands."""


Term = tuple

TRUE: Term = ("const", True)
FALSE: Term = ("const", False)
NONE: Term = ("const", None)


# ------------------------------------------------------------------------------------------------
# term constructors / affine arithmetic
# ------------------------------------------------------------------------------------------------
def const(v) -> Term:
    if isinstance(v, bool) or v is None or isinstance(v, str):
        return ("const", v)
    if isinstance(v, (int, float)):
        return lin({}, Fraction(v).limit_denominator(10 ** 9) if isinstance(v, float) else Fraction(v))
    return ("const", v)


def sym(name: str) -> Term:
    return ("sym", name)


def lin(coeffs: Dict[Term, Fraction], c0: Fraction = Fraction(0)) -> Term:
    items = tuple(sorted(((a, c) for a, c in coeffs.items() if c != 0), key=lambda kv: repr(kv[0])))
    if len(items) == 1 and items[0][1] == 1 and c0 == 0:
        return items[0][0]
    return ("lin", items, Fraction(c0))


def as_lin(t: Term) -> Tuple[Dict[Term, Fraction], Fraction]:
    if t[0] == "lin":
        return dict(t[1]), t[2]
    if t[0] == "const" and isinstance(t[1], bool):
        return {}, Fraction(int(t[1]))
    return {t: Fraction(1)}, Fraction(0)


def is_number(t: Term) -> bool:
    return t[0] == "lin" and not t[1]


def number(t: Term) -> Optional[Fraction]:
    if t[0] == "lin" and not t[1]:
        return t[2]
    if t[0] == "const" and isinstance(t[1], bool):
        return Fraction(int(t[1]))
    return None


def t_add(a: Term, b: Term, sign: int = 1) -> Term:
    ca, ka = as_lin(a)
    cb, kb = as_lin(b)
    out = dict(ca)
    for k, v in cb.items():
        out[k] = out.get(k, Fraction(0)) + sign * v
    return lin(out, ka + sign * kb)


def t_scale(a: Term, f: Fraction) -> Term:
    ca, ka = as_lin(a)
    return lin({k: v * f for k, v in ca.items()}, ka * f)


def t_mul(a: Term, b: Term) -> Term:
    na, nb = number(a), number(b)
    if na is not None:
        return t_scale(b, na)
    if nb is not None:
        return t_scale(a, nb)
    # distribute products of affine forms into monomials so that (a+b)*c == a*c + b*c
    ca, ka = as_lin(a)
    cb, kb = as_lin(b)
    out: Dict[Term, Fraction] = {}
    k0 = ka * kb
    for x, cx in ca.items():
        if kb:
            out[x] = out.get(x, Fraction(0)) + cx * kb
        for y, cy in cb.items():
            m = mono(x, y)
            out[m] = out.get(m, Fraction(0)) + cx * cy
    for y, cy in cb.items():
        if ka:
            out[y] = out.get(y, Fraction(0)) + cy * ka
    return lin(out, k0)


def mono(x: Term, y: Term) -> Term:
    fx = list(x[1]) if x[0] == "mono" else [x]
    fy = list(y[1]) if y[0] == "mono" else [y]
    return ("mono", tuple(sorted(fx + fy, key=repr)))


def t_div(a: Term, b: Term) -> Term:
    nb = number(b)
    if nb is not None and nb != 0:
        return t_scale(a, Fraction(1) / nb)
    # (c * x) / b == c * (x / b): keeps  -t / t1  and  -(t / t1)  in one normal form
    if a[0] == "lin" and len(a[1]) == 1 and a[2] == 0:
        atom, c = a[1][0]
        return t_scale(("div", atom, b), c)
    return ("div", a, b)


def t_not(a: Term) -> Term:
    if a == TRUE:
        return FALSE
    if a == FALSE:
        return TRUE
    if a[0] == "not":
        return a[1]
    return ("not", a)


def t_and(*xs: Term) -> Term:
    flat: List[Term] = []
    for x in xs:
        if x == TRUE:
            continue
        if x == FALSE:
            return FALSE
        if x[0] == "and":
            flat.extend(x[1])
        else:
            flat.append(x)
    if not flat:
        return TRUE
    if len(flat) == 1:
        return flat[0]
    return ("and", tuple(flat))


def t_or(*xs: Term) -> Term:
    flat: List[Term] = []
    for x in xs:
        if x == FALSE:
            continue
        if x == TRUE:
            return TRUE
        if x[0] == "or":
            flat.extend(x[1])
        else:
            flat.append(x)
    if not flat:
        return FALSE
    if len(flat) == 1:
        return flat[0]
    return ("or", tuple(flat))


_CMP_FLIP = {"<": ">", ">": "<", "<=": ">=", ">=": "<=", "==": "==", "!=": "!=", "is": "is", "isnot": "isnot"}


def _identity_safe(t: Term) -> bool:
    """values for which ``is`` and ``==`` agree: None, True / False, enumeration members, module-level marker objects, classes and functions"""
    if not isinstance(t, tuple) or not t:
        return False
    if t[0] == "const":
        return t[1] is None or isinstance(t[1], bool)
    return t[0] in ("enum", "sentinel", "cls", "fn", "global")


def t_cmp(op: str, a: Term, b: Term) -> Term:
    """Canonical comparison.  Arithmetic comparisons become ``(cmp, op, a-b, 0)`` with a sign-normalised
    left side so that ``x > y`` and ``y < x`` are the same atom; (in)equalities order their operands."""
    if op in ("<", ">", "<=", ">="):
        d = t_add(a, b, -1)
        nd = number(d)
        if nd is not None:
            return const({"<": nd < 0, ">": nd > 0, "<=": nd <= 0, ">=": nd >= 0}[op])
        coeffs, k = as_lin(d)
        first = sorted(coeffs.items(), key=lambda kv: repr(kv[0]))[0][1]
        if first < 0:
            d = t_scale(d, Fraction(-1))
            op = _CMP_FLIP[op]
        # canonical: only '>' and '>=' plus negation
        if op == "<":
            return t_not(("cmp", ">=", d))
        if op == "<=":
            return t_not(("cmp", ">", d))
        return ("cmp", op, d)
    if op in ("==", "!=", "is", "isnot"):
        na, nb = number(a), number(b)
        if na is not None and nb is not None:
            r = na == nb
            if r and op in ("is", "isnot"):
                e = ("same", a, b)
                return e if op == "is" else t_not(e)
            return const(r if op in ("==", "is") else not r)
        if a[0] == "const" and b[0] == "const":
            r = a[1] == b[1]
            if r and op in ("is", "isnot") and not (_identity_safe(a) or _identity_safe(b)):
                # two equal strings / numbers need not be one object (values built at run time are not): identity stays open
                e = ("same", a, b)
                return e if op == "is" else t_not(e)
            return const(r if op in ("==", "is") else not r)
        if a[0] == "enum" and b[0] == "enum":
            r = a == b
            return const(r if op in ("==", "is") else not r)
        if (a[0] == "enum" and b == NONE) or (a == NONE and b[0] == "enum"):
            # a member of an enumeration is not None
            return const(op in ("!=", "isnot"))
        if a == b:
            return const(op in ("==", "is"))
        # numeric equality  a == b  ->  a-b == 0 when both affine with atoms
        if (a[0] == "lin" or b[0] == "lin") and op in ("==", "!="):
            d = t_add(a, b, -1)
            coeffs, k = as_lin(d)
            first = sorted(coeffs.items(), key=lambda kv: repr(kv[0]))[0][1]
            if first < 0:
                d = t_scale(d, Fraction(-1))
            e = ("eq", d, lin({}, Fraction(0)))
            return e if op == "==" else t_not(e)
        x, y = sorted([a, b], key=repr)
        # 'is' and '==' against None / enum members / booleans / sentinels / classes are the same relation; between two ordinary values (strings, numbers,
        # containers, objects with value equality) identity is a DIFFERENT relation and gets its own atom
        if op in ("is", "isnot") and not (_identity_safe(a) or _identity_safe(b)):
            e = ("same", x, y)
            return e if op == "is" else t_not(e)
        e = ("eq", x, y)
        return e if op in ("==", "is") else t_not(e)
    if op == "in":
        return ("in", a, b)
    if op == "notin":
        return t_not(("in", a, b))
    raise Unsupported(f"comparison operator {op}")


def t_ite(c: Term, a: Term, b: Term) -> Term:
    if c == TRUE:
        return a
    if c == FALSE:
        return b
    if a == b:
        return a
    if a == TRUE and b == FALSE:
        return c
    if a == FALSE and b == TRUE:
        return t_not(c)
    if a in (TRUE, FALSE) or b in (TRUE, FALSE):
        # a two-way choice between truth values is a formula
        if a == TRUE:
            return t_or(c, b)
        if a == FALSE:
            return t_and(t_not(c), b)
        if b == TRUE:
            return t_or(t_not(c), a)
        if b == FALSE:
            return t_and(c, a)
    if c[0] == "not" and c[1][0] == "cmp":
        return t_ite(c[1], b, a)
    if c[0] == "cmp" and c[1] in (">", ">=") and a[0] in ("lin", "attr", "call", "sym", "sub", "item", "max", "min") and b[0] in ("lin", "attr", "call", "sym", "sub", "item", "max", "min"):
        # ``a if a > b else b`` is max(a, b); ``a if b > a else b`` is min(a, b)
        try:
            if t_add(a, b, -1) == c[2]:
                return ("max", tuple(sorted([a, b], key=repr)))
            if t_add(b, a, -1) == c[2]:
                return ("min", tuple(sorted([a, b], key=repr)))
        except Exception:
            pass
    return ("ite", c, a, b)


def show(t: Any) -> str:
    """Readable rendering of a term."""
    if not isinstance(t, tuple) or not t:
        return repr(t)
    k = t[0]
    if k == "const":
        return repr(t[1])
    if k == "sym":
        return t[1]
    if k == "enum":
        return f"{t[1]}.{t[2]}"
    if k == "cls":
        return t[1]
    if k == "attr":
        return f"{show(t[1])}.{t[2]}"
    if k == "lin":
        parts = []
        for a, c in t[1]:
            if c == 1:
                parts.append(f"+ {show(a)}")
            elif c == -1:
                parts.append(f"- {show(a)}")
            else:
                parts.append(f"{'+' if c > 0 else '-'} {abs(c)}*{show(a)}")
        if t[2] != 0 or not parts:
            parts.append(f"{'+' if t[2] >= 0 else '-'} {abs(t[2])}")
        s = " ".join(parts)
        return s[2:] if s.startswith("+ ") else s
    if k == "mono":
        return "*".join(show(x) for x in t[1])
    if k == "cmp":
        return f"({show(t[2])} {t[1]} 0)"
    if k == "eq":
        return f"({show(t[1])} == {show(t[2])})"
    if k == "same":
        return f"({show(t[1])} is {show(t[2])})"
    if k == "in":
        return f"({show(t[1])} in {show(t[2])})"
    if k == "not":
        return f"not {show(t[1])}"
    if k in ("and", "or"):
        return "(" + f" {k} ".join(show(x) for x in t[1]) + ")"
    if k == "ite":
        return f"({show(t[2])} if {show(t[1])} else {show(t[3])})"
    if k == "call":
        args = [show(a) for a in t[2]] + [f"{n}={show(v)}" for n, v in t[3]]
        return f"{show(t[1]) if isinstance(t[1], tuple) else t[1]}({', '.join(args)})"
    if k == "new":
        return f"{t[1]}({', '.join(f'{n}={show(v)}' for n, v in t[2])})"
    if k in ("list", "tuple", "set"):
        return ("[" if k == "list" else "(" if k == "tuple" else "{") + ", ".join(show(x) for x in t[1]) + \
               ("]" if k == "list" else ")" if k == "tuple" else "}")
    if k == "isinstance":
        return f"isinstance({show(t[1])}, {t[2] if isinstance(t[2], str) else show(t[2])})"
    if k == "dict":
        return "{" + ", ".join(f"{show(a)}: {show(b)}" for a, b in t[1]) + "}"
    if k == "sub":
        return f"{show(t[1])}[{show(t[2])}]"
    if k == "max" or k == "min":
        return f"{k}({', '.join(show(x) for x in t[1])})"
    if k == "div":
        return f"({show(t[1])}) / ({show(t[2])})"
    if k == "concat":
        return " + ".join(show(x) for x in t[1])
    if k == "ext":
        return f"{t[1]}[{show(t[3])} for <node> in {show(t[2])}]"
    if k == "elem":
        return "<node>"
    if k == "inf":
        return "+inf" if t[1] > 0 else "-inf"
    if k == "var":
        return f"{t[1]}"
    if k == "bound":
        return f"<elem of {t[-1]}>"
    if k == "comp":
        return f"[{show(t[2])} for .. in " + ", ".join(show(g[0]) + ("" if not g[1] else " if " + " and ".join(show(c) for c in g[1])) for g in t[3]) + "]"
    if k == "quant":
        return f"{t[1]}({show(t[2])})"
    if k == "dictcomp":
        return f"{{{show(t[1])}: {show(t[2])} for .. in " + ", ".join(show(g[0]) for g in t[3]) + "}"
    if k == "item":
        return f"{show(t[1])}[{t[2]}]"
    if k == "bag":
        return f"{t[1]}{{{', '.join(show(x) for x in t[2])}}}"
    if k == "fn":
        return t[1]
    if k == "sentinel":
        return t[1].rpartition(".")[2]
    if k == "store":
        return f"{show(t[1])}.{t[2] if isinstance(t[2], str) else '[' + show(t[2][1]) + ']'} := {show(t[3])}"
    if k == "fstr":
        return "f'" + "".join(x[1] if x[0] == 'const' and isinstance(x[1], str) else '{' + show(x) + '}' for x in t[1]) + "'"
    if k == "global":
        return t[1]
    if k == "slice":
        return f"{show(t[1])}[{'' if t[2] == NONE else show(t[2])}:{'' if t[3] == NONE else show(t[3])}{'' if t[4] == NONE else ':' + show(t[4])}]"
    return repr(t)


# ------------------------------------------------------------------------------------------------
# Boolean normal forms
# ------------------------------------------------------------------------------------------------
def atoms_of(t: Term, acc: Optional[List[Term]] = None) -> List[Term]:
    if acc is None:
        acc = []
    k = t[0]
    if k in ("and", "or"):
        for x in t[1]:
            atoms_of(x, acc)
    elif k == "not":
        atoms_of(t[1], acc)
    elif k == "ite":
        atoms_of(t[1], acc)
        atoms_of(t[2], acc)
        atoms_of(t[3], acc)
    elif k == "const" and isinstance(t[1], bool):
        pass
    else:
        if t not in acc:
            acc.append(t)
    return acc


def eval_bool(t: Term, val: Dict[Term, bool]) -> bool:
    k = t[0]
    if k == "const":
        return bool(t[1])
    if k == "and":
        return all(eval_bool(x, val) for x in t[1])
    if k == "or":
        return any(eval_bool(x, val) for x in t[1])
    if k == "not":
        return not eval_bool(t[1], val)
    if k == "ite":
        return eval_bool(t[2], val) if eval_bool(t[1], val) else eval_bool(t[3], val)
    return val[t]


class Domain:
    """Valuations of a set of atoms that respect the structure of equality atoms.

    Atoms ``(eq, X, enum-member)`` over the same ``X`` are mutually exclusive and, when the enumeration is
    known, exhaustive; atoms ``(eq, X, None)`` are independent Booleans; all other atoms are free Booleans.
    """

    def __init__(self, atoms: Sequence[Term], enum_members: Optional[Callable[[str], Optional[List[str]]]] = None,
                 max_atoms: int = 16):
        self.atoms = list(atoms)
        self.groups: Dict[Term, List[Term]] = {}
        self.free: List[Term] = []
        for a in self.atoms:
            if a[0] == "eq" and (a[2][0] == "enum" or a[1][0] == "enum"):
                x, e = (a[1], a[2]) if a[2][0] == "enum" else (a[2], a[1])
                if x[0] == "enum":
                    self.free.append(a)
                    continue
                self.groups.setdefault(x, []).append(a)
            else:
                self.free.append(a)
        self.enum_members = enum_members
        if len(self.free) + len(self.groups) > max_atoms:
            raise Unsupported(f"too many atoms for a truth table: {len(self.atoms)}")

    def valuations(self) -> Iterable[Dict[Term, bool]]:
        choices: List[List[Dict[Term, bool]]] = []
        for x, ats in self.groups.items():
            enum_name = None
            for a in ats:
                e = a[2] if a[2][0] == "enum" else a[1]
                enum_name = e[1]
            members = self.enum_members(enum_name) if self.enum_members else None
            opts: List[Dict[Term, bool]] = []
            mentioned = []
            for a in ats:
                e = a[2] if a[2][0] == "enum" else a[1]
                mentioned.append(e[2])
                opts.append({b: (b is a) for b in ats})
            if members is None or any(m not in mentioned for m in members):
                opts.append({b: False for b in ats})  # some other member / value
            choices.append(opts)
        for a in self.free:
            choices.append([{a: False}, {a: True}])
        for combo in itertools.product(*choices):
            v: Dict[Term, bool] = {}
            for d in combo:
                v.update(d)
            yield v


def truth_table(t: Term, atoms: Optional[Sequence[Term]] = None, enum_members=None) -> List[Tuple[Tuple[bool, ...], bool]]:
    ats = list(atoms) if atoms is not None else atoms_of(t)
    dom = Domain(ats, enum_members)
    return [(tuple(v[a] for a in ats), eval_bool(t, v)) for v in dom.valuations()]


def equivalent(a: Term, b: Term, enum_members=None, given: Term = TRUE) -> Optional[Dict[Term, bool]]:
    """None when equivalent under ``given``; otherwise a distinguishing valuation."""
    ats = atoms_of(a)
    atoms_of(b, ats)
    atoms_of(given, ats)
    for v in Domain(ats, enum_members).valuations():
        if not eval_bool(given, v):
            continue
        if eval_bool(a, v) != eval_bool(b, v):
            return v
    return None


def satisfiable(t: Term, enum_members=None) -> bool:
    ats = atoms_of(t)
    for v in Domain(ats, enum_members).valuations():
        if eval_bool(t, v):
            return True
    return False


# ------------------------------------------------------------------------------------------------
# the evaluator
# ------------------------------------------------------------------------------------------------
class Outcome:
    __slots__ = ("cond", "kind", "value", "node")

    def __init__(self, cond: Term, kind: str, value: Optional[Term], node: Optional[ast.AST] = None):
        self.cond, self.kind, self.value, self.node = cond, kind, value, node

    def __repr__(self):
        return f"<{self.kind} {show(self.value) if self.value is not None else ''} if {show(self.cond)}>"


API_MAPPING_EXEMPT = ("get_node_iterator", "get_branch_iterator")      # the graph's own iterators are read by name (rules decide what they range over)


class Frame:
    def __init__(self, fn: Optional[FunctionInfo], module: ModuleInfo, env: Dict[str, Term], self_cls: Optional[ClassInfo],
                 depth: int):
        self.fn, self.module, self.env, self.self_cls, self.depth = fn, module, env, self_cls, depth


class Evaluator:
    """Abstract interpreter for loop-free function bodies (see module docstring)."""

    def __init__(self, model: Model, max_depth: int = 6, inline_methods: bool = True,
                 opaque: Optional[Iterable[str]] = None):
        self.model = model
        self.max_depth = max_depth
        self.inline_methods = inline_methods
        self.types: Dict[Term, ClassInfo] = {}
        self.opaque = set(opaque or ())   # qualnames never inlined
        self.effects: List[Tuple[Term, ast.AST, Term]] = []  # (path condition, statement, rendered) for Expr statements
        self.inlined: List[str] = []
        self.lambdas: Dict[str, Tuple[ast.Lambda, Dict[str, Term], "Frame"]] = {}
        self.localdefs: Dict[str, ast.FunctionDef] = {}
        self._via_callable = False
        self.inline_class_consts = False   # opt-in: read ``self.X`` as the class-level constant X of a plain class
        self.ambiguous: List[str] = []     # properties read through a field's declared type although a subclass defines them differently
        global _ENUM_VALUE_HOOK
        _ENUM_VALUE_HOOK = self._enum_value   # lets subst() fold <member>.value once a symbol was replaced by a member

    def _enum_value(self, member: Term) -> Optional[Term]:
        c = self.model.maybe_cls(member[1])
        if c is None:
            return None
        if member[0] == "len":
            ms = self.enum_members(c.name) if self.is_enum(c) else None
            return lin({}, Fraction(len(ms))) if ms else None
        try:
            v = self.attr(member, "value", Frame(None, c.module, {}, c, 0))
        except Unsupported:
            return None
        return v if v != ("attr", member, "value") else None

    # -- typing -----------------------------------------------------------------------
    def set_type(self, t: Term, c: Optional[ClassInfo]):
        if c is not None:
            old = self.types.get(t)
            if old is not None and old is not c and c in old.mro():
                return          # already known more precisely (a parameter annotated with the interface does not widen what is known about the argument)
            self.types[t] = c

    def ann_class(self, ann: Optional[ast.expr], module: ModuleInfo) -> Optional[ClassInfo]:
        if ann is None:
            return None
        if isinstance(ann, ast.Constant) and isinstance(ann.value, str):
            try:
                ann = ast.parse(ann.value, mode="eval").body
            except SyntaxError:
                return None
        if isinstance(ann, ast.Subscript):
            head = dotted(ann.value)
            if head in ("Optional", "typing.Optional"):
                return self.ann_class(ann.slice, module)
            return self.ann_class(ann.value, module)
        name = dotted(ann)
        if not name:
            return None
        tgt = self.model.lookup_symbol(module, name)
        if isinstance(tgt, ClassInfo):
            return tgt
        return None

    def ann_elem_class(self, ann: Optional[ast.expr], module: ModuleInfo) -> Optional[ClassInfo]:
        """Element class of List[T] / Iterator[T] / Iterable[T] / Sequence[T]."""
        if isinstance(ann, ast.Constant) and isinstance(ann.value, str):
            try:
                ann = ast.parse(ann.value, mode="eval").body
            except SyntaxError:
                return None
        if isinstance(ann, ast.Subscript):
            head = (dotted(ann.value) or "").split(".")[-1]
            if head in ("List", "Iterator", "Iterable", "Sequence", "list", "Tuple", "Set", "FrozenSet"):
                sl = ann.slice
                if isinstance(sl, ast.Tuple) and sl.elts:
                    sl = sl.elts[0]
                return self.ann_class(sl, module)
            if head == "Optional":
                return self.ann_elem_class(ann.slice, module)
        return None

    def type_of(self, t: Term) -> Optional[ClassInfo]:
        if t in self.types:
            return self.types[t]
        if t[0] == "attr":
            bc = self.type_of(t[1])
            if bc is not None:
                f = bc.find_field(t[2])
                if f is not None:
                    c = self.ann_class(f.annotation, f.owner.module)
                    if c is not None:
                        return c
                p = bc.resolve(t[2])
                if p is not None and p.kind == "property":
                    return self.ann_class(p.node.returns, p.module)
        if t[0] == "new":
            return self.model.maybe_cls(t[1])
        if t[0] == "call" and isinstance(t[1], tuple) and t[1][0] == "attr":
            bc = self.type_of(t[1][1])
            if bc is not None:
                f = bc.resolve(t[1][2])
                if f is not None:
                    return self.ann_class(f.node.returns, f.module)
        if t[0] == "ite":
            a, b = self.type_of(t[2]), self.type_of(t[3])
            return a if a is b else (a or b)
        return None

    def enum_members(self, name: str) -> Optional[List[str]]:
        c = self.model.maybe_cls(name)
        if c is None:
            return None
        if not any(b in ("Enum", "enum.Enum", "IntEnum", "Flag") for b in c.external_bases()):
            return None
        return [n for n in c.class_attrs.keys() if not n.startswith("_")]

    def is_enum(self, c: ClassInfo) -> bool:
        return any(b in ("Enum", "enum.Enum", "IntEnum", "Flag", "str, Enum") for b in c.external_bases())

    # -- entry points -----------------------------------------------------------------
    def eval_function(self, fn: FunctionInfo, args: Optional[Dict[str, Term]] = None,
                      self_term: Optional[Term] = None, self_cls: Optional[ClassInfo] = None,
                      depth: int = 0) -> List[Outcome]:
        env: Dict[str, Term] = {}
        sname = fn.self_name
        if sname is not None:
            st = self_term if self_term is not None else sym(sname)
            env[sname] = st
            if fn.kind == "classmethod":
                env[sname] = ("cls", (self_cls or fn.cls).name)
            else:
                self.set_type(st, self_cls or self.types.get(st) or fn.cls)
        scls = self_cls or (self.types.get(env[sname]) if sname and env[sname] in self.types else fn.cls)
        a = fn.node.args
        allp = list(a.posonlyargs) + list(a.args)
        defaults = [None] * (len(allp) - len(a.defaults)) + list(a.defaults)
        mod_frame = Frame(fn, fn.module, {}, scls, depth)
        for p, d in list(zip(allp, defaults)) + list(zip(a.kwonlyargs, a.kw_defaults)):
            if p.arg == sname:
                continue
            if args is not None and p.arg in args:
                env[p.arg] = args[p.arg]
            elif d is not None and args is not None and args.get("__use_defaults__"):
                env[p.arg] = self.expr(d, mod_frame)
            else:
                env[p.arg] = sym(p.arg)
            if env[p.arg][0] == "sym":
                self.set_type(env[p.arg], self.ann_class(p.annotation, fn.module))
        if a.kwarg is not None:
            env[a.kwarg.arg] = ("kwargs", a.kwarg.arg)
        frame = Frame(fn, fn.module, env, scls, depth)
        outs = self.block(fn.body, frame, TRUE)
        res = [o for o in outs if o.kind != "fall" and o.cond != FALSE]
        for o in outs:
            if o.kind == "fall" and o.cond != FALSE:
                res.append(Outcome(o.cond, "return", NONE, fn.node))
        return res

    def value_of(self, fn: FunctionInfo, **kw) -> Term:
        """Function result as one term (ite-chain over return outcomes); raising paths become ('raise', ..)."""
        outs = self.eval_function(fn, **kw)
        return self.merge(outs)

    def merge(self, outs: List[Outcome]) -> Term:
        if not outs:
            raise Unsupported("function without outcome")
        res: Optional[Term] = None
        for o in reversed(outs):
            v = o.value if o.kind == "return" else ("raise", show(o.value) if o.value else "")
            res = v if res is None else t_ite(o.cond, v, res)
        return res

    # -- statements -------------------------------------------------------------------
    def block(self, stmts: Sequence[ast.stmt], fr: Frame, cond: Term) -> List[Outcome]:
        """Returns outcomes; the pseudo outcome kind 'fall' carries the condition under which control
        leaves the block normally (environment updated in place; branches merge through ite)."""
        outs: List[Outcome] = []
        live = cond
        if any(isinstance(x, ast.For) and x.orelse for x in stmts):
            from .normalize import search_loop_form
            stmts = search_loop_form(list(stmts))
        for i, st in enumerate(stmts):
            if live == FALSE:
                break
            if isinstance(st, (ast.Pass, ast.Import, ast.ImportFrom, ast.Global, ast.Nonlocal)):
                continue
            if isinstance(st, ast.Expr):
                if isinstance(st.value, ast.Constant):
                    continue
                sv = st.value
                if isinstance(sv, ast.Call) and isinstance(sv.func, ast.Attribute) and isinstance(sv.func.value, ast.Name) \
                        and sv.func.attr in ("append", "extend", "insert", "add", "update", "remove", "pop", "clear", "sort", "reverse", "setdefault", "appendleft") \
                        and fr.env.get(sv.func.value.id, ("?",))[0] in ("list", "dict", "set", "comp", "dictcomp", "concat"):
                    # the value view cannot follow a container that statements fill in place: say so instead of answering with its initial content
                    raise Unsupported(f"local container '{sv.func.value.id}' is changed in place by {sv.func.attr}(): read path by path")
                v = self.expr(st.value, fr)
                self.effects.append((live, st, v))
                continue
            if isinstance(st, ast.Assign):
                v = self.expr(st.value, fr)
                for tg in st.targets:
                    self.assign(tg, v, fr, st)
                continue
            if isinstance(st, ast.AnnAssign):
                if st.value is None:
                    continue
                v = self.expr(st.value, fr)
                self.assign(st.target, v, fr, st)
                if isinstance(st.target, ast.Name) and v[0] in ("sym", "attr", "call", "sub"):
                    c = self.ann_class(st.annotation, fr.module)
                    if c is not None and v not in self.types and self.type_of(v) is None:
                        self.set_type(v, c)
                continue
            if isinstance(st, ast.AugAssign):
                if not isinstance(st.target, ast.Name):
                    raise Unsupported(f"augmented assignment to {ast.unparse(st.target)}")
                cur = self.expr(st.target, fr)
                v = self.binop(st.op, cur, self.expr(st.value, fr))
                fr.env[st.target.id] = v
                continue
            if isinstance(st, ast.Return):
                v = self.expr(st.value, fr) if st.value is not None else NONE
                if v[0] == "localdef" and v[1] in self.localdefs and fr.depth > 0:
                    # a nested function that leaves the function it was defined in: it keeps the names of THAT function (closure), not of wherever it is called
                    d_ = self.localdefs[v[1]]
                    body_ = [x for x in d_.body if not (isinstance(x, ast.Expr) and isinstance(x.value, ast.Constant))]
                    if len(body_) == 1 and isinstance(body_[0], ast.Return) and body_[0].value is not None and not d_.decorator_list \
                            and not d_.args.vararg and not d_.args.kwarg and not d_.args.kwonlyargs:
                        lam_ = ast.Lambda(args=d_.args, body=body_[0].value)
                        ast.copy_location(lam_, d_)
                        key_ = f"def {d_.name}@{getattr(fr.fn, 'qualname', '?')}:" + "|".join(f"{k_}={show(x_)[:40]}" for k_, x_ in sorted(fr.env.items()) if isinstance(x_, tuple) and k_ != d_.name)
                        self.lambdas[key_] = (lam_, fr.env, fr)
                        v = ("lambda", key_)
                outs.append(Outcome(live, "return", v, st))
                live = FALSE
                continue
            if isinstance(st, ast.Raise):
                v = self.expr(st.exc, fr) if st.exc is not None else None
                outs.append(Outcome(live, "raise", v, st))
                live = FALSE
                continue
            if isinstance(st, ast.Assert):
                c = self.expr(st.test, fr)
                outs.append(Outcome(t_and(live, t_not(c)), "raise", ("const", "AssertionError"), st))
                live = t_and(live, c)
                continue
            if isinstance(st, ast.If):
                c = self.expr(st.test, fr)
                env0 = dict(fr.env)
                fr_t = Frame(fr.fn, fr.module, dict(env0), fr.self_cls, fr.depth)
                fr_e = Frame(fr.fn, fr.module, dict(env0), fr.self_cls, fr.depth)
                o_t = self.block(st.body, fr_t, t_and(live, c))
                o_e = self.block(st.orelse, fr_e, t_and(live, t_not(c)))
                fall_t = FALSE
                fall_e = FALSE
                for o in o_t:
                    if o.kind == "fall":
                        fall_t = o.cond
                    else:
                        outs.append(o)
                for o in o_e:
                    if o.kind == "fall":
                        fall_e = o.cond
                    else:
                        outs.append(o)
                # merge environments
                if fall_t == FALSE and fall_e == FALSE:
                    live = FALSE
                elif fall_t == FALSE:
                    fr.env.update(fr_e.env)
                    live = fall_e
                elif fall_e == FALSE:
                    fr.env.update(fr_t.env)
                    live = fall_t
                else:
                    for k in set(fr_t.env) | set(fr_e.env):
                        a, b = fr_t.env.get(k), fr_e.env.get(k)
                        if a is None or b is None:
                            fr.env[k] = a if a is not None else b
                        elif a == b:
                            fr.env[k] = a
                        else:
                            fr.env[k] = t_ite(c, a, b)
                    live = t_or(fall_t, fall_e)
                continue
            if isinstance(st, (ast.FunctionDef, ast.ClassDef)):
                fr.env[st.name] = ("localdef", st.name)
                if isinstance(st, ast.FunctionDef):
                    self.localdefs[st.name] = st
                continue
            if isinstance(st, ast.Match):
                from .normalize import match_as_if
                chain = match_as_if(self.model, fr.fn, st)
                if chain is not None:
                    sub = self.block(chain, fr, live)
                    live = FALSE
                    for o in sub:
                        if o.kind == "fall":
                            live = o.cond
                        else:
                            outs.append(o)
                    continue
            if isinstance(st, ast.For) and not st.orelse and not any(isinstance(n, (ast.Break, ast.Continue)) for n in ast.walk(st)):
                # a loop over a display of known length is the straight-line code it abbreviates
                it = self.expr(st.iter, fr)
                while it[0] == "var" and len(it) == 4:
                    it = it[3]
                if it[0] in ("tuple", "list") and len(it[1]) <= 8 and not any(x[0] == "star" for x in it[1]):
                    for item in it[1]:
                        if live == FALSE:
                            break
                        self.assign(st.target, item, fr, st)
                        sub = self.block(st.body, fr, live)
                        live = FALSE
                        for o in sub:
                            if o.kind == "fall":
                                live = o.cond
                            else:
                                outs.append(o)
                    continue
            raise Unsupported(f"statement {type(st).__name__} at line {st.lineno} "
                              f"in {fr.fn.qualname if fr.fn else '?'}")
        outs.append(Outcome(live, "fall", None))
        return outs

    def assign(self, target: ast.expr, v: Term, fr: Frame, st: ast.stmt):
        if isinstance(target, ast.Name):
            fr.env[target.id] = v
            return
        if isinstance(target, (ast.Tuple, ast.List)) and v[0] in ("tuple", "list") and len(v[1]) == len(target.elts):
            for t2, v2 in zip(target.elts, v[1]):
                self.assign(t2, v2, fr, st)
            return
        if isinstance(target, (ast.Tuple, ast.List)) and not any(isinstance(x, ast.Starred) for x in target.elts):
            parts = self.unpack(v, len(target.elts))
            for i, t2 in enumerate(target.elts):
                self.assign(t2, parts[i] if parts is not None else ("item", v, i), fr, st)
            return
        if isinstance(target, ast.Attribute) and isinstance(target.value, ast.Name) \
                and fr.env.get(target.value.id, ("?",))[0] == "new":
            base = fr.env[target.value.id]
            flds = dict(base[2])
            flds[target.attr] = v
            fr.env[target.value.id] = ("new", base[1], tuple(sorted(flds.items())))
            return
        if isinstance(target, (ast.Attribute, ast.Subscript)):
            self.effects.append((TRUE, st, ("store", self.expr(target.value, fr),
                                            target.attr if isinstance(target, ast.Attribute) else "[]", v)))
            return
        raise Unsupported(f"assignment target {ast.unparse(target)}")

    # -- expressions ------------------------------------------------------------------
    def binop(self, op: ast.operator, a: Term, b: Term) -> Term:
        if isinstance(op, ast.Add):
            if a[0] == "list" and b[0] == "list":
                return ("list", a[1] + b[1])
            if _listy(a) or _listy(b):
                # list concatenation keeps its order (numeric addition is kept as a commutative sum)
                return ("concat", (a[1] if a[0] == "concat" else (a,)) + (b[1] if b[0] == "concat" else (b,)))
            return t_add(a, b)
        if isinstance(op, ast.Sub):
            return t_add(a, b, -1)
        if isinstance(op, ast.Mult):
            return t_mul(a, b)
        if isinstance(op, ast.Div):
            return t_div(a, b)
        if isinstance(op, ast.FloorDiv):
            return ("floordiv", a, b)
        if isinstance(op, ast.Mod):
            return ("mod", a, b)
        if isinstance(op, ast.Pow):
            nb = number(b)
            if nb is not None and nb == 2:
                return t_mul(a, a)
            return ("pow", a, b)
        if isinstance(op, (ast.BitXor, ast.BitOr, ast.BitAnd, ast.LShift, ast.RShift)):
            ia, ib = _int_const(a), _int_const(b)
            if ia is not None and ib is not None and not (isinstance(op, (ast.LShift, ast.RShift)) and not 0 <= ib <= 64):
                r = ia ^ ib if isinstance(op, ast.BitXor) else ia | ib if isinstance(op, ast.BitOr) else ia & ib if isinstance(op, ast.BitAnd) else ia << ib if isinstance(op, ast.LShift) else ia >> ib
                return lin({}, Fraction(r))
        if isinstance(op, ast.BitXor):
            return ("xor", tuple(sorted([a, b], key=repr)))
        if isinstance(op, ast.BitOr):
            return ("bitor", tuple(sorted([a, b], key=repr)))
        if isinstance(op, ast.BitAnd):
            return ("bitand", tuple(sorted([a, b], key=repr)))
        if isinstance(op, ast.LShift):
            return ("lshift", a, b)
        if isinstance(op, ast.RShift):
            return ("rshift", a, b)
        raise Unsupported(f"operator {type(op).__name__}")

    def expr(self, e: ast.expr, fr: Frame) -> Term:
        if isinstance(e, ast.Constant):
            return const(e.value)
        if isinstance(e, ast.Name):
            if e.id in fr.env:
                return fr.env[e.id]
            if e.id in ("True", "False", "None"):
                return const({"True": True, "False": False, "None": None}[e.id])
            tgt = self.model.lookup_symbol(fr.module, e.id)
            if isinstance(tgt, ClassInfo):
                return ("cls", tgt.name)
            if isinstance(tgt, FunctionInfo):
                return ("fn", tgt.qualname)
            if isinstance(tgt, tuple) and tgt[0] == "const" and e.id in getattr(tgt[2], "rebound", ()) and tgt[2].assigns.get(e.id) is tgt[1]:
                # a module-level name that functions rebind (``global``) or change in place holds state: its value is whatever the history left there
                return ("global", f"{tgt[2].name}.{e.id}")
            if isinstance(tgt, tuple) and tgt[0] == "const":
                v0 = tgt[1]
                if isinstance(v0, ast.Call) and isinstance(v0.func, ast.Name) and v0.func.id == "object" and not v0.args and not v0.keywords:
                    # a module-level ``object()`` is one particular object: a marker compared by identity
                    return ("sentinel", f"{tgt[2].name}.{e.id}")
                v1 = self.expr(tgt[1], Frame(None, tgt[2], {}, None, fr.depth + 1))
                ups = getattr(tgt[2], "sub_assigns", {}).get(e.id) if tgt[2].assigns.get(e.id) is tgt[1] else None
                if ups:
                    v1 = _plain_display(v1)
                    if v1[0] != "dict":
                        raise Unsupported(f"module-level item assignment to {e.id}, which is not read as a dict display")
                    for k_node, v_node in ups:
                        fr2 = Frame(None, tgt[2], {e.id: v1}, None, fr.depth + 1)
                        kk, vv = self.expr(k_node, fr2), self.expr(v_node, fr2)
                        v1 = ("dict", tuple((a, b) for a, b in v1[1] if a != kk) + ((kk, vv),))
                return v1
            return ("global", e.id)
        if isinstance(e, ast.Attribute):
            base = self.expr(e.value, fr)
            return self.attr(base, e.attr, fr, e)
        if isinstance(e, ast.BinOp):
            return self.binop(e.op, self.expr(e.left, fr), self.expr(e.right, fr))
        if isinstance(e, ast.UnaryOp):
            v = self.expr(e.operand, fr)
            if isinstance(e.op, ast.Not):
                return t_not(self.truthy(v))
            if isinstance(e.op, ast.USub):
                return t_scale(v, Fraction(-1))
            if isinstance(e.op, ast.UAdd):
                return v
            raise Unsupported("unary operator")
        if isinstance(e, ast.BoolOp):
            # ``warnings.warn(..)`` evaluates to None: as an operand of and / or it is a false one (its report is no state of the program)
            vals = [FALSE if self._is_warn_call(v, fr) else self.truthy(self.expr(v, fr)) for v in e.values]
            return t_and(*vals) if isinstance(e.op, ast.And) else t_or(*vals)
        if isinstance(e, ast.Compare):
            left = self.expr(e.left, fr)
            parts = []
            for op, right in zip(e.ops, e.comparators):
                r = self.expr(right, fr)
                opn = {ast.Eq: "==", ast.NotEq: "!=", ast.Lt: "<", ast.LtE: "<=", ast.Gt: ">", ast.GtE: ">=",
                       ast.Is: "is", ast.IsNot: "isnot", ast.In: "in", ast.NotIn: "notin"}[type(op)]
                parts.append(self.compare(opn, left, r, fr))
                left = r
            return t_and(*parts)
        if isinstance(e, ast.IfExp):
            c = self.truthy(self.expr(e.test, fr))
            return t_ite(c, self.expr(e.body, fr), self.expr(e.orelse, fr))
        if isinstance(e, ast.Call):
            return self.call(e, fr)
        if isinstance(e, (ast.List, ast.Tuple, ast.Set)):
            items = []
            for x in e.elts:
                if isinstance(x, ast.Starred):
                    items.append(("star", self.expr(x.value, fr)))
                else:
                    items.append(self.expr(x, fr))
            return ({ast.List: "list", ast.Tuple: "tuple", ast.Set: "set"}[type(e)], tuple(items))
        if isinstance(e, ast.Dict):
            items = []
            for k, v in zip(e.keys, e.values):
                val = self.expr(v, fr)
                if k is None:
                    # ``**other``: spliced in place when the entries of ``other`` are known (a display, or a comprehension over one)
                    known = expand_dict(val)
                    if known is not None:
                        items.extend(known)
                        continue
                    items.append((("star",), val))
                    continue
                items.append((self.expr(k, fr), val))
            return ("dict", tuple(items))
        if isinstance(e, ast.Subscript):
            base = self.expr(e.value, fr)
            if isinstance(e.slice, ast.Slice):
                lo = self.expr(e.slice.lower, fr) if e.slice.lower else NONE
                hi = self.expr(e.slice.upper, fr) if e.slice.upper else NONE
                stp = self.expr(e.slice.step, fr) if e.slice.step else NONE
                if base[0] == "const" and isinstance(base[1], str) and all(x == NONE or (number(x) is not None and number(x).denominator == 1) for x in (lo, hi, stp)):
                    # a slice of a constant string with constant bounds
                    return const(base[1][slice(*(None if x == NONE else int(number(x)) for x in (lo, hi, stp)))])
                if base[0] in ("tuple", "list") and not any(x[0] == "star" for x in base[1]) and stp == NONE:
                    nlo = 0 if lo == NONE else number(lo)
                    nhi = len(base[1]) if hi == NONE else number(hi)
                    if nlo is not None and nhi is not None and nlo.denominator == 1 if not isinstance(nlo, int) else True:
                        if nhi is not None and (isinstance(nhi, int) or nhi.denominator == 1) and nlo is not None:
                            return (base[0], tuple(base[1][int(nlo):int(nhi)]))
                return ("slice", base, lo, hi, stp)
            idx = self.expr(e.slice, fr)
            n = number(idx)
            if base[0] in ("list", "tuple") and n is not None and n.denominator == 1:
                i = int(n)
                if -len(base[1]) <= i < len(base[1]) and not any(x[0] == "star" for x in base[1]):
                    return base[1][i]
            if base[0] == "dict":
                for k, v in base[1]:
                    if k == idx:
                        return v
            t = ("sub", base, idx)
            return t
        if isinstance(e, ast.JoinedStr):
            parts = []
            for v in e.values:
                if isinstance(v, ast.Constant):
                    parts.append(("const", v.value))
                elif isinstance(v, ast.FormattedValue):
                    parts.append(self.expr(v.value, fr))
            return ("fstr", tuple(parts))
        if isinstance(e, ast.Lambda):
            key = ast.unparse(e)
            # keep the closure: a lambda handed to a helper is applied there with the names it captured here
            self.lambdas[key] = (e, dict(fr.env), fr)
            return ("lambda", key)
        if isinstance(e, (ast.ListComp, ast.GeneratorExp, ast.SetComp)):
            return self.comprehension(e, fr)
        if isinstance(e, ast.DictComp):
            rows = self._table_rows(e.generators, fr, lambda fr_i: (self.expr(e.key, fr_i), self.expr(e.value, fr_i)))
            if rows is not None:
                return ("dict", tuple(rows))
            inner = Frame(fr.fn, fr.module, dict(fr.env), fr.self_cls, fr.depth)
            gens = []
            for i, g in enumerate(e.generators):
                it = self.expr(g.iter, inner)
                bound = ("bound", fr.depth, i, show(it))
                self.bind_target(g.target, bound, inner)
                conds = tuple(self.truthy(self.expr(c, inner)) for c in g.ifs)
                gens.append((it, conds))
            key_t, val_t = self.expr(e.key, inner), self.expr(e.value, inner)
            if len(gens) == 1 and gens[0][0][0] in ("tuple", "list") and len(gens[0][0][1]) <= 24 \
                    and not any(x[0] == "star" for x in gens[0][0][1]):
                # a dict comprehension over a display of known length is the display of its entries (names re-evaluated per item: getattr(x, name));
                # tests are evaluated per item and must decide
                items = []
                decided = True
                for item in gens[0][0][1]:
                    fr_i = Frame(fr.fn, fr.module, dict(fr.env), fr.self_cls, fr.depth)
                    self.bind_target(e.generators[0].target, item, fr_i)
                    keep = True
                    for c in e.generators[0].ifs:
                        v = self.truthy(self.expr(c, fr_i))
                        if v == FALSE:
                            keep = False
                            break
                        if v != TRUE:
                            decided = False
                            break
                    if not decided:
                        break
                    if keep:
                        items.append((self.expr(e.key, fr_i), self.expr(e.value, fr_i)))
                if decided:
                    return ("dict", tuple(items))
            return ("dictcomp", key_t, val_t, tuple(gens))
        if isinstance(e, ast.Starred):
            return ("star", self.expr(e.value, fr))
        if isinstance(e, ast.Slice):
            return ("sliceobj", self.expr(e.lower, fr) if e.lower else NONE, self.expr(e.upper, fr) if e.upper else NONE,
                    self.expr(e.step, fr) if e.step else NONE)
        if isinstance(e, ast.NamedExpr):
            v = self.expr(e.value, fr)
            if isinstance(e.target, ast.Name):
                fr.env[e.target.id] = v
            return v
        raise Unsupported(f"expression {type(e).__name__}: {ast.unparse(e)[:60]}")

    def _table_rows(self, generators, fr: Frame, emit) -> Optional[list]:
        """A comprehension whose first generator ranges over a table of literals (nested displays of constants / enum members) is the
        display of its instances: generators are run in order, later ones over the (then concrete) parts of a row; tests must decide."""
        def literal(t):
            if t[0] in ("const", "enum"):
                return True
            if t[0] == "lin" and not t[1]:
                return True
            return t[0] in ("tuple", "list") and all(literal(x) for x in t[1])
        try:
            first = self.expr(generators[0].iter, Frame(fr.fn, fr.module, dict(fr.env), fr.self_cls, fr.depth))
        except Unsupported:
            return None
        if first[0] not in ("tuple", "list") or not first[1] or not all(x[0] in ("tuple", "list") and literal(x) for x in first[1]) or len(generators) > 3:
            return None
        out: list = []

        def run(i, env):
            if len(out) > 256:
                raise Unsupported("table too large")
            fr_i = Frame(fr.fn, fr.module, env, fr.self_cls, fr.depth)
            if i == len(generators):
                out.append(emit(fr_i))
                return
            g = generators[i]
            it = self.expr(g.iter, fr_i)
            if it[0] not in ("tuple", "list") or any(x[0] == "star" for x in it[1]):
                raise Unsupported("not a table")
            for item in it[1]:
                env2 = dict(env)
                fr2 = Frame(fr.fn, fr.module, env2, fr.self_cls, fr.depth)
                self.bind_target(g.target, item, fr2)
                keep = True
                for c in g.ifs:
                    v = self.truthy(self.expr(c, fr2))
                    if v == FALSE:
                        keep = False
                        break
                    if v != TRUE:
                        raise Unsupported("undecided test")
                if keep:
                    run(i + 1, env2)
        try:
            run(0, dict(fr.env))
        except Unsupported:
            return None
        return out

    def comprehension(self, e, fr: Frame) -> Term:
        """[elt for v in it if c ...] -> ('comp', kind, elt-term, ((var, iter-term, (conds..)), ...)); bound
        variables are renamed positionally so that two comprehensions differing only in variable names agree."""
        if isinstance(e, (ast.ListComp, ast.SetComp)):
            rows = self._table_rows(e.generators, fr, lambda fr_i: self.expr(e.elt, fr_i))
            if rows is not None:
                return ("list" if isinstance(e, ast.ListComp) else "set", tuple(rows))
        inner = Frame(fr.fn, fr.module, dict(fr.env), fr.self_cls, fr.depth)
        gens = []
        for i, g in enumerate(e.generators):
            it = self.expr(g.iter, inner)
            bound = ("bound", fr.depth, i, show(it))
            self.bind_target(g.target, bound, inner)
            ec = self.elem_type(it)
            if ec is not None and isinstance(g.target, ast.Name):
                self.set_type(bound, ec)
            conds = []
            for c in g.ifs:
                # conjuncts are evaluated left to right; an isinstance() that holds narrows the element type for what follows
                parts = c.values if isinstance(c, ast.BoolOp) and isinstance(c.op, ast.And) else [c]
                vals = []
                for part in parts:
                    v = self.truthy(self.expr(part, inner))
                    self.narrow(v)
                    vals.append(v)
                conds.append(t_and(*vals) if len(vals) > 1 else vals[0])
            conds = tuple(conds)
            gens.append((it, conds))
        elt = self.expr(e.elt, inner)
        kind = {ast.ListComp: "list", ast.GeneratorExp: "gen", ast.SetComp: "set"}[type(e)]
        if kind == "list" and len(gens) == 1 and not gens[0][1] and gens[0][0][0] in ("list", "tuple") and len(gens[0][0][1]) <= 8 \
                and not any(x[0] == "star" for x in gens[0][0][1]) and isinstance(e.generators[0].target, ast.Name):
            # a comprehension over a display of known length is the display of its images
            b = ("bound", fr.depth, 0, show(gens[0][0]))
            return ("list", tuple(subst(elt, {b: item}) for item in gens[0][0][1]))
        return ("comp", kind, elt, tuple(gens))

    def _single_ref(self, f: FunctionInfo) -> bool:
        """a module-level function that is mentioned at exactly one place in the package (its one caller): a piece split off that caller"""
        if f.kind not in ("function", "method", "staticmethod") or (f.kind == "function" and f.cls is not None) or f.name.startswith("__"):
            return False
        cache = self.model.__dict__.setdefault("_name_refs", None)
        if cache is None:
            cache = {}
            for m in self.model.modules.values():
                for n in ast.walk(m.tree):
                    if isinstance(n, ast.Name) and isinstance(n.ctx, ast.Load):
                        cache[n.id] = cache.get(n.id, 0) + 1
                    elif isinstance(n, ast.Attribute) and isinstance(n.ctx, ast.Load):
                        cache[n.attr] = cache.get(n.attr, 0) + 1
                    elif isinstance(n, ast.alias):
                        nm = (n.asname or n.name).split(".")[-1]
                        cache["import:" + nm] = cache.get("import:" + nm, 0) + 1
            self.model._name_refs = cache
        if len([x for x in self.model.all_functions() if x.name == f.name]) != 1:
            return False
        return cache.get(f.name, 0) == 1 and cache.get("import:" + f.name, 0) == 0

    def _returns_object(self, t: Term) -> bool:
        """a call of a package function whose declared result is a class of the package (not Optional): never None"""
        if t[0] == "call" and isinstance(t[1], tuple) and t[1][0] == "fn":
            cands = [x for x in self.model.all_functions() if x.qualname == t[1][1]]
            if len(cands) == 1 and cands[0].node.returns is not None:
                txt = ast.unparse(cands[0].node.returns)
                if "Optional" in txt or "None" in txt or "Union" in txt:
                    return False
                return self.ann_class(cands[0].node.returns, cands[0].module) is not None
        if t[0] == "call" and isinstance(t[1], tuple) and t[1][0] == "attr":
            bc = self.type_of(t[1][1])
            if bc is not None:
                fs = bc.resolve_all(t[1][2])
                if len(fs) == 1 and fs[0].node.returns is not None and fs[0].kind in ("method", "staticmethod", "classmethod"):
                    txt = ast.unparse(fs[0].node.returns)
                    # declared to hand back a list / an object of the package, not an Optional
                    return not ("Optional" in txt or "None" in txt or "Union" in txt or "Any" in txt) and \
                        (txt.startswith(("List[", "list[", "Dict[", "Tuple[")) or self.ann_class(fs[0].node.returns, fs[0].module) is not None)
        return False

    def _instance_assigned(self, c: ClassInfo, name: str) -> bool:
        key = (c.name, name)
        cache = self.__dict__.setdefault("_inst_assigned", {})
        if key not in cache:
            hit = False
            for f in self.model.all_functions():
                for n in ast.walk(f.node):
                    if isinstance(n, (ast.Assign, ast.AnnAssign, ast.AugAssign)):
                        for t in (n.targets if isinstance(n, ast.Assign) else [n.target]):
                            if isinstance(t, ast.Attribute) and t.attr == name:
                                hit = True
            cache[key] = hit
        return cache[key]

    def star_parts(self, v: Term) -> Optional[List[Term]]:
        while v[0] == "var" and len(v) == 4 and v[3][0] in ("tuple", "list", "new"):
            v = v[3]
        if v[0] in ("tuple", "list") and not any(x[0] == "star" for x in v[1]):
            return list(v[1])
        if v[0] == "new":
            c = self.model.maybe_cls(v[1])
            if c is not None and is_named_tuple(c):
                return self.unpack(v, len(named_tuple_fields(c)))
        return None

    def unpack(self, v: Term, n: int) -> Optional[List[Term]]:
        """the n components of a value that is unpacked: a display, or a NamedTuple built on the spot (field order)"""
        while v[0] == "var" and len(v) == 4 and v[3][0] in ("tuple", "list", "new", "comp"):
            v = v[3]
        if v[0] in ("tuple", "list") and len(v[1]) == n and not any(x[0] == "star" for x in v[1]):
            return list(v[1])
        if v[0] == "comp" and len(v[3]) == 1 and not v[3][0][1]:
            dom = v[3][0][0]
            while dom[0] == "var" and len(dom) == 4:
                dom = dom[3]
            if dom[0] in ("tuple", "list") and len(dom[1]) == n and not any(x[0] == "star" for x in dom[1]):
                bs = subterms(v[2], lambda x: x[0] == "bound" and isinstance(x[1], int) and x[3] == show(v[3][0][0]))
                if len(bs) <= 1:
                    return [subst(v[2], {bs[0]: item}) if bs else v[2] for item in dom[1]]
        if v[0] == "new":
            c = self.model.maybe_cls(v[1])
            if c is not None and is_named_tuple(c):
                names = named_tuple_fields(c)
                d = dict(v[2])
                for st_ in c.node.body:      # fields left out take their declared default
                    if isinstance(st_, ast.AnnAssign) and isinstance(st_.target, ast.Name) and st_.value is not None and st_.target.id not in d:
                        try:
                            d[st_.target.id] = self.expr(st_.value, Frame(None, c.module, {}, c, 1))
                        except Unsupported:
                            pass
                if len(names) == n and all(k in d for k in names):
                    return [d[k] for k in names]
        return None

    def narrow(self, c: Term):
        """isinstance(x, T) taken as true narrows the static type of x to T (only ever to a subclass)."""
        parts = c[1] if c[0] == "and" else (c,)
        for a in parts:
            if a[0] == "isinstance" and isinstance(a[2], str):
                T = self.model.maybe_cls(a[2])
                cur = self.type_of(a[1])
                if T is not None and (cur is None or T.is_subclass_of(cur)):
                    self.set_type(a[1], T)

    def bind_target(self, target: ast.expr, v: Term, fr: Frame):
        if isinstance(target, ast.Name):
            fr.env[target.id] = v
        elif isinstance(target, (ast.Tuple, ast.List)):
            concrete = v[0] in ("tuple", "list") and len(v[1]) == len(target.elts) and not any(x[0] == "star" for x in v[1]) \
                and not any(isinstance(t, ast.Starred) for t in target.elts)
            for i, t in enumerate(target.elts):
                self.bind_target(t, v[1][i] if concrete else ("item", v, i), fr)
        else:
            raise Unsupported("comprehension target")

    def elem_type(self, it: Term) -> Optional[ClassInfo]:
        """Element class of an iterable term, from annotations."""
        if it[0] == "attr":
            bc = self.type_of(it[1])
            if bc is not None:
                f = bc.find_field(it[2])
                if f is not None:
                    return self.ann_elem_class(f.annotation, f.owner.module)
                p = bc.resolve(it[2])
                if p is not None:
                    return self.ann_elem_class(p.node.returns, p.module)
        if it[0] == "call" and isinstance(it[1], tuple) and it[1][0] == "attr":
            bc = self.type_of(it[1][1])
            if bc is not None:
                f = bc.resolve(it[1][2])
                if f is not None:
                    return self.ann_elem_class(f.node.returns, f.module)
        if it[0] == "call" and it[1] in ("reversed", "list", "sorted", "tuple", "iter", "tqdm") and it[2]:
            return self.elem_type(it[2][0])
        if it[0] == "var" and len(it) == 4:
            return self.elem_type(it[3])
        if it[0] == "comp" and it[1] in ("list", "gen", "set") and len(it[3]) >= 1:
            # [f(x) for x in D]: the class of f(x) with x an element of D
            for dom, _ in it[3]:
                ec = self.elem_type(dom)
                if ec is not None:
                    for b in subterms(it[2], lambda y: y[0] == "bound" and y[-1] == show(dom)):
                        if b not in self.types:
                            self.set_type(b, ec)
            return self.type_of(it[2])
        return None

    def truthy(self, v: Term) -> Term:
        return v

    def beta(self, t: Term, rounds: int = 4) -> Term:
        """apply lambdas that ended up in call position after a substitution (``getter(operation)`` with ``getter`` taken from a table of lambdas)"""
        for _ in range(rounds):
            hits = subterms(t, lambda y: y[0] == "call" and isinstance(y[1], tuple) and y[1] and y[1][0] == "lambda" and y[1][1] in self.lambdas and y[2] and not y[3])
            if not hits:
                break
            mp = {}
            for h in hits:
                try:
                    r = self.apply_callable(h[1], h[2][0], Frame(None, None, {}, None, 0), tuple(h[2][1:]))
                except Unsupported:
                    r = None
                if r is not None:
                    mp[h] = r
            if not mp:
                break
            t = subst(t, mp)
        return t

    def _mapping_generator(self, f: FunctionInfo, recv: Term, cls: ClassInfo, fr: Frame) -> Optional[Term]:
        """``def m(self): for x in <D over self>: yield <e over x>`` (nothing else) called as ``recv.m()`` is the generator ``(e(x) for x in D)``: a walk over the
        mapped iterator is a walk over D"""
        body = [st for st in f.node.body if not (isinstance(st, ast.Expr) and isinstance(st.value, ast.Constant))]
        if len(body) != 1 or not isinstance(body[0], ast.For) or body[0].orelse or len(f.params) != 1:
            return None
        loop = body[0]
        if len(loop.body) != 1 or not isinstance(loop.body[0], ast.Expr) or not isinstance(loop.body[0].value, ast.Yield) or loop.body[0].value.value is None \
                or not isinstance(loop.target, ast.Name):
            return None
        elt = loop.body[0].value.value
        if isinstance(elt, ast.Name) and elt.id == loop.target.id:
            return None          # an identity re-yield: left to the readers of the iterator itself
        if fr.depth >= self.max_depth:
            return None
        fr2 = Frame(f, f.module, {f.self_name: recv}, cls, fr.depth + 1)
        try:
            dom = self.expr(loop.iter, fr2)
            b = ("bound", fr.depth, 0, show(dom))
            ec = self.elem_type(dom)
            if ec is not None:
                self.set_type(b, ec)
            env2 = dict(fr2.env)
            env2[loop.target.id] = b
            img = self.expr(elt, Frame(f, f.module, env2, cls, fr.depth + 1))
        except Unsupported:
            return None
        return ("comp", "gen", img, ((dom, ()),))

    def _is_warn_call(self, e: ast.AST, fr: Frame) -> bool:
        """``warn(..)`` / ``warnings.warn(..)`` of the standard library (the name is not rebound locally)"""
        if not isinstance(e, ast.Call) or fr.module is None:
            return False
        f = e.func
        if isinstance(f, ast.Name) and f.id not in fr.env:
            return fr.module.imports.get(f.id) == ("warnings", "warn")
        if isinstance(f, ast.Attribute) and f.attr == "warn" and isinstance(f.value, ast.Name) and f.value.id not in fr.env:
            return fr.module.imports.get(f.value.id) == ("warnings", None)
        return False

    def compare(self, op: str, a: Term, b: Term, fr: Frame) -> Term:
        # tuple equality -> conjunction
        if op in ("==", "!=") and a[0] == "tuple" and b[0] == "tuple" and len(a[1]) == len(b[1]):
            c = t_and(*[t_cmp("==", x, y) for x, y in zip(a[1], b[1])])
            return c if op == "==" else t_not(c)
        while b[0] == "call" and b[1] in ("frozenset", "set", "tuple", "list") and len(b[2]) == 1 and not b[3] and b[2][0][0] in ("list", "tuple", "set"):
            b = b[2][0]      # membership does not depend on the container kind
        if b[0] == "bag":
            b = ("set", b[2])
        if op in ("in", "notin") and b[0] in ("list", "tuple", "set") and not any(x[0] == "star" for x in b[1]):
            c = t_or(*[t_cmp("==", a, x) for x in b[1]])
            return c if op == "in" else t_not(c)
        if op in ("is", "isnot", "==", "!="):
            # comparing a truth value with True / False is that truth value (or its negation)
            for x, y in ((a, b), (b, a)):
                if x in (TRUE, FALSE) and (y[0] in ("not", "and", "or", "eq", "cmp", "in", "isinstance", "quant") or self._declared_bool(y)):
                    same = (x == TRUE) == (op in ("is", "=="))
                    return y if same else t_not(y)
        if op in ("is", "isnot", "==", "!=") and "sentinel" in (a[0], b[0]) and a != b:
            mark, other = (a, b) if a[0] == "sentinel" else (b, a)
            if other[0] == "ite":
                return t_ite(other[1], self.compare(op, mark, other[2], fr), self.compare(op, mark, other[3], fr))
            o2 = other
            while o2[0] == "var" and len(o2) == 4:
                o2 = o2[3]
            if o2[0] == "call" and o2[1] == "next" and len(o2[2]) == 2 and o2[2][1] == mark and not o2[3] and self._marker_is_private(mark):
                src = o2[2][0]
                while src[0] == "var" and len(src) == 4:
                    src = src[3]
                if src[0] == "comp" and src[1] in ("gen", "list"):
                    # ``next(<selection>, MARKER) is MARKER``: nothing is selected -- every candidate fails one of the tests
                    tests = [c for g in src[3] for c in g[1]]
                    none_selected = ("quant", "all", ("comp", "gen", t_not(t_and(*tests)) if tests else FALSE, tuple((g[0], ()) for g in src[3])))
                    return none_selected if op in ("is", "==") else t_not(none_selected)
            if other[0] == "sentinel" or _never_none(other) or other == NONE or (other[0] == "sub" and self._marker_is_private(mark)):
                return FALSE if op in ("is", "==") else TRUE
        if op in ("is", "isnot", "==", "!=") and a == b and a[0] == "sentinel":
            return TRUE if op in ("is", "==") else FALSE
        if op in ("is", "isnot", "==", "!=") and NONE in (a, b):
            other = b if a == NONE else a
            if _never_none(other) or self._returns_object(other):
                return FALSE if op in ("is", "==") else TRUE
            if other[0] == "ite":
                # None compared with a two-way value: decided per alternative
                return t_ite(other[1], self.compare(op, NONE, other[2], fr), self.compare(op, NONE, other[3], fr))
            if other[0] == "sub" and self.elem_type(other[1]) is not None and number(other[2]) is None and other[2][0] != "slice":
                # an element of a list annotated List[<package class>] is an object of that class
                return FALSE if op in ("is", "==") else TRUE
        return t_cmp(op, a, b)

    def _declared_bool(self, t: Term) -> bool:
        """a call of a package function / method whose declared result is ``bool``"""
        if t[0] != "call" or not isinstance(t[1], tuple):
            return False
        fs: List[FunctionInfo] = []
        if t[1][0] == "fn":
            fs = [x for x in self.model.all_functions() if x.qualname == t[1][1]]
        elif t[1][0] == "attr":
            bc = self.type_of(t[1][1])
            fs = bc.resolve_all(t[1][2]) if bc is not None else []
        return len(fs) >= 1 and all(isinstance(x.node.returns, ast.Name) and x.node.returns.id == "bool" for x in fs)

    def _isinstance_known(self, v: Term, k: Term) -> Optional[Term]:
        """isinstance of a value built right here (a literal, a constructor result) against builtin types / package classes: one answer"""
        kinds = list(k[1]) if k[0] == "tuple" else [k]
        if v[0] == "const" and v[1] is not None and not isinstance(v[1], bool):
            mine = {"str": (str,), "int": (int,), "float": (float,), "bytes": (bytes,)}
            if all(x[0] == "global" and x[1] in mine for x in kinds):
                return TRUE if any(isinstance(v[1], mine[x[1]]) for x in kinds) else FALSE
            if all(x[0] == "cls" for x in kinds):
                return FALSE
            return None
        if v[0] in ("cls", "fn", "lambda"):
            # a class object / function object is not an instance of a data type (str, int, ..., list) nor of a package class that is not a metaclass
            if all(x[0] == "global" and x[1] in ("str", "int", "float", "bytes", "list", "tuple", "dict", "set", "bool") for x in kinds):
                return FALSE
            if v[0] == "cls" and all(x[0] == "global" and x[1] == "type" for x in kinds):
                return TRUE
            return None
        if v[0] == "new" or (v[0] == "call" and isinstance(v[1], tuple) and v[1][0] == "cls"):
            c = self.model.maybe_cls(v[1] if v[0] == "new" else v[1][1])
            if c is None:
                return None
            if all(x[0] == "global" and x[1] in ("str", "int", "float", "bytes", "list", "tuple", "dict", "set") for x in kinds) and not is_named_tuple(c):
                # every base outside the package is one of the plain markers (no builtin container / string among the ancestors)
                bases_known = all(isinstance(b, ClassInfo) or str(b).split(".")[-1] in ("ABC", "object", "Enum", "Generic", "Protocol", "ABCMeta")
                                  for k_ in c.mro() for b in k_.bases)
                return FALSE if bases_known else None
            if all(x[0] == "cls" for x in kinds):
                names = {b.name for b in c.mro()}
                return TRUE if any(x[1] in names for x in kinds) else None
        return None

    def _marker_is_private(self, mark: Term) -> bool:
        """The marker object is only ever handed over as a default and compared: it is never stored, so no table entry is the marker."""
        cache = self.__dict__.setdefault("_marker_cache", {})
        if mark[1] in cache:
            return cache[mark[1]]
        modname, _, name = mark[1].rpartition(".")
        ok = True
        for m in self.model.modules.values():
            if m.name != modname:
                if any(name == (a.asname or a.name) or name == a.name for n in ast.walk(m.tree) if isinstance(n, ast.ImportFrom) for a in n.names):
                    ok = False
                continue
            allowed = set()
            for n in ast.walk(m.tree):
                if isinstance(n, ast.Compare):
                    allowed.update(id(x) for x in [n.left] + list(n.comparators))
                elif isinstance(n, ast.Call) and isinstance(n.func, (ast.Attribute, ast.Name)) and (n.func.attr if isinstance(n.func, ast.Attribute) else n.func.id) in ("get", "getattr", "next", "pop"):
                    allowed.update(id(x) for x in list(n.args)[1:] + [k.value for k in n.keywords])
            for n in ast.walk(m.tree):
                if isinstance(n, ast.Name) and n.id == name and isinstance(n.ctx, ast.Load) and id(n) not in allowed:
                    ok = False
        cache[mark[1]] = ok
        return ok

    # -- attribute access ---------------------------------------------------------------
    def attr(self, base: Term, name: str, fr: Frame, node: Optional[ast.AST] = None) -> Term:
        if base[0] == "cls":
            rebound = fr.env.get(f"@{base[1]}.{name}") if fr is not None and fr.env else None
            if rebound is not None:
                return rebound
            c = self.model.maybe_cls(base[1])
            if c is not None:
                if self.is_enum(c) and name in c.class_attrs:
                    return ("enum", c.name, name)
                for k in c.mro():
                    if name in k.class_attrs and name not in k.properties:
                        fi = k.own_fields.get(name)
                        if fi is not None and not fi.is_classvar and k.is_dataclass:
                            break
                        return self.expr(k.class_attrs[name], Frame(None, k.module, {}, k, fr.depth + 1))
                f = c.resolve(name)
                if f is not None:
                    return ("fn", f"{f.cls.name}.{f.name}")
            return ("attr", base, name)
        if base[0] == "enum" and name in ("value", "name"):
            if name == "name":
                return ("const", base[2])
            c = self.model.maybe_cls(base[1])
            if c is not None and base[2] in c.class_attrs:
                vn = c.class_attrs[base[2]]
                if isinstance(vn, ast.Call) and ((isinstance(vn.func, ast.Name) and vn.func.id == "auto") or (isinstance(vn.func, ast.Attribute) and vn.func.attr == "auto")) and not vn.args:
                    # enum.auto(): 1, 2, 3, ... in definition order (all members of this repository's enumerations that use auto() use it throughout)
                    names = [n for n in c.class_attrs.keys() if not n.startswith("_")]
                    autos = [isinstance(c.class_attrs[n], ast.Call) for n in names]
                    if all(autos):
                        return lin({}, Fraction(names.index(base[2]) + 1))
                    raise Unsupported(f"value of {base[1]}.{base[2]}: auto() mixed with explicit values")
                return self.expr(vn, Frame(None, c.module, {}, c, fr.depth + 1))
        if base[0] == "new":
            for k, v in base[2]:
                if k == name:
                    return v
            c = self.model.maybe_cls(base[1])
            if c is not None:
                f = c.find_field(name)
                if f is not None and f.default is not None and not c.is_property(name):
                    return self.expr(f.default, Frame(None, f.owner.module, {}, f.owner, fr.depth + 1))
        bc = self.type_of(base)
        if self.inline_class_consts and bc is not None and not bc.is_property(name) and base[0] in ("sym",):
            # a constant shared through the class (``X: T = <expr>`` in a class that is not a dataclass, never assigned on instances)
            for k in bc.mro():
                if name in k.class_attrs and name not in k.properties and not k.is_dataclass and not any(kk.is_dataclass for kk in bc.mro()):
                    if not self._instance_assigned(bc, name):
                        try:
                            return self.expr(k.class_attrs[name], Frame(None, k.module, {}, k, fr.depth + 1))
                        except Unsupported:
                            break
                    break
        if bc is not None and bc.is_property(name):
            p = bc.resolve(name)
            qn = p.qualname
            overridden = False
            if base[0] == "attr" and "abstractmethod" not in p.decorators:
                # the receiver is a field of declared type bc: the object held there may be of a subclass that defines the property differently
                # (IRelationLink.x read on a MultiRelationLink) -- then the declared class's body is not what runs
                try:
                    overridden = any(name in k_.properties and k_.resolve(name) is not p for k_ in self.model.subclasses(bc))
                except Exception:
                    overridden = False
            if overridden and f"{bc.name}.{name}" not in self.ambiguous:
                # inlined with the declared class's body all the same (the rules are written for it); a rule whose verdict hangs on this read asks self.ambiguous
                self.ambiguous.append(f"{bc.name}.{name}")
            if (fr.depth < self.max_depth and qn not in self.opaque and "abstractmethod" not in p.decorators
                    and not _has_loop(p.node)):
                try:
                    v = self.inline(p, {}, base, bc, fr)
                    return v
                except Unsupported:
                    pass
        return ("attr", base, name)

    def inline(self, f: FunctionInfo, args: Dict[str, Term], self_term: Optional[Term], self_cls: Optional[ClassInfo],
               fr: Frame) -> Term:
        sub = Evaluator.__new__(Evaluator)
        sub.__dict__.update(self.__dict__)
        sub.effects = []
        outs = sub.eval_function(f, args=dict(args, __use_defaults__=True), self_term=self_term, self_cls=self_cls,
                                 depth=fr.depth + 1)
        if any(not (isinstance(st_, ast.Expr) and self._is_warn_call(st_.value, Frame(f, f.module, {}, self_cls, fr.depth + 1))) for _, st_, _ in sub.effects):
            raise Unsupported(f"{f.qualname} has statement effects; not inlined")
        self.types.update(sub.types)
        self.inlined.append(f.qualname)
        return self.merge(outs)

    # -- calls ------------------------------------------------------------------------------
    def call(self, e: ast.Call, fr: Frame) -> Term:
        args = []
        for a in e.args:
            if isinstance(a, ast.Starred):
                sv = self.expr(a.value, fr)
                parts = self.star_parts(sv)
                if parts is not None:
                    args.extend(parts)      # ``f(*<display or NamedTuple built here>)`` passes its components
                else:
                    args.append(("star", sv))
            else:
                args.append(self.expr(a, fr))
        kwargs = []
        for kw in e.keywords:
            if kw.arg is None:
                v = self.expr(kw.value, fr)
                known = expand_dict(v)
                if known is not None and all(k[0] == "const" and isinstance(k[1], str) for k, _ in known):
                    # ``f(**{'a': x, 'b': y})`` is ``f(a=x, b=y)``
                    kwargs.extend((k[1], val) for k, val in known)
                else:
                    kwargs.append(("**", v))
            else:
                kwargs.append((kw.arg, self.expr(kw.value, fr)))
        if isinstance(e.func, ast.Name) and kwargs and not any(a[0] == "star" for a in args) and not any(k_ == "**" for k_, _ in kwargs):
            # a local name bound to ``partial(g, *a, **k)`` called with keywords: g(*a, *args, **k, **kwargs)
            pc_ = fr.env.get(e.func.id)
            while pc_ is not None and pc_[0] == "var" and len(pc_) == 4:
                pc_ = pc_[3]
            if pc_ is not None and pc_[0] == "call" and pc_[2] and (pc_[1] in ("partial", ("global", "partial")) or (isinstance(pc_[1], tuple) and pc_[1][-1:] == ("partial",))) \
                    and pc_[2][0][0] == "fn" and not any(k_ == "**" for k_, _ in pc_[3]):
                cands_ = [x for x in self.model.all_functions() if x.qualname == pc_[2][0][1]]
                if len(cands_) == 1 and cands_[0].kind in ("function", "staticmethod"):
                    merged_ = dict(pc_[3])
                    merged_.update(dict(kwargs))
                    return self.call_function(cands_[0], None, None, list(pc_[2][1:]) + list(args), list(merged_.items()), fr)
        if isinstance(e.func, ast.Name) and len(args) >= 1 and not kwargs and not any(a[0] == "star" for a in args):
            callee = fr.env.get(e.func.id)
            if callee is None and e.func.id not in fr.env:
                # a module-level constant bound to such a callable (``READ_X = attrgetter('x')``)
                tgt_ = self.model.lookup_symbol(fr.module, e.func.id)
                if isinstance(tgt_, tuple) and tgt_[0] == "const" and isinstance(tgt_[1], ast.Call):
                    try:
                        callee = self.expr(tgt_[1], Frame(None, tgt_[2], {}, None, fr.depth + 1))
                    except Unsupported:
                        callee = None
            if callee is not None and callee[0] == "call" and (callee[1] in ("partial", "attrgetter", "methodcaller", ("global", "partial"), ("global", "attrgetter"), ("global", "methodcaller"))
                                                                  or (isinstance(callee[1], tuple) and callee[1][-1:] in (("partial",), ("attrgetter",), ("methodcaller",)))):
                # a local name bound to ``partial(..)`` / ``attrgetter(..)`` is that callable
                got = self.apply_callable(callee, args[0], fr, tuple(args[1:]))
                if got is not None:
                    return got
        if isinstance(e.func, ast.Name) and fr.env.get(e.func.id, ("?",))[0] == "lambda" and fr.env[e.func.id][1] in self.lambdas \
                and not kwargs and not any(a[0] == "star" for a in args):
            node, cenv, cfr = self.lambdas[fr.env[e.func.id][1]]
            la = node.args
            names = [a.arg for a in la.posonlyargs + la.args]
            if len(names) == len(args) and not la.vararg and not la.kwarg and not la.kwonlyargs and fr.depth < self.max_depth:
                env2 = dict(cenv)
                env2.update(dict(zip(names, args)))
                return self.expr(node.body, Frame(cfr.fn, cfr.module, env2, cfr.self_cls, fr.depth + 1))
        if isinstance(e.func, ast.Name) and fr.env.get(e.func.id) == ("localdef", e.func.id) and e.func.id in self.localdefs \
                and not kwargs and not any(a[0] == "star" for a in args) and fr.depth < self.max_depth:
            v = self.apply_local(self.localdefs[e.func.id], args, fr)
            if v is not None:
                return v
        if isinstance(e.func, ast.Call) and isinstance(e.func.func, ast.Name) and e.func.func.id == "type" and "type" not in fr.env and len(e.func.args) == 1 \
                and not e.func.keywords:
            # ``type(x)(..)`` / ``x.__class__(..)`` constructs an object of x's class (known when x is the object under analysis)
            try:
                c_ = self.type_of(self.expr(e.func.args[0], fr))
            except Unsupported:
                c_ = None
            if c_ is not None:
                return self.construct(c_, args, kwargs, fr)
        if isinstance(e.func, ast.Attribute) and e.func.attr == "__class__":
            try:
                c_ = self.type_of(self.expr(e.func.value, fr))
            except Unsupported:
                c_ = None
            if c_ is not None:
                return self.construct(c_, args, kwargs, fr)
        if isinstance(e.func, ast.Name) and fr.env.get(e.func.id, ("?",))[0] == "cls":
            # a local name bound to a class of the package: the call constructs it
            c_ = self.model.maybe_cls(fr.env[e.func.id][1])
            if c_ is not None:
                return self.construct(c_, args, kwargs, fr)
        if isinstance(e.func, ast.Name) and fr.env.get(e.func.id, ("?",))[0] == "fn":
            # a local name bound to a function of the package: the call is a call of that function
            qn = fr.env[e.func.id][1]
            cands = [x for x in self.model.all_functions() if x.qualname == qn and x.kind in ("function", "staticmethod")]
            if len(cands) == 1:
                return self.call_function(cands[0], None, None, args, kwargs, fr)
        fname = dotted(e.func)
        fun = self._functional(fname, e, args, kwargs, fr)
        if fun is not None:
            return fun
        # builtins ----------------------------------------------------------------------
        if isinstance(e.func, ast.Name) and e.func.id not in fr.env:
            n = e.func.id
            tgt = self.model.lookup_symbol(fr.module, n)
            if tgt is None:
                if n == "isinstance" and len(args) == 2:
                    decided = self._isinstance_known(args[0], args[1])
                    if decided is not None:
                        return decided
                    names = [x[1] for x in (args[1][1] if args[1][0] == "tuple" else [args[1]]) if x[0] == "cls"]
                    if names:
                        return t_or(*[("isinstance", args[0], nm) for nm in names])
                    if subterms(args[1], lambda y: y[0] == "bound"):
                        # the class comes out of a table that is being walked: kept as a term, decided once the element is known (subst)
                        return ("isinstance", args[0], args[1])
                    return ("isinstance", args[0], show(args[1]))
                if n == "dict" and not args and not kwargs:
                    return ("dict", ())
                if n == "dict" and len(args) == 1 and not kwargs and args[0][0] == "call" and args[0][1] in ("enumerate", "zip"):
                    # ``dict(<pairs>)`` is ``{k: v for k, v in <pairs>}``
                    b = ("bound", fr.depth, 0, show(args[0]))
                    return ("dictcomp", ("item", b, 0), ("item", b, 1), ((args[0], ()),))
                if n == "dict" and not args and kwargs and all(k != "**" for k, _ in kwargs):
                    return ("dict", tuple((("const", k), v) for k, v in kwargs))
                if n == "getattr" and len(args) in (2, 3) and not kwargs and args[1][0] == "const" and isinstance(args[1][1], str) and len(args) == 2:
                    return self.attr(args[0], args[1][1], fr)
                if n == "fields" and len(args) == 1 and not kwargs:
                    # dataclasses.fields(obj): the declared fields of the (data)class of obj, in declaration order, as records with a constant name
                    c_ = self.model.maybe_cls(args[0][1]) if args[0][0] == "cls" else self.type_of(args[0])
                    if c_ is not None and any(k.is_dataclass for k in c_.mro()):
                        return ("list", tuple(("new", "dataclasses.Field", (("name", const(nm_)),)) for nm_ in c_.all_fields().keys()))
                if n in ("max", "min") and not kwargs and len(args) == 1:
                    # max / min of a display of known length (possibly held in a local name) is max / min of its items
                    a0 = _plain_display(args[0])
                    if a0[0] in ("list", "tuple") and len(a0[1]) >= 2 and not any(x[0] == "star" for x in a0[1]):
                        args = list(a0[1])
                    elif a0[0] in ("list", "tuple") and len(a0[1]) == 1 and a0[1][0][0] != "star":
                        return a0[1][0]
                if n in ("max", "min") and not kwargs and len(args) >= 2:
                    nums = [number(a) for a in args]
                    if all(x is not None for x in nums):
                        return lin({}, max(nums) if n == "max" else min(nums))
                    return (n, tuple(sorted(args, key=repr)))
                if n in ("int", "float") and len(args) == 1:
                    a = args[0]
                    if a[0] in ("lin",) or number(a) is not None:
                        return a if n == "float" else ("call", "int", (a,), ()) if number(a) is None else a
                    if a[0] == "const" and isinstance(a[1], bool):
                        return lin({}, Fraction(int(a[1])))
                    return ("call", n, (a,), ())
                if n == "bool" and len(args) == 1:
                    return args[0]
                if n == "len" and len(args) == 1:
                    a = args[0]
                    if a[0] in ("list", "tuple") and not any(x[0] == "star" for x in a[1]):
                        return lin({}, Fraction(len(a[1])))
                    if a[0] == "const" and isinstance(a[1], str):
                        return lin({}, Fraction(len(a[1])))
                    if a[0] == "dict" and len({k_ for k_, _ in a[1]}) == len(a[1]) and all(k_[0] in ("enum", "const", "lin", "cls") for k_, _ in a[1]):
                        return lin({}, Fraction(len(a[1])))
                    return ("call", "len", (a,), ())
                if n in ("sorted", "frozenset", "set") and len(args) == 1 and not kwargs \
                        and args[0][0] in ("list", "tuple", "set") and not any(x[0] == "star" for x in args[0][1]):
                    return ("bag", n, tuple(sorted(args[0][1], key=repr)))
                if n in ("any", "all") and len(args) == 1:
                    a = args[0]
                    if a[0] in ("list", "tuple"):
                        return (t_or if n == "any" else t_and)(*a[1])
                    if a[0] == "comp" and len(a[3]) == 1:
                        # a quantifier over a display of known length (a literal table) is the disjunction / conjunction of its instances
                        dom = _plain_display(a[3][0][0])
                        if dom[0] in ("list", "tuple") and 0 < len(dom[1]) <= 16 and not any(x[0] == "star" for x in dom[1]):
                            label = show(a[3][0][0])
                            bs = subterms((a[2],) + tuple(a[3][0][1]), lambda y: y[0] == "bound" and y[-1] == label)
                            if len(bs) <= 1:
                                insts = []
                                for item in dom[1]:
                                    mp_ = {}
                                    if bs:
                                        mp_[bs[0]] = item
                                        if item[0] in ("tuple", "list"):
                                            for k_, x_ in enumerate(item[1]):
                                                mp_[("item", bs[0], k_)] = x_
                                    body = t_and(*[subst(c_, mp_) for c_ in a[3][0][1]], subst(a[2], mp_)) if n == "any" else \
                                        t_or(t_not(t_and(*[subst(c_, mp_) for c_ in a[3][0][1]])) if a[3][0][1] else FALSE, subst(a[2], mp_))
                                    insts.append(body)
                                return (t_or if n == "any" else t_and)(*insts)
                    return ("quant", n, a)
                return ("call", n, tuple(args), tuple(kwargs))
            if isinstance(tgt, ClassInfo):
                return self.construct(tgt, args, kwargs, fr)
            if isinstance(tgt, FunctionInfo):
                return self.call_function(tgt, None, None, args, kwargs, fr)
            return ("call", n, tuple(args), tuple(kwargs))
        # method / attribute calls ------------------------------------------------------
        if isinstance(e.func, ast.Attribute):
            base = self.expr(e.func.value, fr)
            name = e.func.attr
            if base[0] == "new" and name in dict(base[2]) and not any(a[0] == "star" for a in args):
                # a callable stored in a field of a record built right here (NamedTuple / dataclass of functions): calling the field calls that callable
                held = dict(base[2])[name]
                if held[0] == "fn":
                    cands = [x for x in self.model.all_functions() if x.qualname == held[1]]
                    if len(cands) == 1 and cands[0].kind in ("function", "staticmethod"):
                        return self.call_function(cands[0], None, None, args, kwargs, fr)
                if held[0] == "cls":
                    c_ = self.model.maybe_cls(held[1])
                    if c_ is not None:
                        return self.construct(c_, args, kwargs, fr)
                if held[0] in ("lambda",) and args and not kwargs:
                    got = self.apply_callable(held, args[0], fr, tuple(args[1:]))
                    if got is not None:
                        return got
            if base[0] == "cls":
                c = self.model.maybe_cls(base[1])
                if c is not None:
                    f = c.resolve(name)
                    if f is not None and f.kind in ("classmethod", "staticmethod"):
                        return self.call_function(f, base, c, args, kwargs, fr)
                    if f is not None and f.kind == "method" and args:
                        return self.call_function(f, args[0], self.type_of(args[0]) or c, args[1:], kwargs, fr)
            if base[0] == "call" and base[1] == "super" and fr.self_cls is not None and fr.fn is not None and fr.fn.cls:
                mro = fr.self_cls.mro()
                if fr.fn.cls in mro:
                    for k in mro[mro.index(fr.fn.cls) + 1:]:
                        if name in k.methods:
                            r = self.call_function(k.methods[name][0], fr.env.get(fr.fn.self_name), fr.self_cls,
                                                   args, kwargs, fr)
                            if r[0] == "call" and isinstance(r[1], tuple) and r[1][0] == "attr" and r[1][2] == name:
                                # not inlined: keep the statically bound callee (a plain self.<name>() would dispatch back)
                                return ("call", ("fn", f"{k.name}.{name}"), (r[1][1],) + tuple(r[2]), r[3])
                            return r
            bc = self.type_of(base)
            if bc is not None:
                fs = bc.resolve_all(name)
                if len(fs) == 1 and fs[0].kind == "method" and not args and not kwargs and name not in API_MAPPING_EXEMPT:
                    mg = self._mapping_generator(fs[0], base, bc, fr)
                    if mg is not None:
                        return mg
                if len(fs) == 1 and fs[0].kind in ("method", "staticmethod", "classmethod"):
                    return self.call_function(fs[0], base, bc, args, kwargs, fr)
            if base[0] == "const" and isinstance(base[1], str) and not kwargs and all(a[0] == "const" for a in args):
                # methods of a constant string with constant arguments
                cargs = [a[1] for a in args]
                if name in ("upper", "lower", "strip", "lstrip", "rstrip", "title", "capitalize") and len(cargs) <= 1 and all(isinstance(x, str) for x in cargs):
                    return const(getattr(base[1], name)(*cargs))
                if name in ("startswith", "endswith") and len(cargs) == 1 and isinstance(cargs[0], str):
                    return const(getattr(base[1], name)(cargs[0]))
                if name in ("removeprefix", "removesuffix", "replace") and all(isinstance(x, str) for x in cargs) and len(cargs) in (1, 2):
                    return const(getattr(base[1], name)(*cargs))
                if name == "split" and len(cargs) <= 1 and all(isinstance(x, str) for x in cargs):
                    return ("list", tuple(const(x) for x in base[1].split(*cargs)))
            if name == "__eq__" and len(args) == 1 and not kwargs:
                return self.compare("==", base, args[0], fr)
            if name == "__ne__" and len(args) == 1 and not kwargs:
                return self.compare("!=", base, args[0], fr)
            if name == "__hash__" and not args and not kwargs:
                return ("call", "hash", (base,), ())
            if name == "__contains__" and len(args) == 1 and not kwargs:
                return self.compare("in", args[0], base, fr)
            if name == "get" and base[0] != "dict" and len(args) == 2 and not kwargs and args[1][0] == "sentinel":
                # ``table.get(key, MARKER)``: the entry of a known key, the marker otherwise
                return t_ite(self.compare("in", args[0], base, fr), ("sub", base, args[0]), args[1])
            if name == "get" and base[0] == "dict" and args:
                for k, v in base[1]:
                    if k == args[0]:
                        return v
            if name == "copy" and base[0] in ("list", "dict") and not args:
                return base
            if name == "keys" and not args and not kwargs:
                return ("keys", base)
            if name == "values" and not args and not kwargs:
                return ("values", base)
            if name == "items" and not args and not kwargs:
                return ("items", base)
            return ("call", ("attr", base, name), tuple(args), tuple(kwargs))
        if isinstance(e.func, ast.Subscript):
            # Generic[T](...) constructs the generic class
            base = self.expr(strip_subscript(e.func), fr)
            if base[0] == "cls":
                c = self.model.maybe_cls(base[1])
                if c is not None:
                    return self.construct(c, args, kwargs, fr)
        f = self.expr(e.func, fr)
        if f[0] == "ite":
            # calling a two-way choice of callables is the two-way choice of the calls
            def call_of(g):
                if g[0] == "ite":
                    return t_ite(g[1], call_of(g[2]), call_of(g[3]))
                if g[0] == "attr":
                    bc = self.type_of(g[1])
                    if bc is not None:
                        fs = bc.resolve_all(g[2])
                        if len(fs) == 1 and fs[0].kind in ("method", "staticmethod", "classmethod"):
                            return self.call_function(fs[0], g[1], bc, args, kwargs, fr)
                return ("call", g, tuple(args), tuple(kwargs))
            return call_of(f)
        return ("call", f, tuple(args), tuple(kwargs))

    # -- functional builtins as comprehensions ------------------------------------------------------------
    def apply_local(self, d: ast.FunctionDef, args: List[Term], fr: Frame) -> Optional[Term]:
        """value of a call of a nested function that has no statement effects (closure: free names read from the current environment)"""
        names = [a.arg for a in d.args.posonlyargs + d.args.args]
        if len(names) != len(args) or d.args.vararg or d.args.kwarg or d.args.kwonlyargs or d.decorator_list \
                or any(isinstance(n, (ast.Yield, ast.YieldFrom, ast.Nonlocal, ast.For, ast.While)) for n in ast.walk(d)):
            return None
        env2 = dict(fr.env)
        env2.update(dict(zip(names, args)))
        sub = Evaluator.__new__(Evaluator)
        sub.__dict__.update(self.__dict__)
        sub.effects = []
        try:
            outs = sub.block(d.body, Frame(fr.fn, fr.module, env2, fr.self_cls, fr.depth + 1), TRUE)
        except Unsupported:
            return None
        if sub.effects:
            return None
        res = [o for o in outs if o.kind != "fall" and o.cond != FALSE]
        for o in outs:
            if o.kind == "fall" and o.cond != FALSE:
                res.append(Outcome(o.cond, "return", NONE, d))
        return self.merge(res) if res else None

    _OPERATOR_FUNCS = {"add": ast.Add, "iadd": ast.Add, "concat": ast.Add, "sub": ast.Sub, "mul": ast.Mult, "truediv": ast.Div, "floordiv": ast.FloorDiv, "mod": ast.Mod,
                       "or_": ast.BitOr, "and_": ast.BitAnd, "xor": ast.BitXor, "lshift": ast.LShift, "rshift": ast.RShift}

    def _apply_binary(self, f: Term, a: Term, b: Term, fr: Frame) -> Optional[Term]:
        """f(a, b) for the binary callables handed to ``reduce``: the functions of ``operator`` and two-parameter lambdas / package functions"""
        name = None
        if f[0] == "global":
            name = f[1]
        elif f[0] == "attr" and f[1] in (("global", "operator"),):
            name = f[2]
        if name in self._OPERATOR_FUNCS:
            return self.binop(self._OPERATOR_FUNCS[name](), a, b)
        if name in ("max", "min"):
            return (name, tuple(sorted([a, b], key=repr)))
        if f[0] in ("lambda", "fn", "localdef"):
            return self.apply_callable(f, a, fr, (b,))
        return None

    def apply_callable(self, f: Term, arg: Term, fr: Frame, more: Tuple[Term, ...] = ()) -> Optional[Term]:
        more = list(more)
        if more and not (f[0] in ("cls", "fn", "attr", "localdef") or (f[0] == "lambda" and f[1] in self.lambdas)):
            return None
        if f[0] == "localdef" and f[1] in self.localdefs:
            return self.apply_local(self.localdefs[f[1]], [arg] + more, fr)
        if not more and (f in (("global", "truth"), ("global", "bool")) or f == ("attr", ("global", "operator"), "truth")):
            return self.truthy(arg)                 # operator.truth(x) / bool(x) as a value
        if not more and (f == ("global", "not_") or f == ("attr", ("global", "operator"), "not_")):
            return t_not(self.truthy(arg))          # operator.not_(x)
        """f(arg) for the callables that occur as ``key=`` / ``map`` / ``filter`` arguments: a lambda with its closure, ``attrgetter('a')``, a class
        (construction), a package function, a bound method."""
        if f[0] == "lambda" and f[1] in self.lambdas:
            node, cenv, cfr = self.lambdas[f[1]]
            la = node.args
            names = [a.arg for a in la.posonlyargs + la.args]
            if len(names) == 1 + len(more) and not la.vararg and not la.kwarg:
                env2 = dict(cenv)
                env2[names[0]] = arg
                for n_, v_ in zip(names[1:], more):
                    env2[n_] = v_
                return self.expr(node.body, Frame(cfr.fn, cfr.module, env2, cfr.self_cls, fr.depth + 1))
            return None
        if f[0] == "call" and (f[1] == "attrgetter" or f[1] == ("global", "attrgetter") or (isinstance(f[1], tuple) and f[1][-1:] == ("attrgetter",))) \
                and len(f[2]) == 1 and f[2][0][0] == "const" and isinstance(f[2][0][1], str):
            v = arg
            for part in f[2][0][1].split("."):
                v = self.attr(v, part, fr)
            return v
        if f[0] == "call" and (f[1] == "methodcaller" or f[1] == ("global", "methodcaller") or (isinstance(f[1], tuple) and f[1][-1:] == ("methodcaller",))) \
                and f[2] and f[2][0][0] == "const" and isinstance(f[2][0][1], str) and not more:
            # operator.methodcaller('m', *a, **k)(x) is x.m(*a, **k)
            bc_ = self.type_of(arg)
            if bc_ is not None:
                fs_ = bc_.resolve_all(f[2][0][1])
                if len(fs_) == 1 and fs_[0].kind in ("method", "staticmethod", "classmethod"):
                    return self.call_function(fs_[0], arg, bc_, list(f[2][1:]), list(f[3]), fr)
            return ("call", ("attr", arg, f[2][0][1]), tuple(f[2][1:]), tuple(f[3]))
        if f[0] == "call" and (f[1] == "partial" or f[1] == ("global", "partial") or (isinstance(f[1], tuple) and f[1][-1:] == ("partial",))) and f[2]:
            # functools.partial(g, *a, **k)(x) is g(*a, x, **k)
            base, pre, kw = f[2][0], list(f[2][1:]), list(f[3])
            if base[0] == "fn":
                cands = [x for x in self.model.all_functions() if x.qualname == base[1]]
                if len(cands) == 1 and cands[0].kind in ("function", "staticmethod"):
                    # a function that is only ever used through this one partial is a piece of its user: read as a value when pure
                    self._via_callable = True
                    try:
                        return self.call_function(cands[0], None, None, pre + [arg], kw, fr)
                    finally:
                        self._via_callable = False
            if base[0] == "cls":
                c = self.model.maybe_cls(base[1])
                if c is not None:
                    return self.construct(c, pre + [arg], kw, fr)
            if base[0] == "attr" and base[2] == "contains" and base[1] in (("global", "operator"),) and len(pre) == 1 and not kw:
                return self.compare("in", arg, pre[0], fr)
            return None
        if f[0] == "global" and f[1] in ("float", "int", "str", "bool", "abs", "len", "type", "repr", "hash"):
            n = f[1]
            if n in ("int", "float"):
                if arg[0] == "lin" or number(arg) is not None:
                    return arg if n == "float" else (("call", "int", (arg,), ()) if number(arg) is None else arg)
                if arg[0] == "const" and isinstance(arg[1], bool):
                    return lin({}, Fraction(int(arg[1])))
            if n == "bool":
                return arg
            return ("call", n, (arg,), ())
        if f[0] == "cls":
            c = self.model.maybe_cls(f[1])
            if c is not None:
                return self.construct(c, [arg] + more, [], fr)
        if f[0] == "fn":
            cands = [x for x in self.model.all_functions() if x.qualname == f[1]]
            if len(cands) == 1 and cands[0].kind in ("function", "staticmethod"):
                return self.call_function(cands[0], None, None, [arg] + more, [], fr)
            if len(cands) == 1 and cands[0].kind == "classmethod" and cands[0].cls is not None:
                return self.call_function(cands[0], ("cls", cands[0].cls.name), cands[0].cls, [arg] + more, [], fr)
            if len(cands) == 1 and cands[0].kind == "method":
                return self.call_function(cands[0], arg, self.type_of(arg) or cands[0].cls, more, [], fr)
        if f[0] == "attr":
            bc = self.type_of(f[1])
            if bc is not None:
                fs = bc.resolve_all(f[2])
                if len(fs) == 1 and fs[0].kind in ("method", "staticmethod", "classmethod"):
                    # a method that is only ever used as this one callable is a piece of its user
                    self._via_callable = True
                    try:
                        return self.call_function(fs[0], f[1], bc, [arg] + more, [], fr)
                    finally:
                        self._via_callable = False
            if not more and f[2] == "__contains__":
                return self.compare("in", arg, f[1], fr)
            if not more and f[2] == "__eq__":
                return self.compare("==", f[1], arg, fr)
            if not more and f[2] == "__ne__":
                return self.compare("!=", f[1], arg, fr)
            return ("call", f, (arg,) + tuple(more), ())
        return None

    def _functional(self, fname: Optional[str], e: ast.Call, args: List[Term], kwargs, fr: Frame) -> Optional[Term]:
        if not fname or kwargs or any(a[0] == "star" for a in args):
            return None
        if isinstance(e.func, ast.Name) and e.func.id in fr.env:
            return None
        short = fname.split(".")[-1]
        tail2 = ".".join(fname.split(".")[-2:])
        if isinstance(e.func, ast.Name) and self.model.lookup_symbol(fr.module, e.func.id) is not None:
            return None     # a package symbol of that name
        if short == "reduce" and len(args) in (2, 3):
            # functools.reduce(f, <display of known length>[, init]) is the left fold it abbreviates
            seq = args[1]
            while seq[0] == "var" and len(seq) == 4:
                seq = seq[3]
            if seq[0] in ("list", "tuple") and not any(x[0] == "star" for x in seq[1]) and (seq[1] or len(args) == 3) and len(seq[1]) <= 16:
                items = ([args[2]] if len(args) == 3 else []) + list(seq[1])
                acc = items[0]
                for x in items[1:]:
                    acc = self._apply_binary(args[0], acc, x, fr)
                    if acc is None:
                        return None
                return acc
            return None
        if short == "map" and len(args) > 2:
            # map(f, xs, repeat(c), ...) is [f(x, c, ...) for x in xs]
            def rep_of(a):
                return a[2][0] if a[0] == "call" and (a[1] in ("repeat", ("global", "repeat")) or (isinstance(a[1], tuple) and a[1][-1:] == ("repeat",))) and len(a[2]) == 1 and not a[3] else None
            var_pos = [k for k, a in enumerate(args[1:]) if rep_of(a) is None]
            if var_pos == [0]:
                dom = args[1]
                b = ("bound", fr.depth, 0, show(dom))
                ec = self.elem_type(dom)
                if ec is not None:
                    self.set_type(b, ec)
                img = self.apply_callable(args[0], b, fr, tuple(rep_of(a) for a in args[2:]))
                if img is None and len(args) == 3:
                    img = self._apply_binary(args[0], b, rep_of(args[2]), fr)       # operator.sub / add / ... as the mapped function
                return ("comp", "gen", img, ((dom, ()),)) if img is not None else None
            return None
        if short in ("map", "filter", "filterfalse") and len(args) == 2:
            dom = args[1]
            b = ("bound", fr.depth, 0, show(dom))
            ec = self.elem_type(dom)
            if ec is not None:
                self.set_type(b, ec)
            img = self.apply_callable(args[0], b, fr)
            if img is None:
                return None
            if short == "map":
                return ("comp", "gen", img, ((dom, ()),))
            return ("comp", "gen", b, ((dom, (self.truthy(img) if short == "filter" else t_not(self.truthy(img)),)),))
        if short == "next" and len(args) == 2 and args[0][0] == "comp" and len(args[0][3]) == 1:
            # first match in a display of known length: the chain of cases it abbreviates
            c = args[0]
            dom = c[3][0][0]
            while dom[0] == "var" and len(dom) == 4:
                dom = dom[3]
            if dom[0] in ("tuple", "list") and len(dom[1]) <= 8 and not any(x[0] == "star" for x in dom[1]):
                bs = subterms((c[2],) + tuple(c[3][0][1]), lambda x: x[0] == "bound" and isinstance(x[1], int) and x[3] == show(c[3][0][0]))
                if len(bs) <= 1:
                    out = args[1]
                    for item in reversed(dom[1]):
                        mp = {}
                        if bs:
                            mp[bs[0]] = item
                            if item[0] in ("tuple", "list"):
                                for k_, x_ in enumerate(item[1]):
                                    mp[("item", bs[0], k_)] = x_
                        cond = t_and(*[subst(x, mp) for x in c[3][0][1]]) if c[3][0][1] else TRUE
                        out = t_ite(cond, subst(c[2], mp), out)
                    return out
            return None
        if short == "islice" and len(args) in (2, 3, 4):
            # islice(xs, a, b) ranges over xs[a:b]
            lo, hi, stp = (NONE, args[1], NONE) if len(args) == 2 else (args[1], args[2], args[3] if len(args) == 4 else NONE)
            return ("slice", args[0], lo, hi, stp)
        if tail2 == "chain.from_iterable" and len(args) == 1:
            src = args[0]
            while src[0] == "var" and len(src) == 4:
                src = src[3]
            if src[0] == "comp" and len(src[3]) == 1:
                inner_dom = src[2]
                b = ("bound", fr.depth, 1, show(inner_dom))
                return ("comp", "gen", b, (src[3][0], (inner_dom, ())))
            if src[0] in ("attr", "values", "call", "sym", "keys", "sub"):
                # every element of every element, in order
                b0 = ("bound", fr.depth, 0, show(src))
                b1 = ("bound", fr.depth, 1, show(b0))
                return ("comp", "gen", b1, ((src, ()), (b0, ())))
            return None
        if short == "chain" and fname.split(".")[-1] == "chain" and len(args) >= 1 and tail2 != "chain.from_iterable":
            return ("concat", tuple(args))
        if short in ("list", "tuple") and len(args) == 1 and args[0][0] == "comp" and args[0][1] == "gen":
            c = args[0]
            if len(c[3]) == 1 and not c[3][0][1]:
                dom = c[3][0][0]
                while dom[0] == "var" and len(dom) == 4:
                    dom = dom[3]
                if dom[0] in ("tuple", "list") and len(dom[1]) <= 8 and not any(x[0] == "star" for x in dom[1]):
                    bs = subterms(c[2], lambda x: x[0] == "bound" and isinstance(x[1], int) and x[3] == show(c[3][0][0]))
                    if len(bs) <= 1:
                        return (short, tuple(subst(c[2], {bs[0]: item}) if bs else c[2] for item in dom[1]))
            return ("comp", "list") + c[2:]
        if short == "list" and len(args) == 1 and args[0][0] == "call" and isinstance(args[0][1], tuple) and args[0][1] == ("attr", ("global", "dict"), "fromkeys") \
                and len(args[0][2]) == 1 and not args[0][3]:
            # ``list(dict.fromkeys(xs))``: first occurrences in order -- the library's unique_in_order (whose meaning C19.I4 decides)
            u = [x for x in self.model.all_functions() if x.name == "unique_in_order" and x.kind == "function"]
            if len(u) == 1 and not (fr.fn is not None and fr.fn.name == "unique_in_order"):
                return ("call", ("fn", u[0].qualname), (), (("iterable", args[0][2][0]),))
        return None

    def bind_args(self, f: FunctionInfo, args: List[Term], kwargs: List[Tuple[str, Term]], skip_self: bool) -> Optional[Dict[str, Term]]:
        a = f.node.args
        pos = [p.arg for p in list(a.posonlyargs) + list(a.args)]
        if skip_self and pos:
            pos = pos[1:]
        passed_on = None
        stars = [v for k, v in kwargs if k == "**"]
        if len(stars) == 1 and a.kwarg is not None and not any(x[0] == "star" for x in args):
            # ``f(x, y, **kw)`` into ``def f(x, y, /, **kwargs)``: when every parameter that could be named is given explicitly, the
            # whole of ``kw`` arrives in ``kwargs``
            named = [p.arg for p in list(a.args) + list(a.kwonlyargs)]
            if skip_self and not a.posonlyargs and named:
                named = named[1:]
            given = set(pos[:len(args)]) | {k for k, _ in kwargs if k != "**"}
            if all(n in given for n in named):
                passed_on = stars[0]
                kwargs = [(k, v) for k, v in kwargs if k != "**"]
        if any(x[0] == "star" for x in args) or any(k == "**" for k, _ in kwargs):
            return None
        if len(args) > len(pos) and a.vararg is None:
            return None
        bound = dict(zip(pos, args))
        if passed_on is not None:
            bound[a.kwarg.arg] = passed_on
        names = set(pos) | {p.arg for p in a.kwonlyargs}
        for k, v in kwargs:
            if k not in names:
                if a.kwarg is None:
                    return None
                continue
            bound[k] = v
        return bound

    def call_function(self, f: FunctionInfo, self_term: Optional[Term], self_cls: Optional[ClassInfo],
                      args: List[Term], kwargs: List[Tuple[str, Term]], fr: Frame) -> Term:
        skip_self = f.kind in ("method", "classmethod", "property")
        bound = self.bind_args(f, args, kwargs, skip_self)
        canon: Term
        fref = ("attr", self_term, f.name) if (self_term is not None and f.kind == "method") else ("fn", f.qualname)
        if bound is not None:
            # an argument spelled out with the value of its (constant) default is the same call as one that omits it
            a_ = f.node.args
            pos_ = list(a_.posonlyargs) + list(a_.args)
            dflt = dict(zip([p.arg for p in pos_][::-1], list(a_.defaults)[::-1]))
            dflt.update({p.arg: d for p, d in zip(a_.kwonlyargs, a_.kw_defaults) if d is not None})
            shown = {k: v for k, v in bound.items()
                     if not (k in dflt and isinstance(dflt[k], ast.Constant) and v == const(dflt[k].value))}
            through = shown.pop(a_.kwarg.arg, None) if a_.kwarg is not None else None
            canon = ("call", fref, (), tuple(sorted(shown.items())) + ((("**", through),) if through is not None else ()))
        else:
            canon = ("call", fref, tuple(args), tuple(kwargs))
        if ((self.inline_methods or is_private_helper(f) or (self._via_callable and self._single_ref(f))) and bound is not None and fr.depth < self.max_depth and f.qualname not in self.opaque
                and "abstractmethod" not in f.decorators and not _has_loop(f.node)
                and not any(d in ("contextlib.contextmanager", "contextmanager") for d in f.decorators)):
            try:
                return self.inline(f, bound, self_term, self_cls, fr)
            except Unsupported:
                pass
            if is_private_helper(f) and f.kind in ("function", "staticmethod") and not getattr(self, "_in_builder_eval", False):
                v = self._eval_builder_by_paths(f, bound)
                if v is not None:
                    return v
        return canon

    def _eval_builder_by_paths(self, f: FunctionInfo, bound: Dict[str, Term]) -> Optional[Term]:
        """A helper that BUILDS a table from literal arguments (a loop over a display filling a dict / list, with tests decided per item) is the display
        it builds: read path by path with the loops unrolled; accepted only when exactly one path is feasible and its condition is decided."""
        if not any(_plain_display(v)[0] in ("list", "tuple", "dict") for v in bound.values()):
            return None
        from .paths import PathEnumerator
        sub = Evaluator(self.model, inline_methods=self.inline_methods, opaque=set(self.opaque))
        sub._in_builder_eval = True
        try:
            pe_ = PathEnumerator(sub)
            pe_.unroll_limit = 48
            ps = pe_.function_paths(f, args=dict(bound))
        except (Unsupported, RecursionError):
            return None
        except Exception:
            return None
        ps = [p for p in ps if p.exit in ("return", "raise", "fall")]
        if len(ps) != 1 or ps[0].exit != "return" or ps[0].cond != TRUE or ps[0].value is None:
            return None
        p = ps[0]
        if any(e.kind in ("loop", "while") for e in p.events):
            return None
        v = p.value
        if v[0] == "var" and len(v) == 4 and v[3] in (("dict", ()), ("call", "dict", (), ())):
            entries: List[Tuple[Term, Term]] = []
            for e in p.events:
                if e.kind == "store" and e.term is not None and e.term[0] == "store" and e.term[1][:3] == v[:3]:
                    if e.term[2][0] != "index":
                        return None
                    k_ = e.term[2][1]
                    entries = [(a, b) for a, b in entries if a != k_] + [(k_, e.term[3])]
                elif e.kind == "effect" and e.term is not None and e.term[0] == "call" and isinstance(e.term[1], tuple) and e.term[1][0] == "attr" and e.term[1][1][:3] == v[:3]:
                    return None
            return ("dict", tuple(entries))
        if v[0] == "var" and len(v) == 4 and v[3][0] == "list":
            from .listflow import concrete_list
            items = concrete_list(p, v)
            return ("list", tuple(items)) if items is not None else None
        if v[0] in ("dict", "list", "tuple", "new", "const", "lin"):
            return v
        return None

    def construct(self, c: ClassInfo, args: List[Term], kwargs: List[Tuple[str, Term]], fr: Frame) -> Term:
        """Constructor call -> ('new', Class, ((field, value), ...)) with positional arguments mapped to the
        init-fields of the dataclass (or to the parameters of an explicit __init__)."""
        names: Optional[List[str]] = None
        init = c.resolve("__init__")
        if init is not None:
            names = [p.arg for p in init.node.args.posonlyargs + init.node.args.args][1:]
        elif any(k.is_dataclass for k in c.mro()):
            names = [n for n, f in c.all_fields().items() if f.init]
        elif is_named_tuple(c):
            names = named_tuple_fields(c)
        if names is None or any(x[0] == "star" for x in args) or len(args) > len(names):
            return ("call", ("cls", c.name), tuple(args), tuple(kwargs))
        bound = list(zip(names, args)) + [(k, v) for k, v in kwargs]
        return ("new", c.name, tuple(sorted(bound)))


def expand_dict(t: Term) -> Optional[List[Tuple[Term, Term]]]:
    """entries of a dict term when they are statically known: a display, or ``{k(e): v(e) for e in <known entries>.items()}``"""
    while t[0] == "var" and len(t) == 4:
        t = t[3]
    if t[0] == "dict":
        if any(k == ("star",) for k, _ in t[1]):
            return None
        return list(t[1])
    if t[0] == "dictcomp" and len(t[3]) == 1 and not t[3][0][1]:
        it = t[3][0][0]
        if it[0] == "items":
            src = expand_dict(it[1])
            if src is None:
                return None
            bs = subterms((t[1], t[2]), lambda x: x[0] == "bound" and isinstance(x[1], int) and x[3] == show(it))
            if len(bs) != 1:
                return None
            b = bs[0]
            return [(subst(t[1], {("item", b, 0): k, ("item", b, 1): v}), subst(t[2], {("item", b, 0): k, ("item", b, 1): v})) for k, v in src]
    return None


def is_named_tuple(c: ClassInfo) -> bool:
    return any((b if isinstance(b, str) else b.name).split(".")[-1] == "NamedTuple" for b in c.bases)


def named_tuple_fields(c: ClassInfo) -> List[str]:
    return [st.target.id for st in c.node.body if isinstance(st, ast.AnnAssign) and isinstance(st.target, ast.Name)]


def _never_none(t: Term) -> bool:
    """a value that was built right here (display, comprehension, constructor result, number): comparing it with None has one answer"""
    while t[0] == "var" and len(t) == 4:
        t = t[3]
    if t[0] in ("list", "tuple", "dict", "set", "comp", "dictcomp", "concat", "new", "fstr", "lambda"):
        return True
    if t[0] == "lin" and not t[1]:
        return True
    if t[0] == "const" and t[1] is not None:
        return True
    return False


def _listy(t: Term) -> bool:
    while t[0] == "var" and len(t) == 4:
        t = t[3]
    return t[0] in ("list", "concat") or (t[0] == "comp" and t[1] == "list") or (t[0] == "call" and t[1] == "list")


def is_private_helper(f: FunctionInfo) -> bool:
    """``_name`` (single leading underscore): an implementation detail of its caller, not an interface the rules name.  Such helpers are
    always seen through (extracting a block into a private helper does not change what the caller does)."""
    from .model import is_helper_name
    return is_helper_name(f.name) and f.kind in ("method", "staticmethod", "classmethod", "function")


def _has_loop(node: ast.AST) -> bool:
    """Shapes the value evaluator cannot read (a ``for`` is tried: loops over displays of known length are unrolled, others give up there)."""
    for n in ast.walk(node):
        if isinstance(n, (ast.While, ast.With, ast.Try, ast.Yield, ast.YieldFrom)):
            return True
    return False


def new_fields(t: Term) -> Dict[str, Term]:
    assert t[0] == "new"
    return dict(t[2])


def outcomes_to_cases(outs: List[Outcome]) -> List[Tuple[Term, str, Optional[Term]]]:
    return [(o.cond, o.kind, o.value) for o in outs]


def _int_const(t) -> Optional[int]:
    n = number(t) if isinstance(t, tuple) else None
    if n is None or (t[0] == "const" and isinstance(t[1], bool)):
        return None
    return int(n) if (isinstance(n, int) or n.denominator == 1) else None


def _plain_display(t):
    while isinstance(t, tuple) and t and t[0] == "var" and len(t) == 4:
        t = t[3]
    return t


_ENUM_VALUE_HOOK = None


def subst(t, mapping: Dict[Term, Term]):
    """Replace sub-terms and re-normalise through the smart constructors."""
    if not isinstance(t, tuple) or not t:
        return t
    if t in mapping:
        return mapping[t]
    k = t[0]
    if k == "lin":
        out: Term = lin({}, t[2])
        for a, c in t[1]:
            out = t_add(out, t_scale(subst(a, mapping), c))
        return out
    if k == "mono":
        out = lin({}, Fraction(1))
        for x in t[1]:
            out = t_mul(out, subst(x, mapping))
        return out
    if k == "eq":
        return t_cmp("==", subst(t[1], mapping), subst(t[2], mapping))
    if k == "same":
        return t_cmp("is", subst(t[1], mapping), subst(t[2], mapping))
    if k == "isinstance" and isinstance(t[2], tuple):
        x, c = subst(t[1], mapping), subst(t[2], mapping)
        names = [y[1] for y in (c[1] if c[0] == "tuple" else [c]) if y[0] == "cls"]
        if names and len(names) == (len(c[1]) if c[0] == "tuple" else 1):
            return t_or(*[("isinstance", x, nm) for nm in names])
        return ("isinstance", x, c)
    if k == "cmp":
        return t_cmp(t[1], subst(t[2], mapping), lin({}, Fraction(0)))
    if k == "not":
        return t_not(subst(t[1], mapping))
    if k == "and":
        return t_and(*[subst(x, mapping) for x in t[1]])
    if k == "or":
        return t_or(*[subst(x, mapping) for x in t[1]])
    if k == "ite":
        return t_ite(subst(t[1], mapping), subst(t[2], mapping), subst(t[3], mapping))
    if k in ("xor", "bitor", "bitand"):
        xs = [subst(x, mapping) for x in t[1]]
        ints = [_int_const(x) for x in xs]
        if all(i is not None for i in ints) and ints:
            acc = ints[0]
            for i in ints[1:]:
                acc = acc ^ i if k == "xor" else acc | i if k == "bitor" else acc & i
            return lin({}, Fraction(acc))
        return (k, tuple(sorted(xs, key=repr)))
    if k in ("lshift", "rshift"):
        a, b = subst(t[1], mapping), subst(t[2], mapping)
        ia, ib = _int_const(a), _int_const(b)
        if ia is not None and ib is not None and 0 <= ib <= 64:
            return lin({}, Fraction(ia << ib if k == "lshift" else ia >> ib))
        return (k, a, b)
    if k == "pow" and len(t) == 3:
        a, b = subst(t[1], mapping), subst(t[2], mapping)
        na, nb = number(a), number(b)
        # closed powers with a small whole exponent (2 ** flag)
        if na is not None and nb is not None and nb.denominator == 1 and 0 <= nb <= 64:
            return lin({}, na ** int(nb))
        return ("pow", a, b)
    if k == "sub":
        base, idx = subst(t[1], mapping), subst(t[2], mapping)
        b0 = _plain_display(base)
        if b0[0] == "dict" and idx[0] in ("enum", "const", "lin", "cls"):
            for kk, vv in b0[1]:
                if kk == idx:
                    return vv
        if b0[0] in ("list", "tuple"):
            i = _int_const(idx)
            if i is not None and -len(b0[1]) <= i < len(b0[1]) and not any(x[0] == "star" for x in b0[1]):
                return b0[1][i]
        return ("sub", base, idx)
    if k == "item" and len(t) == 3 and isinstance(t[2], int):
        base = subst(t[1], mapping)
        b0 = _plain_display(base)
        if b0[0] in ("list", "tuple") and -len(b0[1]) <= t[2] < len(b0[1]) and not any(x[0] == "star" for x in b0[1]):
            return b0[1][t[2]]
        return ("item", base, t[2])
    if k in ("max", "min"):
        return (k, tuple(sorted((subst(x, mapping) for x in t[1]), key=repr)))
    if k == "bag":
        return (k, t[1], tuple(sorted((subst(x, mapping) for x in t[2]), key=repr)))
    r = tuple(subst(x, mapping) if isinstance(x, tuple) else x for x in t)
    if k == "call" and r[1] in ("int", "float", "bool") and len(r[2]) == 1 and not r[3]:
        a = r[2][0]
        if a[0] == "const" and isinstance(a[1], bool):
            return lin({}, Fraction(int(a[1]))) if r[1] != "bool" else a
        if number(a) is not None and r[1] == "float":
            return a
        if r[1] == "bool" and _int_const(a) is not None:
            return TRUE if _int_const(a) != 0 else FALSE

    if k == "call" and r[1] == "len" and len(r[2]) == 1 and not r[3]:
        d0 = _plain_display(r[2][0])
        if d0[0] == "cls" and _ENUM_VALUE_HOOK is not None:
            # len(<Enum class>) is its number of members
            n_ = _ENUM_VALUE_HOOK(("len", d0[1]))
            if n_ is not None:
                return n_
        if d0[0] in ("list", "tuple") and not any(isinstance(x, tuple) and x and x[0] == "star" for x in d0[1]):
            return lin({}, Fraction(len(d0[1])))

    def _closed_key(x):
        return isinstance(x, tuple) and x and (x[0] in ("enum", "const") or number(x) is not None)
    # <enum member>.name is the member's name
    if k == "attr" and r[2] == "name" and isinstance(r[1], tuple) and r[1] and r[1][0] == "enum":
        return ("const", r[1][2])
    if k == "attr" and r[2] == "value" and isinstance(r[1], tuple) and r[1] and r[1][0] == "enum" and _ENUM_VALUE_HOOK is not None:
        v_ = _ENUM_VALUE_HOOK(r[1])
        if v_ is not None:
            return v_
    # {k1: v1, ...}.get(key, default) on a display whose keys and the key are all closed (constants / enum members): Python's lookup by equality --
    # a member looked up in a table keyed by names (or the reverse) finds nothing and answers the default
    if k == "call" and isinstance(r[1], tuple) and len(r[1]) == 3 and r[1][0] == "attr" and r[1][2] == "get" and not r[3] and 1 <= len(r[2]) <= 2:
        d0 = _plain_display(r[1][1])
        if d0[0] == "dict" and all(_closed_key(kk) for kk, _ in d0[1]) and _closed_key(r[2][0]):
            for kk, vv in d0[1]:
                if kk == r[2][0]:
                    return vv
            return r[2][1] if len(r[2]) == 2 else NONE
    # x in (a, b, ...) over a display of closed values
    if k == "in" and _closed_key(r[1]):
        d0 = _plain_display(r[2])
        if d0[0] in ("list", "tuple", "set") and all(_closed_key(x) for x in d0[1]):
            return TRUE if any(x == r[1] for x in d0[1]) else FALSE
    return r


def bool_value(outs: List[Outcome]) -> Term:
    """Boolean function computed by a predicate: disjunction of (path condition and returned value)."""
    parts = []
    for o in outs:
        if o.kind == "return":
            parts.append(t_and(o.cond, o.value))
    return t_or(*parts)


def subterms(t, pred, acc=None):
    if acc is None:
        acc = []
    if isinstance(t, tuple) and t:
        if isinstance(t[0], str) and pred(t) and t not in acc:
            acc.append(t)
        for x in t:
            if isinstance(x, tuple):
                subterms(x, pred, acc)
    return acc


def _show_var(t):
    return t[1]
