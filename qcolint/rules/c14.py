"""C14 -- noise dressing only adds noise, with the configured strengths.

N1  nothing dropped: in the three transforming walks every input instruction reaches an append/extend on every path; the
    measurement dresser emits one instruction per target (same target, same order); the Pauli dresser wraps every block
    ([noise, *block, noise]) and emits every block including the tail.
N2  names: inserted channel PAULI_CHANNEL_1 with three arguments; the measurement replacement is a measurement with one argument.
N3  writer/reader key agreement: keys looked up with ``instruction.name`` (canonical in Stim) must be canonical gate names.
N4  formula and bounds: t = max block duration / 2; px = py = (1-exp(-t/t1))/4; pz = (1-exp(-t/t2))/2 - (1-exp(-t/t1))/4; all
    clamped to [0,1]; px+py+pz <= 1 by interval arithmetic over exp(.) in [0,1].
N5  per-qubit lookup: the index handed to get_noise_settings is the target the emitted instruction acts on; indexed settings
    fall back to the defaults only for unmapped indices; duration keys map to their own duration field.
"""
from __future__ import annotations

import ast
from fractions import Fraction
from typing import Dict, List, Optional, Tuple

from ..model import AnalysisError, Model
from ..paths import Path, PathEnumerator, find_calls
from ..report import Report
from ..sym import (FALSE, NONE, TRUE, Evaluator, Frame, Term, Unsupported, as_lin, atoms_of, const, lin, number, show, subst, subterms, sym,
                   t_add, t_and, t_cmp, t_div, t_mul, t_not, t_scale)
from .common import call_arg, call_args, devar, is_call_of, loop_of, strip_identity_wrappers

# Stim gate aliases -> canonical name (stim 1.1x `stim.gate_data(name).name`); a key that is an alias is never matched by
# instruction.name.  Frozen reference data, cross-checked against the installed stim in the thorough tier when importable.
STIM_ALIASES = {
    "MZ": "M", "RZ": "R", "MRZ": "MR", "ZCZ": "CZ", "ZCX": "CX", "CNOT": "CX", "ZCY": "CY", "H_XZ": "H", "SQRT_Z": "S",
    "SQRT_Z_DAG": "S_DAG", "CORRELATED_ERROR": "E", "SWAPCZ": "CZSWAP", "MPAD": "MPAD",
}
DURATION_SPEC = {"M": "duration_mz", "CZ": "duration_cz", "H": "duration_h", "X": "duration_x"}
NP = ("global", "np")
STIM_INSTR = ("attr", ("global", "stim"), "CircuitInstruction")


def check(model: Model, rep: Report, tier: str):
    rep.trust("stim reports instruction.name in canonical form; alias table frozen in the checker (MZ->M, RZ->R, ZCZ->CZ, CNOT->CX, ...)")
    with rep.isolated():
        n1(model, rep)
    with rep.isolated():
        n2_n3(model, rep, tier)
    with rep.isolated():
        n4(model, rep)
    with rep.isolated():
        n5(model, rep)
    with rep.isolated():
        n6(model, rep)


def atoms_of_cond(t: Term) -> set:
    """guards of a conditional value (ite tree)"""
    out = set()
    if isinstance(t, tuple) and t and t[0] == "ite":
        out |= set(atoms_of(t[1])) | atoms_of_cond(t[2]) | atoms_of_cond(t[3])
    return out


def _instr(v: Optional[Term]) -> Optional[Dict[str, Term]]:
    if v is None or v[0] != "call" or v[1] != STIM_INSTR:
        return None
    kw = dict(v[3])
    for i, n in enumerate(("name", "targets", "gate_args")):
        if n not in kw and i < len(v[2]):
            kw[n] = v[2][i]
    return kw


# ---------------------------------------------------------------------------------------------
def n1(model: Model, rep: Report):
    rep.rule("C14.N1", "every instruction of the flattened input reaches the output: the dresser walk appends an unsupported instruction or extends with its "
                       "dressed form on every path, then appends every collected instruction; the measurement dresser emits exactly one instruction per target; "
                       "the Pauli pass emits [noise, *block, noise] for every block of split_instruction_blocks, which yields every instruction including the tail")
    M = model.cls("StimNoiseDresserFactoryManager")
    f = M.resolve("construct")
    ev = Evaluator(model, inline_methods=False)
    ps = PathEnumerator(ev).function_paths(f, self_cls=M)
    s = sym(f.self_name)
    circ, settings = sym(f.param_names[1]), sym(f.param_names[2])
    construct = "StimNoiseDresserFactoryManager.construct"
    flat = ("call", ("attr", circ, "flattened"), (), ())
    from ..listflow import as_flatmap
    for p in [q for q in ps if q.exit == "return"]:
        loops = [e for e in p.events if e.kind == "loop"]
        if len(loops) < 2:
            raise AnalysisError(f"{construct}: expected a dressing walk, an emit pass and the additive pass, found {len(loops)} loops")
        L2, L3 = loops[-2], loops[-1]
        # the dressing walk as  [y for ins in flattened for y in F(ins)]  (comprehension, or accumulator loop with append / extend)
        fm = as_flatmap(p, L2.term)
        if fm is None:
            raise AnalysisError(f"{construct}: the collection that is emitted ({show(L2.term)[:80]}) is not read as 'every instruction replaced by a list'")
        src, ins, F = fm
        src = strip_identity_wrappers(src)
        if src[0] == "call" and src[1] == "enumerate":
            src = src[2][0]
            ins = ("item", ins, 1)
        rep.check(src == flat, "C14.N1", construct + "[source]", f.loc, found=show(fm[0]), required="the whole flattened input circuit", what="not every input instruction is visited", detail="source")
        name = ("attr", ins, "name")
        supported = ("call", ("attr", s, "contains"), (), (("factory_key", name),))
        bad = []
        coll = L2.term
        f_sup, f_uns = subst(F, {supported: TRUE}), subst(F, {supported: FALSE})
        if atoms_of_cond(F) - {supported}:
            bad.append(f"walk condition is not just 'supported': {show(F)[:160]}")
        if f_uns not in (("list", (ins,)), ("tuple", (ins,))):
            bad.append("an unsupported instruction is not passed through unchanged exactly once")
        ok_sup = f_sup[0] == "call" and isinstance(f_sup[1], tuple) and f_sup[1][0] == "attr" and f_sup[1][2] == "construct" and f_sup[1][1] == ("sub", ("attr", s, "factory_lookup"), name)
        if ok_sup:
            kw = dict(f_sup[3])
            pos = list(f_sup[2])
            ok_sup = (kw.get("instruction", pos[0] if pos else None), kw.get("settings", pos[1] if len(pos) > 1 else None)) == (ins, settings)
        if not ok_sup:
            bad.append("a supported instruction is not replaced by the result of its own dresser exactly once")
        rep.check(not bad, "C14.N1", construct + "[dress-walk]", f.loc, found="; ".join(sorted(set(bad))) or "append or extend on every path", required="every instruction is appended or replaced by its dressed form",
                  what="input instructions can be lost or duplicated while dressing: " + "; ".join(sorted(set(bad))), detail="dress-walk")
        # second pass appends all
        e2 = ("bound", "for", L2.node.lineno, show(L2.term))
        ok2 = coll is not None and L2.term == coll and len(L2.extra["paths"]) == 1 and not atoms_of(L2.extra["paths"][0].cond)
        if ok2:
            a2 = [c for e in L2.extra["paths"][0].events if e.kind == "effect" for c in find_calls(e.term, "append")]
            ok2 = len(a2) == 1 and a2[0][2] == (e2,)
        rep.check(ok2, "C14.N1", construct + "[emit-all]", f.loc, found=show(L2.term), required="append every collected instruction", what="collected instructions are not all emitted", detail="emit-all")
        # additives
        e3 = ("bound", "for", L3.node.lineno, show(L3.term))
        ok3 = L3.term == ("attr", s, "factory_additives") and len(L3.extra["paths"]) == 1
        rep.check(ok3, "C14.N1", construct + "[additives]", f.loc, found=show(L3.term), required="every additive factory applied to the running result", what="additive noise passes are skipped", detail="additives")
    # measurement dresser
    D = model.cls("MeasurementNoiseDresserFactory")
    f = D.resolve("construct")
    ev = Evaluator(model, inline_methods=False)
    ps = PathEnumerator(ev).function_paths(f, self_cls=D)
    s = sym(f.self_name)
    ins, settings = sym(f.param_names[1]), sym(f.param_names[2])
    from ..listflow import as_single_comp
    n_ret = 0
    for p in [q for q in ps if q.exit == "return"]:
        n_ret += 1
        comp = as_single_comp(p, p.value) if p.value is not None else None
        while comp is not None and comp[0] == "var" and comp[3][0] == "comp":
            comp = comp[3]
        pv = p.value
        while pv is not None and pv[0] == "var" and len(pv) == 4:
            pv = pv[3]
        if pv is not None and pv[0] == "list" and pv[1] == (ins,) and p.cond != TRUE:
            # a way out that hands the measurement back UNDRESSED: right only for an instruction without targets
            rep.fail("C14.N2", "MeasurementNoiseDresserFactory.construct[undressed way out]", f.loc, found=f"returns [instruction] when [{show(p.cond)[:100]}]",
                     required="every target's measurement carries its assignment error", what=f"when [{show(p.cond)[:100]}] the measurement instruction is returned as it came: its "
                     "targets carry no assignment error", detail="undressed")
            continue
        if comp is None or comp[0] != "comp" or comp[1] != "list" or len(comp[3]) != 1:
            raise AnalysisError(f"MeasurementNoiseDresserFactory.construct: the result is not one instruction list over the targets ({show(p.value) if p.value else None})")
        dom, conds = comp[3][0]
        src_ok = strip_identity_wrappers(dom) == ("call", ("fn", "intrf_noise_factory.extract_instruction_targets"), (), (("instruction", ins),))
        rep.check(src_ok, "C14.N1", "MeasurementNoiseDresserFactory.construct[targets]", f.loc, found=show(dom), required="all targets of the instruction, in order", what="some measured qubits lose their measurement", detail="m-targets")
        bs = subterms(comp[2], lambda x: x[0] == "bound" and x[3] == show(dom))
        elem = bs[0] if len(bs) == 1 else None
        bad = []
        if conds:
            bad.append(f"targets filtered by {show(conds[0])}")
        kw = _instr(comp[2])
        if kw is None or elem is None:
            bad.append("emitted value is not an instruction of the target")
        else:
            if kw.get("targets") != ("list", (elem,)):
                bad.append(f"emitted on {show(kw.get('targets'))} instead of the measured target")
            ga = kw.get("gate_args")
            want = ("list", (("attr", ("call", ("attr", settings, "get_noise_settings"), (), (("index", elem),)), "assignment_error"),))
            if ga != want:
                rep.fail("C14.N5", "MeasurementNoiseDresserFactory.construct[assignment-error]", f.loc, found=show(ga) if ga else None, required="[settings.get_noise_settings(<that target>).assignment_error]",
                         what="a measurement does not carry the assignment error configured for its own qubit", detail="m-arg")
            else:
                rep.ok("C14.N5", "MeasurementNoiseDresserFactory.construct[assignment-error]", f.loc, found=show(ga), required="assignment error of the measured target")
            if kw.get("name") != ("attr", s, "_operation_name"):
                bad.append(f"name {show(kw.get('name'))}")
        rep.check(not bad, "C14.N1", "MeasurementNoiseDresserFactory.construct[one-per-target]", f.loc,
                  found="; ".join(bad) or "one instruction per target", required="exactly one measurement per target, same target, same order", what="measurements are lost, duplicated or moved to another qubit: " + "; ".join(bad),
                  detail="m-emit")
    rep.floor("return paths of MeasurementNoiseDresserFactory.construct", n_ret, 1)
    # split blocks
    P = model.cls("PauliAdditiveCircuitNoiseFactory")
    g = P.resolve("split_instruction_blocks")
    ev = Evaluator(model, inline_methods=False)
    ps = PathEnumerator(ev).function_paths(g, self_cls=P)
    src_param, split = sym(g.param_names[0]), sym(g.param_names[1])
    import ast as _ast
    if any(isinstance(n, _ast.While) for n in _ast.walk(g.node)) or sum(isinstance(n, _ast.For) for n in _ast.walk(g.node)) != 1:
        raise AnalysisError("split_instruction_blocks: not a single pass over the instructions (the block splitter is read only in that shape)")
    for p in ps:
        lp = loop_of(p)
        if lp is None:
            raise AnalysisError("split_instruction_blocks: no loop")
        elem = ("bound", "for", lp.node.lineno, show(lp.term))
        bad = []
        if lp.term != src_param:
            bad.append(f"iterates {show(lp.term)}")
        is_split = t_cmp("==", ("attr", elem, "name"), split)
        sub_names = set()
        for bp in lp.extra["paths"]:
            apps = [c for e in bp.events if e.kind == "effect" for c in find_calls(e.term, "append") if c[2] == (elem,)]
            ys = [e for e in bp.events if e.kind == "yield"]
            if len(apps) != 1:
                bad.append("an instruction is not added to the running block")
            else:
                sub_names.add(apps[0][1][1][1] if apps[0][1][1][0] in ("var", "loopvar") else None)
            if subst(bp.cond, {is_split: TRUE}) == TRUE:
                if len(ys) != 1 or not apps or ys[0].term != apps[0][1][1]:
                    bad.append("a block is not yielded at its split instruction")
                nv = bp.env.get(apps[0][1][1][1]) if apps and apps[0][1][1][0] in ("var", "loopvar") else None
                if not (nv is not None and nv[0] == "var" and nv[3] == ("list", ())):
                    bad.append("the running block is not restarted after a split")
                order = [e.kind if e.kind == "yield" else "append" for e in bp.events if e.kind == "yield" or (e.kind == "effect" and find_calls(e.term, "append"))]
                if order[:2] != ["append", "yield"]:
                    bad.append("the split instruction is not part of the block it closes")
            elif subst(bp.cond, {is_split: FALSE}) == TRUE:
                if ys:
                    bad.append("a block is yielded in the middle")
            else:
                bad.append(f"condition {show(bp.cond)}")
        tail = [e for e in p.events if e.kind == "yield"]
        if len(tail) != 1 or tail[0].term[0] != "after":
            bad.append("the tail block after the last split is not yielded")
        rep.check(not bad, "C14.N1", "PauliAdditiveCircuitNoiseFactory.split_instruction_blocks", g.loc, found="; ".join(sorted(set(bad))) or "all instructions, split after TICK, tail yielded",
                  required="every instruction lands in exactly one yielded block", what="instructions are lost between blocks: " + "; ".join(sorted(set(bad))), detail="split")
    with rep.isolated():
        block_local_time(model, rep)
    pauli_walk(model, rep)


def block_local_time(model: Model, rep: Report):
    """C14.N4 [block-local]: the idle time of a block depends on this block only (no value carried from earlier blocks)."""
    P = model.cls("PauliAdditiveCircuitNoiseFactory")
    f = P.resolve("construct")
    construct = "PauliAdditiveCircuitNoiseFactory.construct"
    outer = None
    for n in ast.walk(f.node):
        if isinstance(n, ast.For) and any(isinstance(c, ast.Call) and isinstance(c.func, ast.Attribute) and c.func.attr == "split_instruction_blocks" for c in ast.walk(n.iter)):
            outer = n
            break
    if outer is None:
        raise AnalysisError(f"{construct}: no loop over split_instruction_blocks(..)")
    t_exprs = [kw.value for c in ast.walk(outer) if isinstance(c, ast.Call) and isinstance(c.func, ast.Attribute) and c.func.attr == "get_pauli_error"
               for kw in c.keywords if kw.arg == "t"]
    t_exprs += [c.args[0] for c in ast.walk(outer) if isinstance(c, ast.Call) and isinstance(c.func, ast.Attribute) and c.func.attr == "get_pauli_error" and c.args]
    if not t_exprs:
        return  # the walk below reports the missing channel computation

    def loads(e) -> set:
        bound = {t.id for c in ast.walk(e) if isinstance(c, ast.comprehension) for t in ast.walk(c.target) if isinstance(t, ast.Name)}
        return {x.id for x in ast.walk(e) if isinstance(x, ast.Name) and isinstance(x.ctx, ast.Load)} - bound

    def stores(t) -> set:
        return {x.id for x in ast.walk(t) if isinstance(x, ast.Name) and isinstance(x.ctx, ast.Store)}
    stored_in_loop = {x.id for st in outer.body for x in ast.walk(st) if isinstance(x, ast.Name) and isinstance(x.ctx, ast.Store)}
    carried: Dict[str, int] = {}

    def read(e, defined, line):
        for nm in loads(e):
            if nm in stored_in_loop and nm not in defined:
                carried.setdefault(nm, line)

    def walk(stmts, defined: set) -> set:
        for st in stmts:
            if isinstance(st, ast.Assign):
                read(st.value, defined, st.lineno)
                for t in st.targets:
                    if isinstance(t, ast.Name) or isinstance(t, (ast.Tuple, ast.List)):
                        defined |= stores(t)
                    else:
                        read(t, defined, st.lineno)
            elif isinstance(st, ast.AnnAssign):
                if st.value is not None:
                    read(st.value, defined, st.lineno)
                    defined |= stores(st.target)
            elif isinstance(st, ast.AugAssign):
                read(st.value, defined, st.lineno)
                if isinstance(st.target, ast.Name):
                    if st.target.id not in defined:
                        carried.setdefault(st.target.id, st.lineno)
                else:
                    read(st.target, defined, st.lineno)
            elif isinstance(st, ast.If):
                read(st.test, defined, st.lineno)
                d1, d2 = walk(st.body, set(defined)), walk(st.orelse, set(defined))
                defined |= (d1 & d2)
            elif isinstance(st, (ast.For, ast.While)):
                read(st.iter if isinstance(st, ast.For) else st.test, defined, st.lineno)
                inner = set(defined)
                if isinstance(st, ast.For):
                    inner |= stores(st.target)
                walk(st.body, inner)
                walk(st.orelse, set(defined))
            elif isinstance(st, ast.With):
                for it in st.items:
                    read(it.context_expr, defined, st.lineno)
                    if it.optional_vars is not None:
                        defined |= stores(it.optional_vars)
                defined |= walk(st.body, set(defined)) - defined
            elif isinstance(st, ast.Try):
                walk(st.body, set(defined))
                for h_ in st.handlers:
                    walk(h_.body, set(defined))
                walk(st.orelse, set(defined))
                defined |= walk(st.finalbody, set(defined)) - defined
            elif isinstance(st, (ast.FunctionDef, ast.ClassDef)):
                raise AnalysisError(f"{construct}: a definition inside the block loop; carried values not read")
            else:
                for e in ast.iter_child_nodes(st):
                    if isinstance(e, ast.expr):
                        read(e, defined, st.lineno)
        return defined
    walk(outer.body, stores(outer.target))
    # names the idle time depends on, through the assignments of the loop body
    deps_of: Dict[str, set] = {}
    for st in [x for b in outer.body for x in ast.walk(b)]:
        if isinstance(st, ast.Assign):
            for t in st.targets:
                for nm in stores(t):
                    deps_of.setdefault(nm, set()).update(loads(st.value))
        elif isinstance(st, ast.AnnAssign) and st.value is not None:
            for nm in stores(st.target):
                deps_of.setdefault(nm, set()).update(loads(st.value))
        elif isinstance(st, ast.AugAssign):
            for nm in stores(st.target):
                deps_of.setdefault(nm, set()).update(loads(st.value) | {nm})
        elif isinstance(st, ast.For):
            for nm in stores(st.target):
                deps_of.setdefault(nm, set()).update(loads(st.iter))
    deps, todo = set(), [nm for e in t_exprs for nm in loads(e)]
    while todo:
        nm = todo.pop()
        if nm not in deps:
            deps.add(nm)
            todo.extend(deps_of.get(nm, ()))
    bad = sorted(nm for nm in carried if nm in deps)
    rep.check(not bad, "C14.N4", construct + "[block-local]", f"{f.module.relpath}:{carried[bad[0]] if bad else outer.lineno}",
              found="; ".join(f"`{nm}` is read at line {carried[nm]} before this block assigns it and is assigned inside the block loop" for nm in bad) or
              f"t depends on {sorted(deps & stored_in_loop)} -- each assigned afresh per block",
              required="every value the idle time t is computed from is assigned afresh for each block",
              what="the idling time of a block depends on a value carried over from the blocks before it (a running maximum / total that is not reset per block): "
                   "a short block after a long one idles as long as the long one", detail="block-local")


def pauli_walk(model: Model, rep: Report):
    P = model.cls("PauliAdditiveCircuitNoiseFactory")
    f = P.resolve("construct")
    ev = Evaluator(model, inline_methods=False)
    # the block splitter is a generator that is read on its own (above); here it stays a call
    ps = PathEnumerator(ev, no_inline=("PauliAdditiveCircuitNoiseFactory.split_instruction_blocks", "PauliAdditiveCircuitNoiseFactory.get_pauli_error")).function_paths(f, self_cls=P)
    s = sym(f.self_name)
    circ, settings = sym(f.param_names[1]), sym(f.param_names[2])
    construct = "PauliAdditiveCircuitNoiseFactory.construct"
    for p in [q for q in ps if q.exit == "return"]:
        lp = loop_of(p)
        if lp is None:
            raise AnalysisError(f"{construct}: no block loop")
        flat = ("call", ("attr", circ, "flattened"), (), ())
        want_src = ("call", ("attr", s, "split_instruction_blocks"), (flat, ("attr", s, "_split_operation")), ())
        src = lp.term
        src_ok = src[0] == "call" and (src[1] == ("fn", "PauliAdditiveCircuitNoiseFactory.split_instruction_blocks") or is_call_of(src, "split_instruction_blocks")) \
            and (list(src[2]) + [v for _, v in src[3]]) == [flat, ("attr", s, "_split_operation")]
        rep.check(src_ok, "C14.N1", construct + "[blocks]", f.loc, found=show(src), required="split_instruction_blocks(flattened input, split operation)", what="the Pauli pass does not see every block of the input", detail="blocks")
        block = ("bound", "for", lp.node.lineno, show(lp.term))
        targets_all = ("call", ("fn", "intrf_noise_factory.extract_all_targets"), (), (("circuit", circ),))
        for bp in lp.extra["paths"]:
            # the loops of construct itself (a helper that was read in place brings its own loops: they compute values, they do not dress or emit)
            lo_, hi_ = f.node.lineno, getattr(f.node, "end_lineno", None) or 10 ** 9
            inner = [e for e in bp.events if e.kind == "loop" and lo_ <= getattr(e.node, "lineno", lo_) <= hi_]
            if not inner:
                raise AnalysisError(f"{construct}: no emit loop per block")
            E = inner[-1]
            form = _wrap_form(bp, inner, block)
            if form is None:
                raise AnalysisError(f"{construct}: the dressed block is neither the per-qubit re-wrap [noise, *block, noise] nor [*reversed(noise list), *block, *noise list]")
            q_dom, q, noise, problems, emitted = form
            rep.check(not problems, "C14.N1", construct + "[wrap]", f.loc, found="; ".join(problems) or "noise ... block ... noise (symmetric, every qubit)", required="[noise(q_k) .. noise(q_1), *block, noise(q_1) .. noise(q_k)]",
                      what="the block's own instructions are not kept between the two idle channels: " + "; ".join(problems), detail="wrap")
            rep.check(strip_identity_wrappers(q_dom) == targets_all, "C14.N1", construct + "[qubits]", f.loc, found=show(q_dom), required="all qubits of the circuit", what="idle noise is not placed on every qubit",
                      detail="qubits")
            kw = _instr(noise) if noise is not None else None
            if kw is None:
                rep.fail("C14.N1", construct + "[wrap]", f.loc, found=show(noise) if noise else None, required="a stim instruction per qubit", what="the idle channel is not an instruction", detail="wrap-instr")
                continue
            setting = ("call", ("attr", settings, "get_noise_settings"), (), (("index", q),))
            args = kw.get("gate_args")
            ok_args = args is not None and args[0] == "list" and len(args[1]) == 3
            t_arg = None
            if ok_args:
                for i, a in enumerate(args[1]):
                    ok_i = a[0] == "item" and a[2] == i and a[1][0] == "call" and not a[1][2] and \
                        (a[1][1] == ("fn", "PauliAdditiveCircuitNoiseFactory.get_pauli_error") or a[1][1] == ("attr", s, "get_pauli_error"))
                    if ok_i:
                        kwa = dict(a[1][3])
                        ok_i = set(kwa) == {"t", "t1", "t2"} and kwa["t1"] == ("attr", setting, "t1") and kwa["t2"] == ("attr", setting, "t2")
                        t_arg = kwa.get("t") if t_arg in (None, kwa.get("t")) else ("?",)
                    ok_args = ok_args and ok_i
            # N4: t == half the duration of the block's longest operation
            md = None
            if t_arg is not None and t_arg[0] == "lin" and len(t_arg[1]) == 1 and t_arg[2] == 0 and t_arg[1][0][1] == Fraction(1, 2):
                md = devar(t_arg[1][0][0])
            ok_md = False
            found_md = show(t_arg) if t_arg else None
            if md is not None and md[0] == "call" and md[1] == "max" and len(md[2]) == 1 and md[2][0][0] == "comp":
                comp = md[2][0]
                gens = comp[3]
                elt = comp[2]
                dom_ok = len(gens) == 1 and not gens[0][1] and gens[0][0] == block
                bnd = subterms(elt, lambda x: x[0] == "bound")
                elt_ok = is_call_of(elt, "get_operation_duration") and elt[1][1] == settings and len(bnd) == 1 and (list(elt[2]) + [v for _, v in elt[3]]) == [("attr", bnd[0], "name")]
                dflt = dict(md[3]).get("default")
                ok_md = dom_ok and elt_ok and (dflt is None or number(dflt) == 0)
                found_md = "0.5 * " + show(md)
                if not dom_ok:
                    found_md = f"max over {show(gens[0][0]) if gens else '?'}" + (" with a filter" if gens and gens[0][1] else "")
            from_state = t_arg is not None and bool(subterms(t_arg, lambda x: x[0] == "attr" and x[1] == s))   # read from the factory object (a table kept across calls)
            has_max = md is not None and bool(subterms(md, lambda x: x[0] == "call" and x[1] == "max"))
            # undecided only for a duration that IS half of something (md) which is computed without any max(..) -- a running maximum / a helper; a time that is not half
            # of anything, or a max(..) that is altered (guarded, sliced, defaulted differently), is a definite deviation
            if not ok_md and not from_state and md is not None and not has_max:
                # not written as max(...) over the block: a running maximum / helper -- its value is not read here (block_local_time decides that it is per block)
                raise AnalysisError(f"{construct}: the block duration {found_md[:120] if found_md else None} is not written as max(<durations of the block>); not read")
            rep.check(ok_md, "C14.N4", construct + "[block-duration]", f.loc, found=found_md, required="0.5 * max(settings.get_operation_duration(i.name) for i in <the whole block>)",
                      what="the idling time of a block is not half the duration of its longest operation (an instruction of the block is left out of the maximum)", detail="max-duration")
            rep.check(ok_args, "C14.N4", construct + "[time-and-coherence]", f.loc, found=show(args) if args else None, required="px, py, pz = get_pauli_error(t=max_duration/2, t1, t2 of THIS qubit)",
                      what="the idle channel is not computed from half the block duration and the qubit's own T1/T2", detail="pauli-args")
            rep.check(kw.get("targets") == ("list", (q,)), "C14.N5", construct + "[target]", f.loc, found=show(kw.get("targets")), required="[the qubit whose settings were looked up]",
                      what="the idle channel acts on another qubit than the one whose coherence times it uses", detail="pauli-target")
            rep.check(kw.get("name") == ("attr", s, "_operation_name"), "C14.N2", construct + "[name]", f.loc, found=show(kw.get("name")), required="the configured channel name", what="inserted instruction name changed", detail="pauli-name")
            # emit loop
            e_el = ("bound", "for", E.node.lineno, show(E.term))
            ok_e = E.term == emitted and len(E.extra["paths"]) == 1 and not atoms_of(E.extra["paths"][0].cond)
            if ok_e:
                ap = [c for e in E.extra["paths"][0].events if e.kind == "effect" for c in find_calls(e.term, "append")]
                ok_e = len(ap) == 1 and ap[0][2] == (e_el,)
            rep.check(ok_e, "C14.N1", construct + "[emit]", f.loc, found=show(E.term), required="append every instruction of the wrapped block", what="wrapped blocks are not emitted completely", detail="emit")


def _wrap_form(bp, inner, block):
    """(qubit domain, qubit element, noise instruction, problems, emitted term) of one block's dressing, from either spelling."""
    problems: List[str] = []
    if len(inner) == 2:
        # per-qubit re-wrap: for q in Q: block = [noise(q), *block, noise(q)]
        Q, E = inner
        q = ("bound", "for", Q.node.lineno, show(Q.term))
        noise, block_name = None, None
        for qp in Q.extra["paths"]:
            if atoms_of(qp.cond) or qp.exit not in ("fall", "continue"):
                problems.append(f"conditional: {show(qp.cond)}")
                continue
            new_block = None
            for n, v in qp.env.items():
                if v[0] == "var" and v[3][0] == "list" and any(x[0] == "star" for x in v[3][1]):
                    new_block, block_name = v[3], n
            if new_block is None:
                problems.append("block not re-bound")
                continue
            if not (len(new_block[1]) == 3 and new_block[1][1][0] == "star" and new_block[1][0] == new_block[1][2]
                    and new_block[1][1][1] == ("loopvar", block_name, Q.node.lineno)):
                problems.append(f"re-bound to {show(new_block)[:120]}")
                continue
            noise = new_block[1][0]
        init = Q.extra["init_env"].get(block_name) if block_name else None
        if block_name is not None and init != block:
            problems.append(f"the wrap starts from {show(init) if init else None}, not from the block")
        return Q.term, q, noise, problems, (("after", block_name, Q.node.lineno) if block_name else None)
    # three emit passes: for n in reversed(noise_list): emit n; for i in block: emit i; for n in noise_list: emit n  (noise_list = [noise(q) for q in Q],
    # written as a comprehension or filled by an append loop before)
    def _emits_own_element(L) -> bool:
        if L.term is None or len(L.extra["paths"]) != 1 or atoms_of(L.extra["paths"][0].cond) or L.extra["paths"][0].exit not in ("fall", "continue"):
            return False
        el = ("bound", "for", L.node.lineno, show(L.term))
        ap = [c for e in L.extra["paths"][0].events if e.kind == "effect" for c in find_calls(e.term, "append")]
        return len(ap) == 1 and ap[0][2] == (el,)
    emit_loops = [L for L in inner if _emits_own_element(L)]
    if len(emit_loops) == 3 and emit_loops == inner[-3:]:
        from ..listflow import as_single_comp
        E1, E2, E3 = emit_loops
        right = E3.term
        left = E1.term
        if not (left[0] == "call" and left[1] == "reversed" and len(left[2]) == 1 and left[2][0] == right):
            problems.append(f"first pass {show(left)[:80]} is not the reversed last pass")
        if E2.term != block:
            problems.append(f"middle pass {show(E2.term)[:80]} is not the block")
        rc = devar(as_single_comp(bp, right)) if right[0] == "var" else devar(right)
        if rc[0] != "comp" or rc[1] != "list" or len(rc[3]) != 1 or rc[3][0][1]:
            return None
        q_dom = rc[3][0][0]
        bs = subterms(rc[2], lambda x: x[0] == "bound" and x[3] == show(q_dom))
        if len(bs) != 1:
            return None
        return q_dom, bs[0], rc[2], problems, E3.term
    if len(inner) == 1:
        # display: dressed = [*reversed(noise_list), *block, *noise_list] with noise_list = [noise(q) for q in Q]
        E = inner[0]
        d = devar(E.term) if E.term is not None else None
        if d is None or d[0] != "list" or len(d[1]) != 3 or not all(x[0] == "star" for x in d[1]):
            return None
        left, mid, right = (x[1] for x in d[1])
        if not (left[0] == "call" and left[1] == "reversed" and len(left[2]) == 1 and left[2][0] == right):
            problems.append(f"left part {show(left)[:80]} is not the reversed right part")
        if mid != block:
            problems.append(f"middle part {show(mid)[:80]} is not the block")
        if right[0] != "comp" or right[1] != "list" or len(right[3]) != 1 or right[3][0][1]:
            return None
        q_dom = right[3][0][0]
        bs = subterms(right[2], lambda x: x[0] == "bound" and x[3] == show(q_dom))
        if len(bs) != 1:
            return None
        return q_dom, bs[0], right[2], problems, E.term
    return None


# ---------------------------------------------------------------------------------------------
def n2_n3(model: Model, rep: Report, tier: str):
    rep.rule("C14.N2", "inserted instruction names: the Pauli pass inserts PAULI_CHANNEL_1 (three arguments); measurements are replaced by a measurement (MZ/M) with one argument")
    rep.rule("C14.N3", "every string key that is looked up with instruction.name (duration_mapper, the dresser table) is a canonical Stim gate name, not an alias")
    M = model.cls("NoiseFactoryManager")
    expr = M.class_attrs.get("_factory")
    if expr is None:
        raise AnalysisError("NoiseFactoryManager: the default dresser is no longer the `_factory` literal (how the default tables reach the instance is not read)")
    ev = Evaluator(model)
    v = ev.expr(expr, Frame(None, M.module, {}, M, 0))
    if v[0] != "new" or v[1] != "StimNoiseDresserFactoryManager":
        raise AnalysisError("NoiseFactoryManager._factory literal not recognised")
    d = dict(v[2])
    lk = d.get("factory_lookup")
    loc = f"{M.module.relpath}:{expr.lineno}"
    keys = []
    if lk is None or lk[0] != "dict":
        raise AnalysisError("NoiseFactoryManager factory_lookup is not a dict literal")
    for k, val in lk[1]:
        if k[0] != "const":
            raise AnalysisError("dresser key is not a string literal")
        keys.append(("NoiseFactoryManager.factory_lookup", k[1], loc))
        nm = val[2][0] if val[0] == "call" and val[2] else (dict(val[3]).get("operation_name") if val[0] == "call" else None)
        if val[0] == "new":
            nm = dict(val[2]).get("operation_name")
        name = nm[1] if nm is not None and nm[0] == "const" else None
        if k[1] == "M":
            rep.check(name in ("M", "MZ"), "C14.N2", "NoiseFactoryManager[M -> replacement]", loc, found=name, required="MZ (a Z-basis measurement)", what="measurements are replaced by something that is not a measurement",
                      detail="m-name")
    rep.check(any(k[1] == "M" for k in keys), "C14.N5", "NoiseFactoryManager[M dressed]", loc, found=[k[1] for k in keys], required="'M' has a dresser", what="measurements are not dressed with assignment errors at all", detail="m-missing")
    adds = d.get("factory_additives")
    names = []
    if adds is not None and adds[0] == "list":
        for a in adds[1]:
            nm = a[2][0] if a[0] == "call" and a[2] else None
            if a[0] == "new":
                nm = dict(a[2]).get("operation_name")
            names.append(nm[1] if nm is not None and nm[0] == "const" else show(a))
    rep.check(names == ["PAULI_CHANNEL_1"], "C14.N2", "NoiseFactoryManager[additives]", loc, found=names, required=["PAULI_CHANNEL_1"], what="something other than the idle Pauli channel is inserted", detail="additive-names")
    # duration mapper keys
    O = model.cls("OperationDurationParameters")
    f = O.properties.get("duration_mapper")
    mv = Evaluator(model).value_of(f, self_cls=O)
    if mv[0] != "dict":
        raise AnalysisError("duration_mapper is not a dict literal")
    s = sym(f.self_name)
    for k, val in mv[1]:
        if k[0] != "const":
            raise AnalysisError("duration_mapper key is not a string literal")
        keys.append(("OperationDurationParameters.duration_mapper", k[1], f.loc))
        want_field = DURATION_SPEC.get(k[1]) or DURATION_SPEC.get(STIM_ALIASES.get(k[1], ""), None)
        if want_field is not None:
            rep.check(val == ("attr", s, want_field), "C14.N5", f"OperationDurationParameters.duration_mapper[{k[1]}]", f.loc, found=show(val), required=f"self.{want_field}",
                      what=f"the duration of '{k[1]}' operations is taken from another operation's setting", detail=f"duration:{k[1]}")
    canon = {STIM_ALIASES.get(k[1], k[1]) for k in keys if k[0].startswith("OperationDuration")}
    for need in DURATION_SPEC:
        rep.check(need in canon, "C14.N5", f"OperationDurationParameters.duration_mapper[has {need}]", f.loc, found=sorted(canon), required=need, what=f"no duration is configured for '{need}' operations (their blocks idle for 0)",
                  detail=f"duration-missing:{need}")
    for table, key, kloc in keys:
        rep.check(key not in STIM_ALIASES or STIM_ALIASES[key] == key, "C14.N3", f"{table}['{key}']", kloc, found=key, required=f"canonical name '{STIM_ALIASES.get(key, key)}'",
                  what=f"'{key}' is a Stim alias: instruction.name reports '{STIM_ALIASES.get(key, key)}', so this entry is never found", detail=f"alias:{key}")
    # readers use instruction.name
    if tier == "thorough":
        try:  # optional cross-reference of the frozen alias table against the installed third-party package (not repository code)
            import stim  # type: ignore
            bad = {a: c for a, c in STIM_ALIASES.items() if stim.gate_data(a).name != c}
            rep.check(not bad, "C14.N3", "alias table vs installed stim", "qcolint/rules/c14.py:1", found=bad or "consistent", required="consistent", what="frozen alias table disagrees with stim", detail="alias-table")
        except Exception as e:  # pragma: no cover
            rep.info(f"C14.N3: stim not importable for the optional alias cross-check ({type(e).__name__})")


# ---------------------------------------------------------------------------------------------
def n4(model: Model, rep: Report):
    rep.rule("C14.N4", "get_pauli_error(t, t1, t2): (0,0,0) for t == 0; px = py = clamp((1 - exp(-t/t1))/4); pz = clamp((1 - exp(-t/t2))/2 - (1 - exp(-t/t1))/4); "
                       "clamp = min(max(., 0), 1); px + py + pz <= 1 for exp(.) in [0, 1]")
    P = model.cls("PauliAdditiveCircuitNoiseFactory")
    f = P.resolve("get_pauli_error")
    ev = Evaluator(model)
    outs = ev.eval_function(f, self_cls=P)
    names = [p for p in f.param_names]
    t, t1, t2 = (sym(n) for n in names[-3:])
    zero = lin({}, Fraction(0))
    one = lin({}, Fraction(1))
    e1 = ("call", ("attr", NP, "exp"), (t_scale(t_div(t, t1), Fraction(-1)),), ())
    e2 = ("call", ("attr", NP, "exp"), (t_scale(t_div(t, t2), Fraction(-1)),), ())
    a = t_add(one, e1, -1)
    b = t_add(one, e2, -1)
    px = t_scale(a, Fraction(1, 4))
    pz = t_add(t_scale(b, Fraction(1, 2)), t_scale(a, Fraction(1, 4)), -1)

    def clamp(x):
        inner = ("max", tuple(sorted([x, zero], key=repr)))
        return ("min", tuple(sorted([inner, one], key=repr)))
    tz = t_cmp("==", t, zero)
    for case, mp in (("t == 0", {tz: TRUE}), ("t != 0", {tz: FALSE})):
        hit = [o for o in outs if subst(o.cond, mp) == TRUE]
        if len(hit) != 1 or hit[0].kind != "return" or hit[0].value[0] != "tuple" or len(hit[0].value[1]) != 3:
            rep.fail("C14.N4", f"get_pauli_error[{case}]", f.loc, found=[str(o) for o in hit], required="one (px, py, pz) result", what="result shape changed", detail=f"shape:{case}")
            continue
        got = hit[0].value[1]
        want = (zero, zero, zero) if case == "t == 0" else (clamp(px), clamp(px), clamp(pz))
        rep.check(tuple(got) == want, "C14.N4", f"get_pauli_error[{case}]", f.loc, found=[show(g) for g in got], required=[show(w) for w in want],
                  what="the idle channel does not follow the T1/T2 formula or is not clamped to [0, 1]", detail=f"formula:{case}")
    # interval bound of the un-clamped sum with exp(.) in [0, 1]
    total = t_add(t_add(px, px), pz)
    coeffs, k = as_lin(total)
    hi = k + sum(c for c in coeffs.values() if c > 0)
    lo = k + sum(c for c in coeffs.values() if c < 0)
    only_exp = all(x in (e1, e2) for x in coeffs)
    rep.check(only_exp and hi <= 1 and lo >= 0, "C14.N4", "get_pauli_error[sum-bound]", f.loc, found=f"px+py+pz in [{lo}, {hi}]", required="within [0, 1]", what="X+Y+Z can exceed 1", detail="sum")


# ---------------------------------------------------------------------------------------------
def n5(model: Model, rep: Report):
    rep.rule("C14.N5", "IndexedNoiseSettings.get_noise_settings(index): the mapped qubit's settings when the index is mapped, the defaults otherwise; "
                       "NoiseSettings.get_noise_settings: the individual entry when present, the defaults otherwise; get_operation_duration: the mapper entry "
                       "when present, the default duration otherwise; apply_noise hands the given map and settings to the factory")
    I = model.cls("IndexedNoiseSettings")
    f = I.resolve("get_noise_settings")
    ev = Evaluator(model, inline_methods=True, opaque={"NoiseSettings.get_noise_settings", "NoiseSettings.get_default_noise_settings"})
    outs = ev.eval_function(f, self_cls=I)
    s = sym(f.self_name)
    idx = sym(f.param_names[1])
    lookup = ("attr", s, "qubit_index_lookup")
    mapped = ("in", idx, lookup)
    ns = ("attr", s, "noise_settings")
    want_t = ("call", ("attr", ns, "get_noise_settings"), (), (("qubit_id", ("sub", lookup, idx)),))
    want_f = ("call", ("attr", ns, "get_default_noise_settings"), (), ())
    for case, mp, want in (("mapped", {mapped: TRUE}, want_t), ("unmapped", {mapped: FALSE}, want_f)):
        hit = [o for o in outs if subst(o.cond, mp) == TRUE]
        ok = len(hit) == 1 and hit[0].kind == "return" and hit[0].value is not None and subst(hit[0].value, mp) == want
        rep.check(ok, "C14.N5", f"IndexedNoiseSettings.get_noise_settings[{case}]", f.loc, found=[show(o.value) for o in hit], required=show(want),
                  what="per-qubit settings are not looked up through the index map (or the defaults are used for a mapped qubit)", detail=f"indexed:{case}")
    N = model.cls("NoiseSettings")
    g = N.resolve("get_noise_settings")
    outs = Evaluator(model, inline_methods=False).eval_function(g, self_cls=N)
    gs = sym(g.self_name)
    qid = sym(g.param_names[1])
    ind = ("attr", gs, "individual_noise")
    present = ("in", qid, ind)
    for case, mp, want in (("configured", {present: TRUE}, ("sub", ind, qid)), ("not configured", {present: FALSE}, ("call", ("attr", gs, "get_default_noise_settings"), (), ()))):
        hit = [o for o in outs if subst(o.cond, mp) == TRUE]
        ok = len(hit) == 1 and hit[0].kind == "return" and hit[0].value is not None and subst(hit[0].value, mp) == want
        rep.check(ok, "C14.N5", f"NoiseSettings.get_noise_settings[{case}]", g.loc, found=[show(o.value) for o in hit], required=show(want), what="a qubit's own noise entry is not used", detail=f"settings:{case}")
    d = N.resolve("get_default_noise_settings")
    v = Evaluator(model, inline_methods=False).value_of(d, self_cls=N)
    ds = sym(d.self_name)
    ok = v[0] == "new" and v[1] == "QubitNoiseModelParameters" and dict(v[2]) == {"t1": ("attr", ds, "default_t1"), "t2": ("attr", ds, "default_t2"), "assignment_error": ("attr", ds, "default_assignment_error"),
                                                                            "single_qubit_gate_error": ("attr", ds, "default_single_qubit_gate_error")}
    rep.check(ok, "C14.N5", "NoiseSettings.get_default_noise_settings", d.loc, found=show(v), required="each default_* in its own field", what="default noise parameters are crossed (e.g. T1 used as T2)", detail="defaults")
    h = I.resolve("get_operation_duration")
    outs = Evaluator(model, inline_methods=False, opaque={"OperationDurationParameters.duration_mapper", "OperationDurationParameters.default_duration"}).eval_function(h, self_cls=I)
    hs = sym(h.self_name)
    ident = sym(h.param_names[1])
    mapper = ("attr", ("attr", ("attr", hs, "noise_settings"), "operation_durations"), "duration_mapper")
    has = ("in", ident, mapper)
    for case, mp, want in (("known", {has: TRUE}, ("sub", mapper, ident)), ("unknown", {has: FALSE}, ("attr", ("attr", ("attr", hs, "noise_settings"), "operation_durations"), "default_duration"))):
        hit = [o for o in outs if subst(o.cond, mp) == TRUE]
        ok = len(hit) == 1 and hit[0].kind == "return" and hit[0].value is not None and subst(hit[0].value, mp) == want
        rep.check(ok, "C14.N5", f"IndexedNoiseSettings.get_operation_duration[{case}]", h.loc, found=[show(o.value) for o in hit], required=show(want), what="operation durations are not read from the configured table",
                  detail=f"duration-lookup:{case}")
    a = model.function("noise_factory_manager", "apply_noise")
    ps = PathEnumerator(Evaluator(model, inline_methods=False)).function_paths(a)
    circ, qmap, fac, nset = (sym(n) for n in a.param_names[:4])
    n = 0
    for p in [q for q in ps if q.exit == "return"]:
        n += 1
        v = p.value
        ok = is_call_of(v, "construct") and v[1][1] == fac
        if ok:
            kw = dict(v[3])
            pos = list(v[2])
            c = kw.get("circuit", pos[0] if pos else None)
            st = kw.get("settings", pos[1] if len(pos) > 1 else None)
            ok = c == circ and st is not None and st[0] == "new" and st[1] == "IndexedNoiseSettings" and dict(st[2]).get("noise_settings") == nset
            lk = dict(st[2]).get("qubit_index_lookup") if ok else None
            ok = ok and (lk == qmap or (lk is not None and lk[0] == "var" and lk[3] == ("dict", ())))
        rep.check(ok, "C14.N5", "apply_noise", a.loc, found=show(v), required="factory.construct(circuit, IndexedNoiseSettings(noise_settings, qubit_index_map))", what="the given index map / settings are not what the dresser uses", detail="apply")
    rep.floor("return paths of apply_noise", n, 1)


# ---------------------------------------------------------------------------------------------
def n6(model: Model, rep: Report):
    rep.rule("C14.N6", "extract_instruction_targets: annotations (DETECTOR, OBSERVABLE_INCLUDE, SHIFT_COORDS) have no qubit targets; otherwise every token after the "
                       "instruction name, as int, in order; extract_all_targets: every target of every instruction of the circuit, as a sorted list without duplicates")
    from ..listflow import as_single_comp
    f = model.function("intrf_noise_factory", "extract_instruction_targets")
    ev = Evaluator(model, inline_methods=False)
    ps = [p for p in PathEnumerator(ev).function_paths(f) if p.exit == "return"]
    ins = sym(f.param_names[0])
    name = ("attr", ins, "name")
    ann = ("DETECTOR", "OBSERVABLE_INCLUDE", "SHIFT_COORDS")
    bad = []
    n_tok = 0
    for p in ps:
        for a in ann:
            mp = {t_cmp("==", name, ("const", x)): (TRUE if x == a else FALSE) for x in ann}
            c = subst(p.cond, mp)
            others = [x for x in atoms_of(c)]
            if c == TRUE and p.value != ("list", ()):
                bad.append(f"{a} is given targets {show(p.value)[:60]}")
        mp = {t_cmp("==", name, ("const", x)): FALSE for x in ann}
        c = subst(p.cond, mp)
        extra = [x for x in atoms_of(c) if x[0] == "eq" and name in x]
        if c == FALSE:
            continue
        comp = as_single_comp(p, p.value)
        while comp[0] == "var" and comp[3][0] == "comp":
            comp = comp[3]
        ok = comp[0] == "comp" and comp[1] == "list" and len(comp[3]) == 1 and not comp[3][0][1]
        if ok:
            dom = comp[3][0][0]
            while dom[0] == "var":
                dom = dom[3]
            bs = subterms(comp[2], lambda x: x[0] == "bound")
            ok = comp[2] == ("call", "int", (bs[0],), ()) if len(bs) == 1 else False
            tokens = ("call", ("attr", ("call", "str", (ins,), ()), "split"), (), ())
            ok = ok and dom == ("slice", tokens, lin({}, Fraction(1)), NONE, NONE)
        n_tok += 1
        if not ok:
            bad.append(f"gate targets are {show(p.value)[:100]}")
    if n_tok == 0:
        raise AnalysisError("extract_instruction_targets: no path produces targets")
    rep.check(not bad, "C14.N6", "extract_instruction_targets", f.loc, found="; ".join(bad) or "annotations -> []; gates -> [int(t) for t in str(instruction).split()[1:]]",
              required="[] for annotations, every token after the name as int otherwise", what="the qubits an instruction acts on are read wrongly (noise lands on other qubits, or a measurement is dropped): " + "; ".join(bad), detail="targets")
    g = model.function("intrf_noise_factory", "extract_all_targets")
    ps = [p for p in PathEnumerator(Evaluator(model, inline_methods=False)).function_paths(g) if p.exit == "return"]
    circ = sym(g.param_names[0])
    bad = []
    for p in ps:
        v = p.value
        unique = False
        while v is not None and ((v[0] == "call" and v[1] in ("sorted", "list", "set", "frozenset", "tuple") and len(v[2]) == 1) or (v[0] == "var" and v[3] is not None and (v[3][0] == "comp" or (v[3][0] == "call" and len(v[3][2]) == 1)))):
            if v[0] == "call":
                unique = unique or v[1] in ("set", "frozenset")
                v = v[2][0]
            else:
                v = v[3]
        if not (p.value is not None and (p.value[0] == "call" and p.value[1] == "sorted")):
            bad.append("the result is not sorted")
        loops = [e for e in p.events if e.kind == "loop"]
        if v is not None and v[0] == "var" and loops:
            L = loops[0]
            ok = L.term == circ
            inner_ok = False
            for bp in L.extra["paths"]:
                for e in bp.events:
                    if e.kind == "loop" and e.term is not None and e.term[0] == "call" and e.term[1] == ("fn", "intrf_noise_factory.extract_instruction_targets") \
                            and (list(e.term[2]) + [x for _, x in e.term[3]]) == [("bound", "for", L.node.lineno, show(L.term))]:
                        tb = ("bound", "for", e.node.lineno, show(e.term))
                        adds = [c for ibp in e.extra["paths"] for ev_ in ibp.events if ev_.kind == "effect" for c in find_calls(ev_.term, "add") if c[2] == (tb,) and not atoms_of(ibp.cond)]
                        inner_ok = len(adds) == len(e.extra["paths"]) == 1
            if not (ok and inner_ok):
                bad.append("not every target of every instruction is collected")
        elif v is not None and v[0] == "comp":
            unique = unique or v[1] == "set"
            inner = v[3][1][0] if len(v[3]) == 2 else None
            whole = inner is not None and inner[0] == "call" and inner[1] == ("fn", "intrf_noise_factory.extract_instruction_targets") \
                and [x[0] for x in list(inner[2]) + [y for _, y in inner[3]]] == ["bound"] and v[2][0] == "bound"
            if not (whole and v[3][0][0] == circ and not v[3][0][1] and not v[3][1][1]):
                bad.append("not every target of every instruction is collected")
            if not unique:
                bad.append("duplicates are not removed")
        else:
            bad.append(f"result is {show(p.value)[:80] if p.value else None}")
    if not ps:
        raise AnalysisError("extract_all_targets: no return path")
    rep.check(not bad, "C14.N6", "extract_all_targets", g.loc, found="; ".join(sorted(set(bad))) or "sorted(set of all targets of all instructions)", required="all targets of all instructions, sorted, unique",
              what="idle noise is not placed on every qubit of the circuit: " + "; ".join(sorted(set(bad))), detail="all-targets")
