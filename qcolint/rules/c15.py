"""C15 -- OpenQL export is the in-order image of the circuit.

O1  operation-type -> instruction table equals the documented mapping; the name factory emits kernel.gate(name, qubits).
O2  controlled-phase: cz(control, target); barrier(pair); update_ph(control); update_ph(target) -- in this order.
O3  wait keeps int(operation.duration) on the operation's qubits; barrier acts on the operation's qubits.
O4  the walk: whole listing in order; sub-circuit -> recursive construct added nr_of_repetitions times at its position
    (the pending kernel must be flushed before a sub-program is added); unsupported -> skipped; supported -> exactly one
    kernel extension with its own factory.
O5  a repeated sub-program is emitted without re-using one program/kernel name.
O6  determinism: program / kernel names derive only from the ordered class names of the listing (uuid5) or the given id.
"""
from __future__ import annotations

import ast
import itertools
from fractions import Fraction
from typing import Dict, List, Optional, Tuple

from ..model import AnalysisError, Model
from ..paths import Path, PathEnumerator, find_calls
from ..report import Report
from ..sym import FALSE, NONE, TRUE, Evaluator, Frame, Term, Unsupported, atoms_of, lin, number, show, subst, subterms, sym, t_not
from .common import is_call_of, loop_of, node_iterator_domain, norm_stmt, strip_identity_wrappers

SPEC_TABLE = {
    "Reset": "prepz", "Barrier": "<barrier>", "Wait": "<wait>", "Hadamard": "h", "Identity": "i", "CPhase": "<cz+barrier+update_ph>",
    "DispersiveMeasure": "measure", "Rx180": "x180", "Rx90": "x90", "Rxm90": "mx90", "Ry180": "y180", "Ry90": "y90", "Rym90": "my90",
}
STRUCT_FACTORIES = {"BarrierOperationsFactory": "<barrier>", "WaitOperationsFactory": "<wait>", "CompositeCPhaseOperationsFactory": "<cz+barrier+update_ph>"}
QIDX = ("fn", "factory_basic_operations.get_qubit_index")


def check(model: Model, rep: Report, tier: str):
    rep.trust("spec: documented OpenQL instruction names prepz/h/i/measure/x180/x90/mx90/y180/y90/my90, cz+barrier+update_ph, wait, barrier")
    with rep.isolated():
        o1(model, rep)
    with rep.isolated():
        o2_o3(model, rep)
    with rep.isolated():
        o4_o5(model, rep)
    with rep.isolated():
        o6(model, rep)
    with rep.isolated():
        o7(model, rep)
    from .c06 import u5 as _u5
    from .common import share_rule as _share
    with rep.isolated():
        _share(rep, model, _u5, "C15.O9", "sub-circuits are exported as many times as their repetition count AT EXPORT TIME: nr_of_repetitions is computed on every read, not "
               "memoised (= C06.U5); a cached count keeps the value of the first export after the registry or callback changed")


def _ctor_name(v: Term) -> Optional[str]:
    if v[0] == "new":
        return v[1]
    if v[0] == "call" and isinstance(v[1], tuple) and v[1][0] == "cls":
        return v[1][1]
    return None


def o1(model: Model, rep: Report):
    rep.rule("C15.O1", "OpenQLFactoryManager's operation-type -> instruction table equals the documented mapping; NameBasedOperationsFactory emits "
                       "kernel.gate(<configured name>, get_qubit_index(operation)) and returns the kernel")
    M = model.cls("OpenQLFactoryManager")
    expr = M.class_attrs.get("_factory")
    if expr is None:
        raise AnalysisError("OpenQLFactoryManager._factory not found")
    ev = Evaluator(model)
    v = ev.expr(expr, Frame(None, M.module, {}, M, 0))
    lk = dict(v[2]).get("factory_lookup") if v[0] == "new" else None
    if lk is None or lk[0] != "dict":
        raise AnalysisError("OpenQL factory_lookup literal not recognised")
    loc = f"{M.module.relpath}:{expr.lineno}"
    table: Dict[str, Term] = {}
    for k, val in lk[1]:
        if k[0] != "cls" or k[1] in table:
            raise AnalysisError(f"OpenQL factory_lookup key {show(k)} not a unique class")
        table[k[1]] = val
    for cname, want in SPEC_TABLE.items():
        val = table.get(cname)
        if val is None:
            rep.fail("C15.O1", f"openql table[{cname}]", loc, found="missing", required=want, what=f"{cname} is no longer exported (silently omitted from every program)", detail=f"missing:{cname}")
            continue
        n = _ctor_name(val)
        if n == "NameBasedOperationsFactory":
            nm = dict(val[2]).get("operation_name") if val[0] == "new" else (val[2][0] if val[2] else None)
            found = nm[1] if nm is not None and nm[0] == "const" else show(nm)
        else:
            found = STRUCT_FACTORIES.get(n or "", show(val))
        rep.check(found == want, "C15.O1", f"openql table[{cname}]", loc, found=found, required=want, what=f"{cname} is exported as {found} instead of the documented {want}", detail=f"gate:{cname}")
    extra = sorted(set(table) - set(SPEC_TABLE))
    if extra:
        rep.info(f"C15.O1: classes exported beyond the documented table (not judged): {extra}")
    N = model.cls("NameBasedOperationsFactory", "addon_openql.operation_factories.factory_basic_operations")
    f = N.resolve("construct")
    ev1 = Evaluator(model, inline_methods=False)
    ps = PathEnumerator(ev1).function_paths(f, self_cls=N)
    s = sym(f.self_name)
    op, kernel = sym(f.param_names[1]), sym(f.param_names[2])
    init = N.resolve("__init__")
    ips = PathEnumerator(Evaluator(model, inline_methods=False)).function_paths(init, self_cls=N)
    nparam = sym([p for p in init.param_names if p != init.self_name][0])
    name_attr = [e.term[2] for p in ips for e in p.events if e.kind == "store" and e.term[3] == nparam]
    for p in ps:
        _not_delegated(p, kernel, f.qualname)
        calls = [ev1.beta(e.term) for e in p.events if e.kind == "effect"]
        want = ("call", ("attr", kernel, "gate"), (("attr", s, name_attr[0] if name_attr else "?"), ("call", QIDX, (), (("operation", op),))), ())
        rep.check(len(name_attr) == 1 and calls == [want] and p.value == kernel, "C15.O1", "NameBasedOperationsFactory.construct", f.loc, found=[show(c) for c in calls], required=show(want) + "; return kernel",
                  what="a named gate is not emitted once under its configured name on the operation's own qubits", detail="name-factory")
    g = M.resolve("construct")
    v = Evaluator(model, inline_methods=False).value_of(g, self_cls=M)
    ms = sym(g.self_name)
    ok = is_call_of(v, "construct") and v[1][1] == ("attr", ms, "_factory") and dict(v[3]) == {"circuit": sym("circuit"), "circuit_id": sym("circuit_id")}
    rep.check(ok, "C15.O1", "OpenQLFactoryManager.construct", g.loc, found=show(v), required="self._factory.construct(circuit=circuit, circuit_id=circuit_id)", what="the default exporter does not use its table / id", detail="delegate")
    t = model.function("addon_openql.factory_manager", "to_openql")
    v = Evaluator(model, inline_methods=False).value_of(t)
    ok = is_call_of(v, "construct") and v[1][1] == sym("factory") and dict(v[3]) == {"circuit": sym("circuit"), "circuit_id": sym("circuit_id")}
    rep.check(ok, "C15.O1", "to_openql", t.loc, found=show(v), required="factory.construct(circuit=circuit, circuit_id=circuit_id)", what="to_openql does not export the given circuit", detail="to-openql")


def _not_delegated(p: Path, kernel: Term, who: str):
    """no verdict when the kernel is handed to a function of the package that makes the calls through a computed method name (an instruction table)"""
    terms = [e.term for e in p.events if e.term is not None] + ([p.value] if p.value is not None else [])
    for t in terms:
        for c in subterms(t, lambda y: y[0] == "call" and isinstance(y[1], tuple) and y[1][0] == "fn"):
            args = list(c[2]) + [v for _, v in c[3]]
            if kernel in args:
                raise AnalysisError(f"{who}: the kernel is handed to {c[1][1]}, which issues the instructions (table-driven): the calls made on it are not read")


def kernel_calls(model: Model, p: Path, kernel: Term, depth: int = 0):
    """The calls made on the kernel along ``p``, in order, and what is returned.  A delegation ``<factory object>.construct(operation, kernel)`` to
    another operation factory of the package is replaced by that factory's own kernel calls; the kernel it hands back is the kernel."""
    out: List[Term] = []
    alias: Dict[Term, Term] = {}
    _not_delegated(p, kernel, "operation factory")
    for e in p.events:
        if e.kind != "effect" or e.term is None:
            continue
        t = subst(e.term, alias) if alias else e.term
        recv = t[1][1] if (t[0] == "call" and isinstance(t[1], tuple) and t[1][0] == "attr") else None
        cname = None
        if recv is not None and recv[0] == "new":
            cname = recv[1]
        elif recv is not None and recv[0] == "call" and isinstance(recv[1], tuple) and recv[1][0] == "cls" and not recv[2] and not recv[3]:
            cname = recv[1][1]
        if cname is not None and t[1][2] == "construct" and depth < 3:
            cands = [c for mod in model.modules.values() if "addon_openql" in mod.name for c in mod.classes.values() if c.name == cname]
            F = cands[0] if len(cands) == 1 else None
            g = F.resolve("construct") if F is not None else None
            if g is not None:
                names = [n for n in g.param_names if n != g.self_name]
                given = dict(zip(names, t[2]))
                given.update(dict(t[3]))
                if set(given) == set(names[:2]):
                    sub_ps = [q for q in PathEnumerator(Evaluator(model, inline_methods=False)).function_paths(g, self_cls=F) if q.exit != "raise"]
                    if len(sub_ps) == 1 and not atoms_of(sub_ps[0].cond):
                        k2 = sym(names[1])
                        inner, r = kernel_calls(model, sub_ps[0], k2, depth + 1)
                        mp = {sym(n): v for n, v in given.items()}
                        out.extend(subst(c, mp) for c in inner)
                        if r == k2:
                            alias[e.term] = given[names[1]]
                        continue
        out.append(t)
    ret = subst(p.value, alias) if (alias and p.value is not None) else p.value
    # the same call term appears once per statement kind (assignment + effect): keep one
    uniq: List[Term] = []
    for c in out:
        if not uniq or uniq[-1] != c or c[0] != "call":
            uniq.append(c)
    return uniq, ret


def o2_o3(model: Model, rep: Report):
    rep.rule("C15.O2", "CompositeCPhaseOperationsFactory.construct emits, in this order: cz(control, target); barrier(get_qubit_index(operation)); "
                       "gate('update_ph', control); gate('update_ph', target); and returns the kernel")
    rep.rule("C15.O3", "WaitOperationsFactory: kernel.wait(qubits=get_qubit_index(operation), duration=int(operation.duration)); "
                       "BarrierOperationsFactory: kernel.barrier(get_qubit_index(operation))")
    C = model.cls("CompositeCPhaseOperationsFactory")
    f = C.resolve("construct")
    ev2 = Evaluator(model, inline_methods=False)
    ev2.inline_class_consts = True
    ps = PathEnumerator(ev2).function_paths(f, self_cls=C)
    op, kernel = sym(f.param_names[1]), sym(f.param_names[2])
    ctl, tgt = ("attr", op, "control_qubit_index"), ("attr", op, "target_qubit_index")
    qs = ("call", QIDX, (), (("operation", op),))
    want = [("call", ("attr", kernel, "cz"), (ctl, tgt), ()), ("call", ("attr", kernel, "barrier"), (qs,), ()),
            ("call", ("attr", kernel, "gate"), (("const", "update_ph"), ctl), ()), ("call", ("attr", kernel, "gate"), (("const", "update_ph"), tgt), ())]
    for p in ps:
        calls, ret = kernel_calls(model, p, kernel)
        rep.check(calls == want and ret == kernel and not atoms_of(p.cond), "C15.O2", "CompositeCPhaseOperationsFactory.construct", f.loc, found=[show(c) for c in calls], required=[show(w) for w in want],
                  what="a controlled-phase is not exported as cz, barrier on the pair, phase update on control then target", detail="cphase")
    W = model.cls("WaitOperationsFactory")
    f = W.resolve("construct")
    ps = PathEnumerator(Evaluator(model, inline_methods=False)).function_paths(f, self_cls=W)
    op, kernel = sym(f.param_names[1]), sym(f.param_names[2])
    qs = ("call", QIDX, (), (("operation", op),))
    for p in ps:
        calls = [e.term for e in p.events if e.kind == "effect" and e.term[0] == "call" and isinstance(e.term[1], tuple) and e.term[1][0] == "attr" and e.term[1][1] == kernel]
        ok = len(calls) == 1 and calls[0][0] == "call" and calls[0][1] == ("attr", kernel, "wait") and p.value == kernel
        if ok:
            kw = dict(calls[0][3])
            pos = list(calls[0][2])
            q = kw.get("qubits", pos[0] if pos else None)
            d = kw.get("duration", pos[1] if len(pos) > 1 else None)
            ok = q == qs and d == ("call", "int", (("attr", op, "duration"),), ())
        rep.check(ok, "C15.O3", "WaitOperationsFactory.construct", f.loc, found=[show(c) for c in calls], required="kernel.wait(qubits=get_qubit_index(operation), duration=int(operation.duration))",
                  what="a wait does not keep its duration on its own qubits", detail="wait")
    B = model.cls("BarrierOperationsFactory")
    f = B.resolve("construct")
    ps = PathEnumerator(Evaluator(model, inline_methods=False)).function_paths(f, self_cls=B)
    op, kernel = sym(f.param_names[1]), sym(f.param_names[2])
    qs = ("call", QIDX, (), (("operation", op),))
    for p in ps:
        calls = [e.term for e in p.events if e.kind == "effect"]
        rep.check(calls == [("call", ("attr", kernel, "barrier"), (qs,), ())] and p.value == kernel, "C15.O3", "BarrierOperationsFactory.construct", f.loc, found=[show(c) for c in calls], required="kernel.barrier(get_qubit_index(operation))",
                  what="a barrier is not exported on its own qubits", detail="barrier")


def _no_composite_in_table(model: Model) -> bool:
    """the shipped OpenQL table maps no sub-circuit class (evaluated from its literal)"""
    M = model.cls("OpenQLFactoryManager")
    expr = M.class_attrs.get("_factory")
    if expr is None:
        return False
    v = Evaluator(model).expr(expr, Frame(None, M.module, {}, M, 0))
    lk = dict(v[2]).get("factory_lookup") if v[0] == "new" else None
    if lk is None or lk[0] != "dict":
        return False
    comp = model.cls("ICircuitCompositeOperation")
    for k, _ in lk[1]:
        if k[0] != "cls":
            return False
        c = model.maybe_cls(k[1])
        if c is None or comp in c.mro():
            return False
    return True


def o4_o5(model: Model, rep: Report):
    rep.rule("C15.O4", "OpenQLCircuitFactoryManager.construct: ranges over all nodes in order; sub-circuit -> self.construct(operation, ...) added to the program; unsupported -> skipped; "
                       "supported -> exactly one kernel = factory_lookup[type(operation)].construct(operation, kernel); typestate of the pending kernel: whenever it may hold "
                       "operations (always, or exactly when the code's own pending flag says so -- the flag is checked to follow the kernel) it is added to the program BEFORE a "
                       "sub-program and a fresh kernel is started; after the walk the pending kernel is added")
    rep.rule("C15.O5", "a sub-circuit is added operation.nr_of_repetitions times, and every added copy -- as well as every kernel started after a flush -- gets a name that cannot "
                       "repeat within the program (it depends on a counter advanced before each use, or the sub-program is constructed anew under such a name)")
    K = model.cls("OpenQLCircuitFactoryManager")
    f = K.resolve("construct")
    ev = Evaluator(model, inline_methods=False)
    pe = PathEnumerator(ev)
    pe.single_use_any = True       # pieces of the walk split off into one-caller helpers are read in place
    ps = pe.function_paths(f, self_cls=K)
    s = sym(f.self_name)
    circ = sym(f.param_names[1])
    construct = "OpenQLCircuitFactoryManager.construct"
    n = 0
    is_decl = ("isinstance", circ, "IDeclarativeCircuit")
    judged_walk = False
    for p in [q for q in ps if q.exit == "return"]:
        n += 1
        loops = [e for e in p.events if e.kind == "loop"]
        if len(loops) != 1:
            # other loops (a post-walk repetition of the final flush, say) are not the walk: the walk is the loop over the circuit's nodes / listing
            walks = [e for e in loops if e.term is not None and ("get_node_iterator" in show(e.term) or "decomposed_operations" in show(e.term) or "_circuit_graph" in show(e.term))]
            if len(walks) != 1:
                raise AnalysisError(f"{construct}: expected one walk loop")
            loops = walks
        lp = loops[0]
        lineno = lp.node.lineno
        struct = ("attr", circ, "circuit_structure") if subst(p.cond, {is_decl: TRUE}) != FALSE and is_decl in atoms_of(p.cond) and subst(p.cond, {is_decl: FALSE}) == FALSE else circ
        dom = node_iterator_domain(lp.term)
        base = strip_identity_wrappers(lp.term)
        rep.check(dom == "ALL" and base[0] == "call" and base[1][1] == ("attr", struct, "_circuit_graph"), "C15.O4", construct + "[domain]", f.loc, found=f"{show(lp.term)} -> {dom}", required="all nodes of the circuit, in listing order",
                  what="the exporter does not walk the whole circuit in order", detail="domain")
        elem = ("bound", "for", lineno, show(lp.term))
        op = ("attr", elem, "operation")
        is_comp = ("isinstance", op, "ICircuitCompositeOperation")
        supported = ("call", ("attr", s, "contains"), (), (("factory_key", ("call", "type", (op,), ())),))
        problems: List[str] = []
        prog = None
        for e in p.events:
            if e.kind == "assign" and e.term is not None and e.term[0] == "call" and e.term[1] == ("fn", "PlatformManager.construct_program"):
                prog = e.term
        kernel_name = None
        for e in p.events:
            if e.kind == "assign" and e.term is not None and e.term[0] == "call" and e.term[1] == ("fn", "PlatformManager.construct_kernel"):
                kernel_name = e.extra
        if kernel_name is None:
            raise AnalysisError(f"{construct}: the pending kernel is not identified")
        init, assigned = lp.extra["init_env"], lp.extra["assigned"]
        flags = [nm for nm in assigned if init.get(nm) in (TRUE, FALSE)]
        counters = [nm for nm in assigned if nm in init and number(init[nm]) is not None and nm not in flags]
        FL = {nm: ("loopvar", nm, lineno) for nm in flags}
        oldk = ("loopvar", kernel_name, lineno)
        no_comp = _no_composite_in_table(model)

        def truth(cond, atom):
            if subst(cond, {atom: FALSE}) == FALSE:
                return True
            if subst(cond, {atom: TRUE}) == FALSE:
                return False
            return None

        def is_fresh_kernel(t):
            return t is not None and t[0] == "call" and t[1] == ("fn", "PlatformManager.construct_kernel")

        def depends_on_advanced_counter(name_term, events_before) -> bool:
            """the name mentions a loop-carried counter that this path advanced before the name was formed (or an index of an enclosing repetition loop)"""
            advanced = {e.extra[0] for e in events_before if e.kind == "aug" and e.extra and e.extra[0] in counters and e.extra[1] == "Add"}
            for y in subterms(name_term, lambda y: y[0] in ("loopvar", "after") and y[1] in counters):
                if y[1] in advanced or y[0] == "after":
                    return True
            for y in subterms(name_term, lambda y: y[0] == "lin"):
                if any(a[0] in ("loopvar", "after") and a[1] in advanced for a, _ in y[1]):
                    return True
            return False
        info = []
        for bp in lp.extra["paths"]:
            comp, sup = truth(bp.cond, is_comp), truth(bp.cond, supported)
            extra = [a for a in atoms_of(bp.cond) if a not in (is_comp, supported) and a not in FL.values()]
            if sup is None and comp is True and no_comp and supported not in atoms_of(bp.cond):
                sup = False     # the walk moves on right after a sub-circuit: the shipped table names leaf classes only, so the skipped test would have said 'unsupported'
            if comp is None or sup is None or extra:
                problems.append(f"walk condition depends on more than (is sub-circuit, is supported, pending flag): {show(bp.cond)[:120]}")
                continue
            fv = {nm: truth(bp.cond, FL[nm]) for nm in flags if FL[nm] in atoms_of(bp.cond)}
            case = f"sub-circuit={comp}, supported={sup}" + "".join(f", {nm}={v}" for nm, v in sorted(fv.items()))
            evs = bp.events
            flush_at = [i for i, e in enumerate(evs) if e.kind == "effect" and e.term is not None for c in find_calls(e.term, "add_kernel") if c[2] == (oldk,)]
            other_flush = [c for e in evs if e.kind == "effect" and e.term is not None for c in find_calls(e.term, "add_kernel") if c[2] != (oldk,)]
            prog_at = []
            inner_loops = []
            for i, e in enumerate(evs):
                if e.kind == "effect" and e.term is not None and find_calls(e.term, "add_program"):
                    prog_at.append(i)
                if e.kind == "loop" and any(find_calls(x.term, "add_program") for b2 in e.extra["paths"] for x in b2.events if x.kind == "effect" and x.term is not None):
                    prog_at.append(i)
                    inner_loops.append((i, e))
            adds_direct = [c for e in evs if e.kind == "effect" and e.term is not None for c in find_calls(e.term, "add_program")]
            newk = bp.env.get(kernel_name)
            fresh_assign = [i for i, e in enumerate(evs) if e.kind == "assign" and e.extra == kernel_name and is_fresh_kernel(e.term)]
            kernel_at_ext = evs[fresh_assign[-1]].term if fresh_assign else oldk
            ext = ("call", ("attr", ("sub", ("attr", s, "factory_lookup"), ("call", "type", (op,), ())), "construct"), (op, kernel_at_ext), ())
            extends = newk == ext
            rec = dict(case=case, comp=comp, sup=sup, fv=fv, flushed=bool(flush_at), extends=extends, env=bp.env, bp=bp)
            info.append(rec)
            if other_flush:
                problems.append(f"[{case}] a kernel other than the pending one is added to the program")
            if comp:
                # the sub-program must be added nr_of_repetitions times, each copy under its own names
                count_ok = False
                for i_l, il in inner_loops:
                    it = il.term
                    body_adds = [c for b2 in il.extra["paths"] for e in b2.events if e.kind == "effect" and e.term is not None for c in find_calls(e.term, "add_program")]
                    if it == ("call", "range", (("attr", op, "nr_of_repetitions"),), ()) and len(il.extra["paths"]) == 1 and len(body_adds) == 1:
                        count_ok = True
                        b2 = il.extra["paths"][0]
                        inner_prog = body_adds[0][2][0] if body_adds[0][2] else None
                        while inner_prog is not None and inner_prog[0] == "var" and len(inner_prog) == 4:
                            inner_prog = inner_prog[3]
                        okp = inner_prog is not None and is_call_of(inner_prog, "construct") and inner_prog[1][1] == s
                        if okp:
                            kw = dict(inner_prog[3])
                            pos = list(inner_prog[2])
                            okp = kw.get("circuit", pos[0] if pos else None) == op
                        constructed_inside = any(isinstance(n_, ast.Call) and isinstance(n_.func, ast.Attribute) and n_.func.attr == "construct" for n_ in ast.walk(il.node))
                        if not okp and constructed_inside:
                            problems.append(f"[{case}] the program that is added is not the export of the sub-circuit itself")
                        if not constructed_inside and not judged_walk and not any(o["rule"] == "C15.O5" and o["construct"].endswith("[repetition-names]") for o in rep.obligations):
                            rep.fail("C15.O5", construct + "[repetition-names]", f.loc, found="the same sub-program object (one program name, one kernel name) is added in every iteration", required="every emitted copy has its own kernel name",
                                     what="a repetition count >= 2 re-uses one kernel name (OpenQL rejects duplicate kernel names): the same sub-program object (one program name, one kernel name) is added in every iteration",
                                     detail="duplicate-names")
                        elif okp:
                            cid = dict(inner_prog[3]).get("circuit_id", inner_prog[2][1] if len(inner_prog[2]) > 1 else None)
                            idx = ("bound", "for", il.node.lineno, show(il.term))
                            fresh_name = cid is not None and (depends_on_advanced_counter(cid, [x for x in b2.events]) or subterms(cid, lambda y: y == idx))
                            # the KERNELS of the nested export need their own names too: the callee's kernel name must be formed from a caller-given name, and the
                            # recursion must hand down a fresh one for it
                            callee_params = list(f.param_names[2:])
                            kname_terms = [dict(e.term[3]).get("name", e.term[2][0] if e.term[2] else None) for e in p.events
                                           if e.kind == "assign" and e.term is not None and e.term[0] == "call" and e.term[1] == ("fn", "PlatformManager.construct_kernel")]
                            kparams = [q for q in callee_params if kname_terms and kname_terms[0] is not None and subterms(kname_terms[0], lambda y, q=q: y == sym(q))]
                            passed = dict(inner_prog[3])
                            for i_, a_ in enumerate(inner_prog[2]):
                                if i_ >= 1 and i_ - 1 < len(callee_params):
                                    passed[callee_params[i_ - 1]] = a_
                            kernel_fresh = any(q in passed and (depends_on_advanced_counter(passed[q], [x for x in b2.events]) or subterms(passed[q], lambda y: y == idx)) for q in kparams)
                            if fresh_name and not kernel_fresh:
                                fresh_name = False
                                cid = ("const", f"kernel name of the nested export is formed from {kparams or 'the sub-circuit alone'}; the recursion hands down no fresh name for it")
                            if not judged_walk and not any(o["rule"] == "C15.O5" and o["construct"].endswith("[repetition-names]") and o["verdict"] != "ok" for o in rep.obligations):
                                rep.check(bool(fresh_name), "C15.O5", construct + "[repetition-names]", f.loc, found=show(cid)[:120] if cid is not None else None, required="every emitted copy has its own program / kernel names",
                                          what="repeated (or sibling) sub-programs are exported under one name (OpenQL rejects duplicate kernel names)", detail="duplicate-names")
                if not count_ok and not adds_direct:
                    problems.append(f"[{case}] the sub-circuit is not added operation.nr_of_repetitions times")
                elif not count_ok:
                    problems.append(f"[{case}] the sub-circuit is added {len(adds_direct)} time(s) regardless of its repetition count")
            else:
                if prog_at:
                    problems.append(f"[{case}] a plain operation adds a sub-program")
            if sup and comp and no_comp:
                pass        # the shipped table names leaf classes only: a sub-circuit is never 'supported'
            elif sup:
                if not extends:
                    problems.append(f"[{case}] kernel becomes {show(newk)[:80]} instead of factory_lookup[type(operation)].construct(operation, kernel)")
            else:
                if newk != oldk and not (comp and is_fresh_kernel(newk)):
                    problems.append(f"[{case}] an unsupported operation changes the kernel")
            if bp.exit not in ("fall", "continue"):
                problems.append(f"[{case}] walk left by {bp.exit}")
        # the pending flag (if the code keeps one): the flag that the plain supported case raises
        pend = None
        for nm in flags:
            if any(r["env"].get(nm) == TRUE and not r["comp"] and r["sup"] for r in info) and init.get(nm) == FALSE:
                pend = nm
        flag_problems = []
        if pend is not None:
            for r in info:
                end = r["env"].get(pend)
                if r["sup"] and not (r["comp"] and no_comp):
                    want = TRUE
                elif r["flushed"]:
                    want = FALSE
                else:
                    want = FL[pend] if not (r["comp"] and r["sup"]) else None
                if r["comp"] and r["sup"] and no_comp:
                    continue
                if want is not None and end != want:
                    flag_problems.append(f"[{r['case']}] {pend} becomes {show(end)} although the kernel {'was extended' if r['sup'] else 'was flushed' if r['flushed'] else 'did not change'}")
        # typestate: flush before sub-program whenever the kernel may be pending
        flush_problem = None
        for r in info:
            if not r["comp"]:
                continue
            may_pend = True if pend is None else (r["fv"].get(pend) is not False)
            bp = r["bp"]
            evs = bp.events
            flush_at = [i for i, e in enumerate(evs) if e.kind == "effect" and e.term is not None for c in find_calls(e.term, "add_kernel") if c[2] == (oldk,)]
            prog_idx = [i for i, e in enumerate(evs) if (e.kind == "effect" and e.term is not None and find_calls(e.term, "add_program")) or
                        (e.kind == "loop" and any(find_calls(x.term, "add_program") for b2 in e.extra["paths"] for x in b2.events if x.kind == "effect" and x.term is not None))]
            if not may_pend:
                continue
            if not flush_at:
                flush_problem = "operations collected in the pending kernel before a sub-circuit are emitted only after it (add_kernel happens once, after the walk)"
                continue
            if prog_idx and flush_at[0] > prog_idx[0]:
                flush_problem = "the pending kernel is added after the sub-program it precedes"
                continue
            fresh = [i for i, e in enumerate(evs) if e.kind == "assign" and e.extra == kernel_name and is_fresh_kernel(e.term) and i > flush_at[0]]
            if not fresh:
                flush_problem = "after the pending kernel was added no fresh kernel is started (later operations extend a kernel that is already part of the program)"
                continue
            nm_t = dict(evs[fresh[0]].term[3]).get("name", evs[fresh[0]].term[2][0] if evs[fresh[0]].term[2] else None)
            if not judged_walk:
                rep.check(nm_t is not None and depends_on_advanced_counter(nm_t, evs[:fresh[0]]), "C15.O5", construct + "[kernel-names]", f.loc, found=show(nm_t)[:120] if nm_t is not None else None,
                          required="a kernel started after a flush has a name that cannot repeat within the program", what="kernels started after a flush re-use a kernel name (OpenQL rejects duplicate kernel names)", detail="kernel-names")
        rep.check(not problems, "C15.O4", construct + "[walk]", f.loc, found="; ".join(problems) or "one emit per element", required="sub-circuit: added nr_of_repetitions times; supported: one kernel extension; unsupported: nothing",
                  what="the exported program is not the image of the listing: " + "; ".join(problems), detail="walk")
        if not judged_walk:
            rep.check(flush_problem is None, "C15.O4", construct + "[kernel-before-sub-program]", f.loc, found=flush_problem or "pending kernel flushed before sub-programs", required="add_kernel(pending) before add_program(inner), fresh kernel after",
                      what="sub-circuits do not appear at the position where they were added: " + (flush_problem or ""), detail="kernel-order")
            if pend is not None:
                rep.check(not flag_problems, "C15.O4", construct + "[pending-flag]", f.loc, found="; ".join(flag_problems) or f"{pend}: raised by every kernel extension, lowered by every flush, untouched otherwise",
                          required="the flag that guards the flush is true exactly when the kernel holds operations", what="the pending-kernel flag does not follow the kernel: " + "; ".join(flag_problems), detail="pending-flag")
            judged_walk = True
        # final add_kernel + return: on every way out on which the kernel may hold operations
        tail = [c for e in p.events[p.events.index(lp):] if e.kind == "effect" and e.term is not None for c in find_calls(e.term, "add_kernel")]
        may_hold = True
        if pend is not None:
            after_flag = ("after", pend, lineno)
            if subst(p.cond, {after_flag: TRUE}) == FALSE:
                may_hold = False
        okt = p.value == prog and (not may_hold and len(tail) <= 1 or len(tail) == 1) and all(c[2] == (("after", kernel_name, lineno),) for c in tail)
        rep.check(okt, "C15.O4", construct + "[final-kernel]", f.loc, found=[show(c) for c in tail], required="result_program.add_kernel(kernel) after the walk whenever the kernel may hold operations; return the program",
                  what="the collected kernel is not part of the returned program", detail="final-kernel")
    rep.floor("return paths of the OpenQL walk", n, 2)


def o7(model: Model, rep: Report):
    """Exporting twice gives the same names: nothing the exporter reads is changed by exporting."""
    from ..effects import Effects
    from ..resolve import CallGraph
    from .c03 import h2
    cg = CallGraph(model)
    K = model.cls("OpenQLCircuitFactoryManager")
    obs = [K.resolve("construct"), K.resolve("construct_uuid")]
    for f in model.all_functions():
        if f.module.relpath.replace("\\", "/").find("addon_openql") >= 0 and f.cls is None and f.name.startswith("to_openql"):
            obs.append(f)
    if any(o is None for o in obs):
        raise AnalysisError("OpenQL export entry points not found")
    h2(model, rep, cg, Effects(model, cg), obs=obs, rule="C15.O7",
       text="the same circuit always yields the same program and kernel names: the export entry points write nothing that outlives the call inside the OpenQL add-on "
            "(no session counter, name registry or memo), except the platform singleton (= C03.H2 restricted to the exporter's own state)",
       keep=lambda w: "addon_openql" in w.fn.module.relpath)


def o6(model: Model, rep: Report):
    rep.rule("C15.O6", "construct_uuid == uuid5(NAMESPACE_DNS, '_'.join(<class name of every operation of circuit.decomposed_operations(), in order>)); program / kernel names are "
                       "f'program_/kernel_{uuid[:8]}' or the given circuit_id; no uuid1/uuid4/random/time/id()/hash()/set in the slice")
    K = model.cls("OpenQLCircuitFactoryManager")
    f = K.resolve("construct_uuid")
    v = Evaluator(model, inline_methods=False).value_of(f, self_cls=K)
    circ = sym(f.param_names[-1])
    ok = v[0] == "call" and v[1] == ("attr", ("global", "uuid"), "uuid5") and len(v[2]) == 2 and v[2][0] == ("attr", ("global", "uuid"), "NAMESPACE_DNS")
    found = show(v)
    if ok:
        j = v[2][1]
        ok = j[0] == "call" and isinstance(j[1], tuple) and j[1][0] == "attr" and j[1][2] == "join" and j[1][1][0] == "const" and len(j[2]) == 1
        parts = j[2][0] if ok else None
        if ok and parts[0] == "var":
            parts = parts[3]
        ok = ok and parts[0] == "comp" and parts[1] in ("list", "gen") and len(parts[3]) == 1 and not parts[3][0][1] and parts[3][0][0] == ("call", ("attr", circ, "decomposed_operations"), (), ())
        if ok:
            elt = parts[2]
            b = subterms(elt, lambda x: x[0] == "bound")
            want_name = ("attr", ("attr", b[0], "__class__"), "__name__") if b else None
            ok = elt == ("fstr", (want_name,)) or elt == want_name or elt == ("attr", ("call", "type", (b[0],), ()), "__name__")
        if not ok and parts is not None:
            found = f"identifier parts: {show(parts)}"
    rep.check(ok, "C15.O6", "OpenQLCircuitFactoryManager.construct_uuid", f.loc, found=found, required="uuid5(NAMESPACE_DNS, '_'.join([op.__class__.__name__ for op in circuit.decomposed_operations()]))",
              what="program names do not depend only on the ordered listing (an unordered or filtered collection makes them differ between runs or collide)", detail="uuid")
    # forbidden sources of nondeterminism in both functions
    g = K.resolve("construct")
    bad = []
    for fn in (f, g):
        for n in ast.walk(fn.node):
            if isinstance(n, ast.Call):
                name = ast.unparse(n.func)
                if name in ("uuid.uuid1", "uuid.uuid4", "id", "hash", "set", "frozenset") or name.startswith(("random.", "time.", "np.random", "os.urandom", "secrets.")):
                    bad.append(f"{fn.qualname}: {norm_stmt(n)}")
            if isinstance(n, (ast.Set, ast.SetComp)):
                bad.append(f"{fn.qualname}: set expression {norm_stmt(n)}")
    rep.check(not bad, "C15.O6", "OpenQL names[no nondeterministic source]", f.loc, found=bad or "none", required="none", what="names depend on a per-run value: " + "; ".join(bad), detail="nondeterminism")
    # names
    ev = Evaluator(model, inline_methods=False)
    ps = PathEnumerator(ev).function_paths(g, self_cls=K)
    cids = {sym(x) for x in g.param_names[2:]}      # names handed in by the caller (circuit_id, and the kernel name handed down to nested sub-circuits)
    for p in [q for q in ps if q.exit == "return"]:
        progs = [e.term for e in p.events if e.kind == "assign" and e.term is not None and e.term[0] == "call" and e.term[1] == ("fn", "PlatformManager.construct_program")]
        kerns = [e.term for e in p.events if e.kind == "assign" and e.term is not None and e.term[0] == "call" and e.term[1] == ("fn", "PlatformManager.construct_kernel")]
        if len(progs) != 1 or len(kerns) != 1:
            raise AnalysisError("OpenQL construct: program / kernel construction not found")
        pn = dict(progs[0][3]).get("name")
        kn = dict(kerns[0][3]).get("name")
        def slice_ok(t: Term) -> bool:
            """Names may be built only from string literals, slices, str(), the uuid of the walked structure and the given id."""
            if t in cids or t[0] == "const" or number(t) is not None:
                return True
            if t[0] == "call" and t[1] == ("fn", "OpenQLCircuitFactoryManager.construct_uuid"):
                arg = dict(t[3]).get("circuit", t[2][0] if t[2] else None)
                return arg in (sym(g.param_names[1]), ("attr", sym(g.param_names[1]), "circuit_structure"))
            if t[0] == "fstr":
                return all(slice_ok(x) for x in t[1])
            if t[0] == "slice":
                return slice_ok(t[1]) and all(x == NONE or number(x) is not None for x in t[2:])
            if t[0] == "call" and t[1] == "str" and len(t[2]) == 1:
                return slice_ok(t[2][0])
            if t[0] == "ite":
                # a choice between two admissible names, decided by whether the caller gave one
                return slice_ok(t[2]) and slice_ok(t[3]) and all(a_[0] == "eq" and NONE in a_[1:] and (set(a_[1:]) - {NONE}) <= cids for a_ in atoms_of(t[1]))
            return False
        okn = slice_ok(pn) and slice_ok(kn)
        rep.check(okn, "C15.O6", "OpenQLCircuitFactoryManager.construct[names]", g.loc, found=f"program {show(pn)}; kernel {show(kn)}", required="derived from construct_uuid(process_circuit) or the names given by the caller",
                  what="program / kernel names are not a function of the circuit", detail="names")
