"""C12 -- index kernels tile the acquisition index range without gaps or overlap.

Every quantity is piecewise affine in (S = start index, h in {0,1}, n >= 0); the rules extract the affine normal form of
each getter in every region (h x {n = 0, n = 1, n = k + 2 with k >= 0} x {data, ancilla, foreign qubit}) and compare it with
the layout the property demands.

X1  chaining: RelativeIndexStrategy = previous stop + 1; both chain builders link kernel i+1 to kernel i and the
    calibration kernel to the last repetition kernel  =>  contiguous, non-overlapping kernels.
X2  repetition kernel: heralded = S (iff h); stabilisers = S + h + [0, n-2]; final = stop = S + h + max(0, n-1);
    ancilla has no final index for n = 0; foreign qubits get nothing  =>  inside the kernel, disjoint, covering.
X3  calibration kernel: her0 < s0 < her1 < s1 < her2 < s2 = stop, consecutive from S (h = 1); s0 < s1 < s2 (h = 0).
X4  repetitions are translates: element + i * cycle_length for i in range(repetitions); cycle length = last stop - first
    start + 1; every experiment getter hands the matching kernel getter to the slicer.
X5  estimate_experiment_repetitions divides by the same cycle length and asserts exactness.
"""
from __future__ import annotations

import ast
import itertools
from fractions import Fraction
from typing import Dict, List, Optional, Tuple

from ..model import AnalysisError, ClassInfo, FunctionInfo, Model
from ..paths import Path, PathEnumerator, find_calls
from ..report import Report
from ..sym import (FALSE, NONE, TRUE, Evaluator, Frame, Outcome, Term, Unsupported, as_lin, atoms_of, const, lin, number, show, subst, subterms,
                   sym, t_add, t_and, t_cmp, t_mul, t_not, t_or, t_scale)
from .common import call_args, is_call_of, loop_of, strip_identity_wrappers

ZERO = lin({}, Fraction(0))
ONE = lin({}, Fraction(1))
K = sym("k")          # non-negative region symbol: n = k + 2


def check(model: Model, rep: Report, tier: str):
    rep.assume("numpy broadcasting: scalar + np.asarray(range(a, b)) is the element-wise shift of the range")
    with rep.isolated():
        x1(model, rep)
    with rep.isolated():
        x2(model, rep)
    with rep.isolated():
        x3(model, rep)
    with rep.isolated():
        x9(model, rep)
    with rep.isolated():
        x4(model, rep)
    with rep.isolated():
        x5(model, rep)
    from .c03 import h5
    from ..resolve import CallGraph
    from .common import share_rule
    with rep.isolated():
        cg = CallGraph(model)
        share_rule(rep, model, lambda m, r: h5(m, r, cg), "C12.X6", "no index computation is memoised under a key that lets two kernels / strategies with different "
                   "offsets share an entry (= C03.H5, memos inside acquisition_indexing only)",
                   keep=lambda o: "acquisition_indexing" in o["loc"])
    from .common import order_kept_rule
    with rep.isolated():
        order_kept_rule(model, rep, "C12.X8", "RepetitionExperimentKernel", "_repetition_kernels",
                        "the stored kernel list is the chain in construction order: start_index / kernel_cycle_length read indexing_kernels[0] as the kernel fixed at index 0 and "
                        "[-1] as the last of the chain -- no method re-orders the list after the chain is built (X1 decides the chain itself)",
                        "the first / last kernel of the stored list is no longer the first / last of the offset chain: the cycle does not start at 0 and its length is wrong")
    from .c19 import _i3
    with rep.isolated():
        share_rule(rep, model, _i3, "C12.X7", "a kernel decides whether a qubit is involved by `element in involved_qubit_ids`, i.e. by equality of qubit identifiers: that equality is "
                   "equality of the names, whatever objects carry them (= C19.I3) -- an identity test answers 'not involved' for an equal identifier created elsewhere and every "
                   "index getter returns empty rows")


# ---------------------------------------------------------------------------------------------
def resolve_max(t: Term, nonneg=(K,)) -> Term:
    """Resolve max/min of affine arguments whose difference has a sign for all non-negative region symbols."""
    if not isinstance(t, tuple) or not t:
        return t
    if t[0] in ("max", "min"):
        args = [resolve_max(a, nonneg) for a in t[1]]
        best = args[0]
        for a in args[1:]:
            d = t_add(a, best, -1)
            coeffs, k = as_lin(d)
            if all(x in nonneg for x in coeffs):
                ge = all(c >= 0 for c in coeffs.values()) and k >= 0
                le = all(c <= 0 for c in coeffs.values()) and k <= 0
                if (t[0] == "max" and ge) or (t[0] == "min" and le):
                    best = a
                    continue
                if (t[0] == "max" and le) or (t[0] == "min" and ge):
                    continue
            return (t[0], tuple(sorted(args, key=repr)))
        return best
    if t[0] == "lin":
        out: Term = lin({}, t[2])
        for a, c in t[1]:
            out = t_add(out, t_scale(resolve_max(a, nonneg), c))
        return out
    if t[0] in ("eq", "cmp"):
        d = resolve_max(t[1] if t[0] == "eq" else t[2], nonneg)
        rhs = t[2] if t[0] == "eq" else ZERO
        if t[0] == "eq" and number(rhs) is not None:
            d = t_add(d, rhs, -1)
        elif t[0] == "eq":
            return ("eq", d, resolve_max(rhs, nonneg))
        coeffs, k = as_lin(d)
        if all(x in nonneg for x in coeffs):
            pos = all(c >= 0 for c in coeffs.values()) and k > 0       # d > 0 everywhere
            nonn = all(c >= 0 for c in coeffs.values()) and k >= 0     # d >= 0 everywhere
            neg = all(c <= 0 for c in coeffs.values()) and k < 0
            nonp = all(c <= 0 for c in coeffs.values()) and k <= 0
            if t[0] == "eq" and (pos or neg):
                return FALSE
            if t[0] == "cmp" and t[1] == ">":
                if pos:
                    return TRUE
                if nonp:
                    return FALSE
            if t[0] == "cmp" and t[1] == ">=":
                if nonn:
                    return TRUE
                if neg:
                    return FALSE
        return t
    if t[0] == "ite":
        from ..sym import t_ite
        return t_ite(resolve_max(t[1], nonneg), resolve_max(t[2], nonneg), resolve_max(t[3], nonneg))
    if t[0] == "not":
        return t_not(resolve_max(t[1], nonneg))
    if t[0] == "and":
        return t_and(*[resolve_max(x, nonneg) for x in t[1]])
    if t[0] == "or":
        return t_or(*[resolve_max(x, nonneg) for x in t[1]])
    return tuple(resolve_max(x, nonneg) if isinstance(x, tuple) else x for x in t)


def interval(t: Term) -> Optional[Tuple[Term, Term]]:
    """[lo, hi) of a list-of-indices term:  [] ; [x] ; list(scalar + np.asarray(range(a, b)))."""
    if t[0] == "list":
        if not t[1]:
            return (ZERO, ZERO)
        if len(t[1]) == 1:
            return (t[1][0], t_add(t[1][0], ONE))
        return None
    if t[0] == "call" and t[1] in ("list", "sorted") and len(t[2]) == 1:
        return interval(t[2][0])
    if t[0] == "call" and t[1] == "range":
        if len(t[2]) == 1:
            return (ZERO, t[2][0])
        if len(t[2]) == 2:
            return (t[2][0], t[2][1])
        return None
    if t[0] == "call" and isinstance(t[1], tuple) and t[1][0] == "attr" and t[1][2] in ("asarray", "array", "arange") and t[2]:
        if t[1][2] == "arange":
            a = t[2]
            return (ZERO, a[0]) if len(a) == 1 else (a[0], a[1]) if len(a) == 2 else None
        return interval(t[2][0])
    if t[0] == "comp" and len(t) == 4 and t[1] == "list" and len(t[3]) == 1 and not t[3][0][1]:
        # [c + x for x in <index range>]: the range shifted by c
        dom_iv = interval(t[3][0][0])
        bnd = subterms(t[2], lambda x: x[0] == "bound")
        if dom_iv is not None and len(set(bnd)) == 1:
            coeffs, _k = as_lin(t[2])
            if coeffs.get(bnd[0]) == 1:
                rest = t_add(t[2], bnd[0], -1)
                if not subterms(rest, lambda x: x[0] == "bound"):
                    return (t_add(rest, dom_iv[0]), t_add(rest, dom_iv[1]))
        return None
    if t[0] == "lin":
        arrs = [(a, c) for a, c in t[1] if interval(a) is not None and a[0] == "call"]
        if len(arrs) == 1 and arrs[0][1] == 1:
            rest = t_add(t, arrs[0][0], -1)
            lo, hi = interval(arrs[0][0])
            return (t_add(rest, lo), t_add(rest, hi))
    return None


def norm_interval(iv: Optional[Tuple[Term, Term]]) -> Optional[Tuple[Term, Term]]:
    """Canonical empty interval; resolves max()."""
    if iv is None:
        return None
    lo, hi = resolve_max(iv[0]), resolve_max(iv[1])
    d = t_add(hi, lo, -1)
    coeffs, k = as_lin(d)
    if all(x == K for x in coeffs) and all(c <= 0 for c in coeffs.values()) and k <= 0:
        return (ZERO, ZERO)
    return (lo, hi)


def show_iv(iv) -> str:
    if iv is None:
        return "<not an index interval>"
    if iv[0] == iv[1] or iv == (ZERO, ZERO):
        return "[]"
    return f"[{show(iv[0])} .. {show(t_add(iv[1], ONE, -1))}]"


class KernelCase:
    """Evaluate getters of a kernel class in one region."""

    def __init__(self, model: Model, cls: ClassInfo, h: bool, n: Optional[Term], kind: str, data_field: Optional[str], anc_field: Optional[str], all_field: Optional[str]):
        self.model, self.cls, self.h, self.n, self.kind = model, cls, h, n, kind
        self.ev = Evaluator(model, opaque={f"{cls.name}.start_index"})
        self.s = sym("self")
        self.ev.set_type(self.s, cls)
        self.S = ("attr", self.s, "start_index")
        self.elem = sym("element")
        mp: Dict[Term, Term] = {("attr", self.s, "heralded_initialization"): const(h)}
        if n is not None:
            mp[("attr", self.s, "nr_repeated_parities")] = n
        is_data, is_anc = kind == "data", kind == "ancilla"
        if data_field and anc_field:
            D, A = ("attr", self.s, data_field), ("attr", self.s, anc_field)
            mp[("in", self.elem, D)] = const(is_data)
            mp[("in", self.elem, A)] = const(is_anc)
            mp[("in", self.elem, t_add(D, A))] = const(is_data or is_anc)
        if all_field:
            mp[("in", self.elem, ("attr", self.s, all_field))] = const(kind != "foreign")
        self.mp = mp

    def value(self, name: str, with_element: bool = True) -> Term:
        f = self.cls.resolve(name)
        if f is None:
            raise AnalysisError(f"{self.cls.name}.{name} not found")
        args = {}
        if with_element and f.kind == "method":
            ps = [p for p in f.param_names if p != f.self_name]
            if ps:
                args[ps[0]] = self.elem
        fills_local = any(isinstance(n_, ast.Call) and isinstance(n_.func, ast.Attribute) and n_.func.attr in ("append", "extend") and isinstance(n_.func.value, ast.Name)
                          and n_.func.value.id != f.self_name for n_ in ast.walk(f.node))
        if f.kind == "property":
            v = self.ev.attr(self.s, name, Frame(f, f.module, {}, self.cls, 0))
        elif fills_local:
            # the answer is collected in a local list (``result = []; if ..: result.append(x); return result``): read path by path, each path's list as the display it holds
            from ..listflow import concrete_list
            from ..sym import t_ite
            ps = [p_ for p_ in PathEnumerator(Evaluator(self.model, opaque={f"{self.cls.name}.start_index"})).function_paths(f, self_cls=self.cls, args=dict(args)) if p_.exit == "return"]
            v = None
            for p_ in reversed(ps):
                pv = p_.value
                if pv is not None and pv[0] == "var":
                    items = concrete_list(p_, pv)
                    if items is None:
                        raise AnalysisError(f"{self.cls.name}.{name}: the collected list is not read on a path")
                    pv = ("list", tuple(items))
                v = pv if v is None else t_ite(p_.cond, pv, v)
            if v is None:
                raise AnalysisError(f"{self.cls.name}.{name}: no return path")
        else:
            v = self.ev.value_of(f, args=args, self_term=self.s, self_cls=self.cls)
        v = subst(v, self.mp)
        # second pass: conditions such as n == 1 fold after n was substituted
        v = subst(v, {})
        return resolve_max(v)


def x2(model: Model, rep: Report):
    rep.rule("C12.X2", "RepetitionIndexKernel, in every region (h, n in {0, 1, k+2}, qubit kind): stop = S + h + max(0, n-1); heralded = [S] iff h and the "
                       "qubit is involved; stabilisers = S + h + [0 .. n-2] for ancilla qubits; final = [stop], absent for an ancilla when n = 0; nothing for "
                       "foreign qubits  (=> inside [start, stop], pairwise disjoint and strictly ordered, covering the kernel for an ancilla except the "
                       "documented 0-round slot)")
    C = model.cls("RepetitionIndexKernel")
    n_cases = 0
    regions = [("n=0", ZERO), ("n=1", ONE), ("n=k+2", t_add(K, lin({}, Fraction(2))))]
    for h in (True, False):
        hh = lin({}, Fraction(1 if h else 0))
        for rname, n in regions:
            for kind in ("data", "ancilla", "foreign"):
                kc = KernelCase(model, C, h, n, kind, "involved_data_qubit_ids", "involved_ancilla_qubit_ids", None)
                S = kc.S
                n_minus_1 = resolve_max(("max", (ZERO, t_add(n, ONE, -1))))
                stop_want = t_add(t_add(S, hh), n_minus_1)
                case = f"h={int(h)}, {rname}, {kind} qubit"
                loc = C.resolve("stop_index").loc
                if kind == "data":
                    stop = kc.value("stop_index")
                    n_cases += 1
                    rep.check(stop == stop_want, "C12.X2", f"RepetitionIndexKernel.stop_index[h={int(h)}, {rname}]", loc, found=show(stop), required=show(stop_want),
                              what="the kernel's last index is not start + heralded + max(0, n-1)", detail=f"stop:{int(h)}:{rname}")
                    kl = kc.value("kernel_length")
                    rep.check(kl == t_add(t_add(stop_want, S, -1), ONE), "C12.X2", f"RepetitionIndexKernel.kernel_length[h={int(h)}, {rname}]", C.loc, found=show(kl),
                              required=show(t_add(t_add(stop_want, S, -1), ONE)), what="kernel length is not stop - start + 1", detail=f"length:{int(h)}:{rname}")
                involved = kind != "foreign"
                want_her = (S, t_add(S, ONE)) if (h and involved) else (ZERO, ZERO)
                if kind == "ancilla" and rname == "n=k+2":
                    lo = t_add(S, hh)
                    want_stab = (lo, t_add(t_add(lo, n), ONE, -1))
                else:
                    want_stab = (ZERO, ZERO)
                if not involved or (kind == "ancilla" and rname == "n=0"):
                    want_fin = (ZERO, ZERO)
                else:
                    want_fin = (stop_want, t_add(stop_want, ONE))
                for getter, want, label in (("get_heralded_measurement_index", want_her, "heralded"),
                                            ("get_ordered_stabilizer_measurement_indices", want_stab, "stabiliser"),
                                            ("get_final_measurement_index", want_fin, "final")):
                    f = C.resolve(getter)
                    v = kc.value(getter)
                    iv = norm_interval(interval(v))
                    n_cases += 1
                    rep.check(iv == want, "C12.X2", f"RepetitionIndexKernel.{getter}[{case}]", f.loc, found=show_iv(iv) if iv is not None else show(v), required=show_iv(want),
                              what=f"{label} indices of a {kind} qubit leave their slot of the kernel layout (gap, overlap, or outside [start, stop])", detail=f"{label}:{case}")
    rep.analysed["C12.X2 region cases"] = n_cases
    # contains = union of the three categories
    f = C.resolve("contains")
    ev = Evaluator(model, inline_methods=False)
    v = ev.value_of(f, self_cls=C)
    s, e = sym(f.self_name), sym([p for p in f.param_names if p != f.self_name][0])
    want_parts = sorted(("get_heralded_measurement_index", "get_ordered_stabilizer_measurement_indices", "get_final_measurement_index"))

    def pieces(t):
        """the list-valued pieces a concatenation is made of: a + b + c, chain / flat-map over a display of (bound) getters, nested comprehension over such a display"""
        from .common import devar
        t = devar(t)
        if t[0] == "concat":
            return [y for x in t[1] for y in pieces(x)]
        if t[0] == "lin" and all(c == 1 for _, c in t[1]) and t[2] == 0 and t[1]:
            return [y for a, _ in t[1] for y in pieces(a)]
        if t[0] == "comp" and len(t[3]) == 2 and not t[3][0][1] and not t[3][1][1] and devar(t[3][0][0])[0] in ("tuple", "list") and t[2][0] == "bound":
            outer_items = devar(t[3][0][0])[1]
            ob = [y for y in subterms(t[3][1][0], lambda y: y[0] == "bound" and y != t[2])]
            if len(ob) == 1 and t[2][3] == show(t[3][1][0]):
                return [y for it in outer_items for y in pieces(subst(t[3][1][0], {ob[0]: it}))]
        if t[0] == "call" and t[1] in (("attr", ("global", "chain"), "from_iterable"), ("attr", ("attr", ("global", "itertools"), "chain"), "from_iterable")) and len(t[2]) == 1:
            inner = devar(t[2][0])
            if inner[0] in ("tuple", "list"):
                return [y for x in inner[1] for y in pieces(x)]
            if inner[0] == "comp" and len(inner[3]) == 1 and not inner[3][0][1] and devar(inner[3][0][0])[0] in ("tuple", "list"):
                bs = subterms(inner[2], lambda y: y[0] == "bound")
                return [y for it in devar(inner[3][0][0])[1] for y in pieces(subst(inner[2], {b_: it for b_ in bs}))]
        if t[0] == "call" and t[1] in (("global", "chain"), ("attr", ("global", "itertools"), "chain")):
            return [y for x in t[2] for y in pieces(x)]
        return [t]

    def getter_of(t):
        if t[0] == "call" and isinstance(t[1], tuple) and t[1][0] == "attr" and t[1][1] == s and (list(t[2]) + [x for _, x in t[3]]) == [e]:
            return t[1][2]
        return "?" + show(t)[:40]
    ok = v[0] == "call" and v[1] == "sorted" and len(v[2]) == 1 and sorted(getter_of(x) for x in pieces(v[2][0])) == want_parts
    rep.check(ok, "C12.X2", "RepetitionIndexKernel.contains", f.loc, found=show(v), required="sorted(heralded + stabiliser + final)", what="contains() is not the union of the categories", detail="contains")


def x3(model: Model, rep: Report):
    rep.rule("C12.X3", "QutritCalibrationIndexKernel: stop = S + 3h + 2; with h = 1 the six indices are S, S+1, ..., S+5 in the order heralded0, state0, "
                       "heralded1, state1, heralded2, state2 (= stop); with h = 0 the three state indices are S, S+1, S+2 (= stop) and no heralded index; "
                       "foreign qubits get nothing")
    C = model.cls("QutritCalibrationIndexKernel")
    order_h1 = ["get_heralded_state_0_measurement_index", "get_state_0_measurement_index", "get_heralded_state_1_measurement_index",
                "get_state_1_measurement_index", "get_heralded_state_2_measurement_index", "get_state_2_measurement_index"]
    order_h0 = ["get_state_0_measurement_index", "get_state_1_measurement_index", "get_state_2_measurement_index"]
    n = 0
    # further bool switches of the kernel (dataclass fields with a constant bool default, other than heralded_initialization): the layout is decided for their
    # defaults; for every other setting the kernel still has to contain all its categories (below)
    switches = {nm: fld.default.value for nm, fld in C.all_fields().items() if nm != "heralded_initialization" and isinstance(fld.default, ast.Constant)
                and isinstance(fld.default.value, bool)}
    for h in (True, False):
        for kind in ("involved", "foreign"):
            kc = KernelCase(model, C, h, None, "data" if kind == "involved" else "foreign", None, None, "involved_qubit_ids")
            for nm, dv in switches.items():
                kc.mp[("attr", kc.s, nm)] = const(dv)
            S = kc.S
            order = order_h1 if h else order_h0
            if kind == "involved":
                stop = kc.value("stop_index")
                want = t_add(S, lin({}, Fraction(5 if h else 2)))
                if number(t_add(stop, S, -1)) is None:
                    # the stop is not `start + a number` (it depends on fields this rule does not fix, e.g. an inherited repetitions / f_state): not read, not wrong
                    raise AnalysisError(f"QutritCalibrationIndexKernel.stop_index[h={int(h)}]: {show(stop)[:140]} is not the start plus a number; not read")
                rep.check(stop == want, "C12.X3", f"QutritCalibrationIndexKernel.stop_index[h={int(h)}]", C.resolve("stop_index").loc, found=show(stop), required=show(want),
                          what="calibration kernel length is not 3h + 3", detail=f"stop:{int(h)}")
            for g in order_h1:
                f = C.resolve(g)
                v = kc.value(g)
                iv = norm_interval(interval(v))
                if iv is None and (v[0] == "slice" or any(x[0] == "slice" for x in subterms(v, lambda x_: x_[0] == "slice"))):
                    raise AnalysisError(f"QutritCalibrationIndexKernel.{g}[h={int(h)}, {kind} qubit]: the answer is a strided slice of an index range ({show(v)[:120]}); not read by this rule")
                if kind == "foreign" or g not in order:
                    want_iv = (ZERO, ZERO)
                else:
                    pos = lin({}, Fraction(order.index(g)))
                    want_iv = (t_add(S, pos), t_add(t_add(S, pos), ONE))
                n += 1
                rep.check(iv == want_iv, "C12.X3", f"QutritCalibrationIndexKernel.{g}[h={int(h)}, {kind} qubit]", f.loc, found=show_iv(iv) if iv is not None else show(v), required=show_iv(want_iv),
                          what="calibration indices are not consecutive in the order heralded/state 0, 1, 2 (overlap with another slot or outside the kernel)", detail=f"{g}:{int(h)}:{kind}")
    rep.analysed["C12.X3 cases"] = n
    for setting in itertools.product(*[[(nm, True), (nm, False)] for nm in sorted(switches)]):
        if not switches or all(switches[nm] == v for nm, v in setting):
            continue
        tag = ", ".join(f"{nm}={v}" for nm, v in setting)
        for h in (True, False):
            kc = KernelCase(model, C, h, None, "data", None, None, "involved_qubit_ids")
            for nm, v in setting:
                kc.mp[("attr", kc.s, nm)] = const(v)
            length = number(t_add(t_add(kc.value("stop_index"), ONE), kc.S, -1))
            if length is None:
                raise AnalysisError(f"QutritCalibrationIndexKernel.stop_index[h={int(h)}, {tag}] is not the start plus a number; not read")
            for g in order_h1:
                f = C.resolve(g)
                v = kc.value(g)
                iv = norm_interval(interval(v))
                if iv is None:
                    raise AnalysisError(f"QutritCalibrationIndexKernel.{g}[h={int(h)}, {tag}]: {show(v)[:120]} is not an index interval; not read")
                if iv == (ZERO, ZERO):
                    continue
                lo, hi = number(t_add(iv[0], kc.S, -1)), number(t_add(iv[1], kc.S, -1))
                if lo is None or hi is None:
                    raise AnalysisError(f"QutritCalibrationIndexKernel.{g}[h={int(h)}, {tag}]: {show_iv(iv)} is not relative to the start; not read")
                rep.check(0 <= lo and hi <= length, "C12.X3", f"QutritCalibrationIndexKernel.{g}[h={int(h)}, {tag}]", f.loc, found=f"{show_iv(iv)} with stop = {show(kc.value('stop_index'))}",
                          required="inside [start, stop]", what=f"with {tag} the kernel ends at its stop index but this category still reports an index beyond it: the index lies outside its "
                          "kernel (inside the next experiment repetition)", detail=f"inside:{g}:{int(h)}:{tag}")


class _NotConcreteTerm(Exception):
    pass


def _conc(t: Term, env: Dict[Term, int]):
    """Concrete value of an index term for given start / repetitions: ints, lists of ints and nested lists (arrays); numpy through the few index maps used for grids."""
    if t in env:
        return env[t]
    n_ = number(t)
    if n_ is not None and n_.denominator == 1:
        return int(n_)
    k = t[0]
    if k == "lin":
        tot = t[2]
        for a, c in t[1]:
            v = _conc(a, env)
            if not isinstance(v, int):
                raise _NotConcreteTerm(show(a))
            tot += c * v
        if tot.denominator != 1:
            raise _NotConcreteTerm(show(t))
        return int(tot)
    if k == "mono":
        out = 1
        for x in t[1]:
            out *= _conc(x, env)
        return out
    if k == "list" or k == "tuple":
        return [_conc(x, env) for x in t[1]]
    if k == "const" and t[1] is None:
        return None
    if k == "slice" and len(t) == 5:
        base = _conc(t[1], env)
        lo, hi, st = (_conc(x, env) for x in t[2:5])
        if not isinstance(base, list):
            raise _NotConcreteTerm(show(t))
        return base[slice(lo, hi, st)]
    if k in ("sub", "item"):
        base, i = _conc(t[1], env), (t[2] if isinstance(t[2], int) else _conc(t[2], env))
        if isinstance(base, list) and isinstance(i, int) and -len(base) <= i < len(base):
            return base[i]
        raise _NotConcreteTerm(show(t))
    if k == "attr" and t[2] == "T":
        base = _conc(t[1], env)
        if isinstance(base, list) and base and all(isinstance(r_, list) and len(r_) == len(base[0]) for r_ in base):
            return [list(r_) for r_ in zip(*base)]
        raise _NotConcreteTerm(show(t))
    if k == "call" and not t[3]:
        fn, args = t[1], t[2]
        if fn in ("list", "sorted", "tuple") and len(args) == 1:
            v = _conc(args[0], env)
            if isinstance(v, list):
                return sorted(v) if fn == "sorted" else list(v)
        if fn == "range" and 1 <= len(args) <= 3:
            return list(range(*[_conc(a, env) for a in args]))
        if isinstance(fn, tuple) and fn[0] == "attr":
            recv, name = fn[1], fn[2]
            if recv[0] == "global" and recv[1] in ("np", "numpy"):
                if name == "arange" and 1 <= len(args) <= 3:
                    return list(range(*[_conc(a, env) for a in args]))
                if name in ("asarray", "array") and len(args) == 1:
                    return _conc(args[0], env)
                raise _NotConcreteTerm(f"np.{name}")
            base = _conc(recv, env)
            if name in ("tolist", "copy") and not args:
                return base
            if name == "flatten" and not args and isinstance(base, list):
                return [x for r_ in base for x in (r_ if isinstance(r_, list) else [r_])]
            if name == "transpose" and not args:
                return _conc(("attr", recv, "T"), env)
            if name == "reshape" and isinstance(base, list) and all(isinstance(x, int) for x in base):
                dims = [_conc(a, env) for a in (args[0][1] if len(args) == 1 and args[0][0] in ("tuple", "list") else args)]
                if len(dims) == 2 and all(isinstance(d_, int) for d_ in dims):
                    r_, c_ = dims
                    if r_ == -1 and c_ > 0:
                        r_ = len(base) // c_
                    if c_ == -1 and r_ > 0:
                        c_ = len(base) // r_
                    if r_ * c_ == len(base):
                        return [base[i * c_:(i + 1) * c_] for i in range(r_)]
                raise _NotConcreteTerm(show(t))
    raise _NotConcreteTerm(show(t)[:80])


def x9(model: Model, rep: Report):
    rep.rule("C12.X9", "GeneralCalibrationIndexKernel, all four settings (heralded h, f-state f): every contained state (2 + f of them) takes 1 + h acquisitions per repetition, so "
                       "cycle_length = (1 + h)(2 + f) and stop = S + cycle_length * repetitions - 1; each category (heralded / calibration, per contained state) is the strided slice "
                       "all_indices[o::cycle_length] with offsets o pairwise distinct and below cycle_length (inside the kernel, disjoint, and together every slot of the cycle); "
                       "states that are not contained and heralded categories without heralded initialisation are empty")
    C = model.maybe_cls("GeneralCalibrationIndexKernel")
    if C is None:
        raise AnalysisError("GeneralCalibrationIndexKernel not found")
    getters = ["get_heralded_state_measurement_index", "get_calibration_state_measurement_index"]
    n_cases = 0
    for h in (True, False):
        for fs in (True, False):
            ev = Evaluator(model, opaque={f"{C.name}.start_index"})
            s = sym("self")
            ev.set_type(s, C)
            S, R = ("attr", s, "start_index"), ("attr", s, "repetitions")
            mp = {("attr", s, "heralded_initialization"): const(h), ("attr", s, "f_state"): const(fs)}

            def prop(name):
                f = C.resolve(name)
                if f is None:
                    raise AnalysisError(f"{C.name}.{name} not found")
                v = ev.attr(s, name, Frame(f, f.module, {}, C, 0)) if f.kind == "property" else ev.value_of(f, args={}, self_term=s, self_cls=C)
                return f, subst(subst(v, mp), {})
            tag = f"h={int(h)}, f={int(fs)}"
            want_n = (1 + int(h)) * (2 + int(fs))
            cf, cyc = prop("cycle_length")
            ncyc = number(cyc)
            if ncyc is None:
                raise AnalysisError(f"GeneralCalibrationIndexKernel.cycle_length[{tag}]: {show(cyc)[:120]} does not reduce to a number; not read")
            rep.check(ncyc is not None and ncyc == want_n, "C12.X9", f"GeneralCalibrationIndexKernel.cycle_length[{tag}]", cf.loc, found=show(cyc), required=str(want_n),
                      what="the cycle length is not (1 + heralded) acquisitions for each contained state: the kernel ends early / late, the kernel chained behind it overlaps "
                           "it or leaves a gap, and the last categories fall outside the cycle", detail=f"cycle:{int(h)}:{int(fs)}")
            sf, stop = prop("stop_index")
            want_stop = t_add(t_add(S, t_mul(lin({}, Fraction(want_n)), R)), ONE, -1)
            rep.check(stop == want_stop, "C12.X9", f"GeneralCalibrationIndexKernel.stop_index[{tag}]", sf.loc, found=show(stop), required=show(want_stop),
                      what="the kernel does not span cycle_length * repetitions indices from its start", detail=f"stop:{int(h)}:{int(fs)}")
            stf, states = prop("contained_states")
            want_states = [("enum", "StateKey", f"STATE_{k}") for k in range(2 + int(fs))]
            if states[0] != "list" or not all(x[0] == "enum" for x in states[1]):
                raise AnalysisError(f"GeneralCalibrationIndexKernel.contained_states[{tag}]: {show(states)[:140]} is not a list of state keys once the flags are fixed; not read")
            rep.check(states[0] == "list" and list(states[1]) == want_states, "C12.X9", f"GeneralCalibrationIndexKernel.contained_states[{tag}]", stf.loc,
                      found=show(states), required="[" + ", ".join(show(x) for x in want_states) + "]", what="contained states are not |0>, |1> (and |2> with the f-state)",
                      detail=f"states:{int(h)}:{int(fs)}")
            keys = list(ev.enum_members("StateKey") or [])
            if not keys:
                raise AnalysisError("StateKey members not read")
            offsets: Dict[Tuple[str, str], int] = {}
            # slot of each category in the cycle: heralded_k, calibration_k for k = 0, 1, (2) in this order (without heralding: calibration_k at k)
            offsets_want = {(g_, f"STATE_{k_}"): ((2 * k_ + (0 if g_ == getters[0] else 1)) if h else k_) for g_ in getters for k_ in range(3)}
            all_want = ("call", "list", (("call", "range", (S, t_add(want_stop, ONE)), ()),), ())
            for g in getters:
                f = C.resolve(g)
                if f is None:
                    raise AnalysisError(f"{C.name}.{g} not found")
                ps = [p_ for p_ in f.param_names if p_ != f.self_name]
                if len(ps) != 1:
                    raise AnalysisError(f"{C.name}.{g}: expected one state parameter")
                for kname in keys:
                    st = ("enum", "StateKey", kname)
                    v = subst(subst(ev.value_of(f, args={ps[0]: st}, self_term=s, self_cls=C), mp), {})
                    contained = st in want_states and (h or g != "get_heralded_state_measurement_index")
                    n_cases += 1
                    where = f"GeneralCalibrationIndexKernel.{g}[{tag}, {kname}]"
                    if not contained:
                        rep.check(v == ("list", ()), "C12.X9", where, f.loc, found=show(v), required="[]", what="a category that does not exist in this setting is not empty: "
                                  "its indices belong to another category or lie outside the kernel", detail=f"{g}:{int(h)}:{int(fs)}:{kname}")
                        continue
                    if v[0] not in ("slice", "list"):
                        # not a strided slice: decided by evaluating the answer for start 0 / 7 and 1..3 repetitions (bounded; the index maps of arange / reshape / T are
                        # periodic in the repetition count)
                        bad_at, o_, slot_ = None, None, None
                        try:
                            for S0 in (0, 7):
                                for R0 in (1, 2, 3):
                                    got = _conc(v, {S: S0, R: R0})
                                    if R0 == 1:
                                        # the slot is read off the single-repetition answer (any slot below the cycle length; distinctness is checked below)
                                        o_ = got[0] - S0 if isinstance(got, list) and len(got) == 1 and isinstance(got[0], int) and 0 <= got[0] - S0 < want_n else None
                                        slot_ = o_ if S0 == 0 else slot_
                                    if o_ is None or o_ != slot_ or got != [S0 + o_ + j_ * want_n for j_ in range(R0)]:
                                        o_ = slot_ if o_ is None else o_
                                        o_ = offsets_want[(g, kname)] if o_ is None else o_
                                        bad_at = bad_at or f"start={S0}, repetitions={R0}: {got} (slot {o_} of every cycle: {[S0 + o_ + j_ * want_n for j_ in range(R0)]})"
                        except _NotConcreteTerm as e_:
                            raise AnalysisError(f"{where}: answer {show(v)[:120]} is not a strided slice of the kernel's index range and not evaluated ({e_}); not read")
                        rep.assume("a calibration category that is not written as a strided slice is decided for 1..3 repetitions only (concrete evaluation of the index expression)")
                        rep.check(bad_at is None, "C12.X9", where, f.loc, found=bad_at or "slot of every cycle for 1..3 repetitions", required=f"list(range(start, stop + 1))[o::{want_n}] with 0 <= o < {want_n}",
                                  what="the category is not the same slot of every cycle: repetitions are not translates by the cycle length / the heralded-then-calibration order is lost",
                                  detail=f"{g}:{int(h)}:{int(fs)}:{kname}")
                        if bad_at is None:
                            offsets[(g, kname)] = slot_
                        continue
                    off = number(v[2]) if v[0] == "slice" and len(v) == 5 else None
                    ok = off is not None and v[1] == all_want and v[3] == NONE and number(v[4]) == want_n and off.denominator == 1 and 0 <= off < want_n
                    rep.check(ok, "C12.X9", where, f.loc, found=show(v), required=f"list(range(start, stop + 1))[o::{want_n}] with 0 <= o < {want_n}",
                              what="the category is not one slot of every cycle inside the kernel: it is empty for a contained state, reaches into the next repetition or "
                                   "leaves the kernel", detail=f"{g}:{int(h)}:{int(fs)}:{kname}")
                    if ok:
                        offsets[(g, kname)] = int(off)
            by_off: Dict[int, List[str]] = {}
            for (g, kname), o in offsets.items():
                by_off.setdefault(o, []).append(f"{g}({kname})")
            clash = {o: xs for o, xs in by_off.items() if len(xs) > 1}
            rep.check(not clash, "C12.X9", f"GeneralCalibrationIndexKernel[categories disjoint, {tag}]", C.loc,
                      found="; ".join(f"slot {o}: {', '.join(xs)}" for o, xs in sorted(clash.items())) or f"{len(offsets)} categories on distinct slots",
                      required="every category on its own slot of the cycle", what="two categories of the calibration kernel share acquisition indices",
                      detail=f"disjoint:{int(h)}:{int(fs)}")
    rep.analysed["C12.X9 getter cases"] = n_cases
    rep.floor("GeneralCalibrationIndexKernel getter cases", n_cases, 24)


# ---------------------------------------------------------------------------------------------
def _chain_builder(model: Model, rep: Report, f: FunctionInfo, self_cls: Optional[ClassInfo], rounds: Term, her: Term, construct: str, list_is_attr: bool):
    ev = Evaluator(model, inline_methods=False)
    ps = PathEnumerator(ev).function_paths(f, self_cls=self_cls)
    n = 0
    for p in [q for q in ps if q.exit in ("return", "fall")]:
        loops = [e for e in p.events if e.kind == "loop"]
        if not loops:
            raise AnalysisError(f"{construct}: no kernel loop")
        lp = loops[0]
        n += 1
        rep.check(lp.term == rounds, "C12.X1", construct + "[domain]", f.loc, found=show(lp.term), required=show(rounds), what="not every round count gets a kernel, in order", detail="domain")
        elem = ("bound", "for", lp.node.lineno, show(lp.term))
        bad = []
        seen_fixed = seen_rel = False
        for bp in lp.extra["paths"]:
            apps = [c for e in bp.events if e.kind == "effect" for c in find_calls(e.term, "append")]
            if len(apps) != 1:
                bad.append(f"{len(apps)} appends on path [{show(bp.cond)}]")
                continue
            lst = apps[0][1][1]
            k = apps[0][2][0] if apps[0][2] else None
            if k is None or k[0] != "new" or k[1] != "RepetitionIndexKernel":
                bad.append(f"appends {show(k) if k else None}")
                continue
            d = dict(k[2])
            if d.get("nr_repeated_parities") != elem:
                bad.append(f"kernel built for {show(d.get('nr_repeated_parities'))} rounds instead of the loop's round count")
            if d.get("heralded_initialization") != her:
                bad.append("kernel ignores the heralded setting")
            st = d.get("index_offset_strategy")
            last = ("sub", lst, lin({}, Fraction(-1)))
            if st is not None and st[0] == "new" and st[1] == "FixedIndexStrategy":
                seen_fixed = True
                idx = dict(st[2]).get("index", ZERO)
                if number(idx) != 0:
                    bad.append(f"first kernel starts at {show(idx)}")
                if bp.cond != t_not(lst) and bp.cond != t_cmp("==", ("call", "len", (lst,), ()), ZERO):
                    bad.append(f"a fixed start is used when [{show(bp.cond)}] (not only for the first kernel)")
            elif st is not None and st[0] == "new" and st[1] == "RelativeIndexStrategy":
                seen_rel = True
                if dict(st[2]).get("reference_index_kernel") != last:
                    bad.append(f"kernel chained to {show(dict(st[2]).get('reference_index_kernel'))} instead of the previous kernel")
            elif st is not None and st[0] == "ite" and st[2][0] == "new" and st[3][0] == "new":
                # 'previous kernel' form: a carried reference that starts as None and is re-bound to every new kernel
                c_, a_, b_ = st[1], st[2], st[3]
                if c_[0] == "not":
                    c_, a_, b_ = c_[1], b_, a_
                prev = c_[2] if (c_[0] == "eq" and c_[1] == NONE) else (c_[1] if (c_[0] == "eq" and c_[2] == NONE) else None)
                okc = prev is not None and prev[0] == "loopvar" and prev[2] == lp.node.lineno and lp.extra["init_env"].get(prev[1]) == NONE \
                    and a_[1] == "FixedIndexStrategy" and number(dict(a_[2]).get("index", ZERO)) == 0 \
                    and b_[1] == "RelativeIndexStrategy" and dict(b_[2]).get("reference_index_kernel") == prev
                nxt = bp.env.get(prev[1]) if okc else None
                kk = apps[0][2][0]
                if okc and nxt is not None and (nxt == kk or (nxt[0] == "var" and kk[0] == "var" and nxt[1:3] == kk[1:3])):
                    seen_fixed = seen_rel = True
                else:
                    bad.append(f"offset strategy {show(st)[:140]} is not 'fixed at 0 for the first kernel, relative to the previous kernel afterwards'")
            elif st is not None and st[0] == "loopvar" and st[2] == lp.node.lineno and st[1] in lp.extra["init_env"]:
                # carried form: the strategy starts fixed at 0 and, after every kernel, is re-bound to 'relative to that kernel'
                init_st = lp.extra["init_env"][st[1]]
                nxt = bp.env.get(st[1])
                kk = apps[0][2][0]
                if init_st[0] == "new" and init_st[1] == "FixedIndexStrategy" and number(dict(init_st[2]).get("index", ZERO)) == 0:
                    seen_fixed = True
                else:
                    bad.append(f"first kernel starts from {show(init_st)}")
                if nxt is not None and nxt[0] == "new" and nxt[1] == "RelativeIndexStrategy" and dict(nxt[2]).get("reference_index_kernel") == kk:
                    seen_rel = True
                else:
                    bad.append(f"after a kernel the carried strategy becomes {show(nxt) if nxt else None} instead of 'relative to the kernel just appended'")
            else:
                bad.append(f"offset strategy {show(st) if st else None}")
        rep.check(not bad and seen_fixed and seen_rel, "C12.X1", construct + "[chain]", f.loc, found="; ".join(bad) or "first kernel fixed at 0, every later kernel relative to the previous one",
                  required="kernel i+1 starts right after kernel i", what="repetition kernels are not chained contiguously: " + "; ".join(bad), detail="chain")
    return n


def x1(model: Model, rep: Report):
    rep.rule("C12.X1", "RelativeIndexStrategy.get_index == reference.stop_index + 1; the experiment kernel and the repetition estimate build one kernel per "
                       "round count, the first at a fixed start 0 and each next relative to the previous one, and the calibration kernel relative to the last "
                       "repetition kernel; indexing_kernels = repetition kernels followed by the calibration kernel")
    R = model.cls("RelativeIndexStrategy")
    f = R.resolve("get_index")
    v = Evaluator(model, inline_methods=False).value_of(f, self_cls=R)
    s = sym(f.self_name)
    want = t_add(("attr", ("attr", s, "reference_index_kernel"), "stop_index"), ONE)
    rep.check(v == want, "C12.X1", "RelativeIndexStrategy.get_index", f.loc, found=show(v), required=show(want), what="a chained kernel does not start right after its reference (gap or overlap)", detail="relative")
    F = model.cls("FixedIndexStrategy")
    f = F.resolve("get_index")
    v = Evaluator(model, inline_methods=False).value_of(f, self_cls=F)
    rep.check(v == ("attr", sym(f.self_name), "index"), "C12.X1", "FixedIndexStrategy.get_index", f.loc, found=show(v), required="self.index", what="fixed start ignored", detail="fixed")
    for cname in ("RepetitionIndexKernel", "QutritCalibrationIndexKernel"):
        C = model.cls(cname)
        f = C.resolve("start_index")
        v = Evaluator(model, inline_methods=False).value_of(f, self_cls=C)
        s = sym(f.self_name)
        ok = is_call_of(v, "get_index") and v[1][1] == ("attr", s, "index_offset_strategy")
        rep.check(ok, "C12.X1", f"{cname}.start_index", f.loc, found=show(v), required="self.index_offset_strategy.get_index(self)", what="kernel start is not taken from its offset strategy", detail="start")
    E = model.cls("RepetitionExperimentKernel")
    init = E.resolve("__init__")
    s = sym(init.self_name)
    n = _chain_builder(model, rep, init, E, ("attr", s, "_rounds"), ("attr", s, "_heralded_initialization"), "RepetitionExperimentKernel.__init__", True)
    # calibration kernel
    ev = Evaluator(model, inline_methods=False)
    ps = PathEnumerator(ev).function_paths(init, self_cls=E)
    for p in [q for q in ps if q.exit in ("return", "fall")]:
        sts = [e.term for e in p.events if e.kind == "store" and e.term[2] == "_calibration_kernel"]
        ok = len(sts) == 1 and sts[0][3][0] == "new" and sts[0][3][1] == "QutritCalibrationIndexKernel"
        if ok:
            d = dict(sts[0][3][2])
            st = d.get("index_offset_strategy")
            ref_ = dict(st[2]).get("reference_index_kernel") if st is not None and st[0] == "new" else None
            while ref_ is not None and ref_[0] == "var" and len(ref_) == 4:
                ref_ = ref_[3]
            # the list may be reached through the local it was built in (``chain = []; self._repetition_kernels = chain; ... chain[-1]``): the same list object
            lists_ = [("attr", s, "_repetition_kernels")] + [e.term[3] for e in p.events if e.kind == "store" and e.term[2] == "_repetition_kernels" and e.term[1] == s]
            last_ok = ref_ is not None and ref_[0] == "sub" and ref_[2] == lin({}, Fraction(-1)) and any(ref_[1] == l_ or (l_[0] == "var" and ref_[1][:2] == l_[:2]) for l_ in lists_)
            ok = st is not None and st[0] == "new" and st[1] == "RelativeIndexStrategy" and last_ok and \
                d.get("heralded_initialization") == ("attr", s, "_heralded_initialization")
        rep.check(ok, "C12.X1", "RepetitionExperimentKernel.__init__[calibration]", init.loc, found=[show(t) for t in sts], required="calibration kernel relative to the last repetition kernel, same heralded setting",
                  what="the calibration kernel is not placed right after the last repetition kernel", detail="calibration")
        rs = [e.term for e in p.events if e.kind == "store" and e.term[2] == "_rounds"]
        rounds_param = sym("rounds")
        rep.check(len(rs) == 1 and rs[0][3] == rounds_param, "C12.X1", "RepetitionExperimentKernel.__init__[rounds]", init.loc, found=[show(t) for t in rs], required="self._rounds = rounds", what="rounds list altered", detail="rounds")
    g = E.resolve("indexing_kernels")
    v = Evaluator(model, inline_methods=False).value_of(g, self_cls=E)
    gs = sym(g.self_name)
    want = ("concat", (("attr", gs, "_repetition_kernels"), ("list", (("attr", gs, "_calibration_kernel"),))))
    ok = v == want
    rep.check(ok, "C12.X1", "RepetitionExperimentKernel.indexing_kernels", g.loc, found=show(v), required="self._repetition_kernels + [self._calibration_kernel]", what="kernel order changed", detail="order")
    est = E.resolve("estimate_experiment_repetitions")
    builds_kernels = any(isinstance(n_, ast.Call) and ((isinstance(n_.func, ast.Name) and n_.func.id.endswith("IndexKernel")) or (isinstance(n_.func, ast.Attribute) and n_.func.attr.endswith("IndexKernel")))
                         for n_ in ast.walk(est.node)) or any(isinstance(n_, ast.Call) and isinstance(n_.func, ast.Attribute) and isinstance(n_.func.value, ast.Name)
                                                             and n_.func.value.id in ("self", "cls", "RepetitionExperimentKernel") for n_ in ast.walk(est.node))
    if builds_kernels:
        _chain_builder(model, rep, est, E, sym("rounds"), sym("heralded_initialization"), "RepetitionExperimentKernel.estimate_experiment_repetitions", False)
    else:
        # the estimate counts acquisitions per block in closed form instead of chaining kernels: nothing to chain; the count itself is decided by C12.X5
        rep.ok("C12.X1", "RepetitionExperimentKernel.estimate_experiment_repetitions[no kernel chain]", est.loc, found="closed-form cycle length (no kernels constructed)", required="chain of kernels, or a closed form decided by C12.X5")


def _follow_delegation(model: Model, f):
    """``def m(a, b, c): return helper(a, b, c)`` -- the helper is the function to read (a method kept as a thin wrapper after its body moved)."""
    seen = set()
    while f is not None and f not in seen:
        seen.add(f)
        body = [st for st in f.node.body if not (isinstance(st, ast.Expr) and isinstance(st.value, ast.Constant))]
        if len(body) != 1 or not isinstance(body[0], ast.Return) or not isinstance(body[0].value, ast.Call):
            return f
        call = body[0].value
        params = [p for p in f.param_names if p not in ("self", "cls")]
        passed = [a.id if isinstance(a, ast.Name) else None for a in call.args] + [k.value.id if isinstance(k.value, ast.Name) else None for k in call.keywords]
        if passed != params:
            return f
        name = call.func.id if isinstance(call.func, ast.Name) else call.func.attr if isinstance(call.func, ast.Attribute) else None
        tgt = model.lookup_symbol(f.module, name) if isinstance(call.func, ast.Name) else None
        if tgt is None and isinstance(call.func, ast.Attribute) and isinstance(call.func.value, ast.Name) and f.cls is not None and call.func.value.id in ("self", "cls", f.cls.name):
            tgt = f.cls.resolve(name)
        if tgt is None and isinstance(call.func, ast.Attribute) and isinstance(call.func.value, ast.Name) and call.func.value.id in f.module.imports:
            tgt = model.lookup_symbol(f.module, call.func.value.id + "." + name)      # ``module_alias.helper(..)``
        from ..model import FunctionInfo as _FI
        if not isinstance(tgt, _FI) or tgt.name == f.name and tgt is f:
            return f
        if [p for p in tgt.param_names if p not in ("self", "cls")][:len(params)] != params and len([p for p in tgt.param_names if p not in ("self", "cls")]) != len(params):
            return f
        f = tgt
    return f


# ---------------------------------------------------------------------------------------------
def x4(model: Model, rep: Report):
    rep.rule("C12.X4", "create_sliced_arrays(list, cycle, reps) == [array(list) + i * cycle for i in range(reps)]; kernel_cycle_length == last.stop_index - "
                       "first.start_index + 1; every experiment getter slices the matching kernel getter with (kernel_cycle_length, experiment_repetitions)")
    E = model.cls("RepetitionExperimentKernel")
    f = _follow_delegation(model, E.resolve("create_sliced_arrays"))
    il, cl, rp = (sym(p) for p in f.param_names[:3])
    ok = None
    found = ""
    try:
        v = Evaluator(model, inline_methods=False).value_of(f, self_cls=E)
        found = show(v)
        inner = v[2][0] if v[0] == "call" and isinstance(v[1], tuple) and len(v[1]) > 2 and v[1][2] in ("asarray", "array") and v[2] else v
        if inner[0] == "comp" and len(inner[3]) == 1 and not inner[3][0][1]:
            ok = False
            it = inner[3][0][0]
            elt = inner[2]
            bounds = subterms(elt, lambda x: x[0] == "bound")
            if len(bounds) == 1 and it == ("call", "range", (rp,), ()):
                arr = [a for a in as_lin(elt)[0] if a[0] == "call" and isinstance(a[1], tuple) and a[1][2] in ("array", "asarray") and a[2] == (il,)]
                if len(arr) == 1:
                    want = t_add(arr[0], t_mul(bounds[0], cl))
                    ok = elt == want
    except Unsupported:
        ok = None
    if ok is None:
        # not the comprehension over range(repetitions): a vectorised spelling.  Its INDEX MAP is decided by interpreting the function's numpy
        # expressions on symbolic elements for every shape up to 4 x 4 (qcolint.arrays): cell (i, j) must hold int_list[j] + i * cycle_length
        from ..arrays import Arr, MiniNumpy, const as a_const, f_add as a_add, form as a_form, show_form, symbol
        names = list(f.param_names[:3])
        bad_cell = None
        n_shapes = 0
        try:
            for R in range(1, 5):
                for L in range(1, 5):
                    xs = [symbol(f"{names[0]}[{j}]") for j in range(L)]
                    out = MiniNumpy().run(f.node, {names[0]: xs, names[1]: symbol(names[1]), names[2]: R})
                    out = out if isinstance(out, Arr) else MiniNumpy()._as_arr(out)
                    n_shapes += 1
                    if out.shape != (R, L):
                        bad_cell = bad_cell or f"repetitions={R}, {L} indices: result has shape {out.shape} instead of ({R}, {L})"
                        continue
                    for i in range(R):
                        for j in range(L):
                            want_f = a_add(xs[j], a_form({names[1]: i}))
                            if out.data[i][j] != want_f and bad_cell is None:
                                bad_cell = f"repetitions={R}, {L} indices: cell ({i}, {j}) holds {show_form(out.data[i][j])} instead of {show_form(want_f)}"
        except Unsupported as e:
            raise AnalysisError(f"create_sliced_arrays is neither a comprehension over range(repetitions) nor a numpy expression the index-map interpreter reads ({e}): " + found)
        ok = bad_cell is None
        found = bad_cell or f"index map int_list[j] + i * cycle_length on all {n_shapes} shapes up to 4 x 4 (symbolic elements)"
        rep.assume("a vectorised create_sliced_arrays is decided on all shapes up to 4 x 4 with symbolic elements (index maps of repeat / tile / reshape are periodic in the dimensions)")
    rep.check(ok, "C12.X4", "RepetitionExperimentKernel.create_sliced_arrays", f.loc, found=found, required="[np.array(int_list) + i * cycle_length for i in range(repetitions)]",
              what="successive experiment repetitions are not exact translates of the first cycle by the cycle length" + (": " + found if not ok else ""), detail="translate")
    g = _follow_delegation(model, E.resolve("create_sliced_array"))
    v = Evaluator(model, inline_methods=False).value_of(g, self_cls=g.cls)
    # np.concatenate(rows) and rows.flatten() / .ravel() / .reshape(-1) of the two-dimensional result are the same row-major flattening
    flat_of = None
    if v[0] == "call" and isinstance(v[1], tuple) and len(v[1]) > 2 and v[1][2] == "concatenate" and len(v[2]) == 1:
        flat_of = v[2][0]
    elif v[0] == "call" and isinstance(v[1], tuple) and len(v[1]) > 2 and v[1][0] == "attr" and (v[1][2] in ("flatten", "ravel") and not v[2] or v[1][2] == "reshape" and v[2] == (lin({}, Fraction(-1)),)):
        flat_of = v[1][1]
    # the rows are asked of the method itself (which may have become a thin wrapper of the function read above) or of that function directly
    f0 = E.resolve("create_sliced_arrays")
    calls, callee = [], f
    for cand in (f0, f):
        calls = find_calls(flat_of, cand.name) if flat_of is not None else []
        if calls:
            callee = cand
            break
    cn = [p_ for p_ in callee.param_names if p_ not in ("self", "cls")]
    def _args_of(c):
        d = dict(c[3])
        for i_, a_ in enumerate(c[2]):
            d[cn[i_]] = a_
        return d
    ok = bool(calls) and flat_of == calls[0] and _args_of(calls[0]) == {cn[0]: sym(g.param_names[0]), cn[1]: sym(g.param_names[1]), cn[2]: sym(g.param_names[2])}
    rep.check(ok, "C12.X4", "RepetitionExperimentKernel.create_sliced_array", g.loc, found=show(v), required="np.concatenate(create_sliced_arrays(int_list, cycle_length, repetitions))", what="flattened slicing differs", detail="flat")
    # cycle length
    c = E.resolve("kernel_cycle_length")
    ev = Evaluator(model, inline_methods=False, opaque={"RepetitionExperimentKernel.indexing_kernels"})
    v = ev.value_of(c, self_cls=E)
    s = sym(c.self_name)
    ks = ("attr", s, "indexing_kernels")
    want = t_add(t_add(("attr", ("sub", ks, lin({}, Fraction(-1))), "stop_index"), ("attr", ("sub", ks, ZERO), "start_index"), -1), ONE)
    rep.check(v == want, "C12.X4", "RepetitionExperimentKernel.kernel_cycle_length", c.loc, found=show(v), required=show(want), what="the cycle length is not the inclusive span of all kernels", detail="cycle")
    r = E.resolve("experiment_repetitions")
    v = Evaluator(model).value_of(r, self_cls=E)
    init = E.resolve("__init__")
    ps = PathEnumerator(Evaluator(model, inline_methods=False)).function_paths(init, self_cls=E)
    sts = [e.term for p in ps for e in p.events if e.kind == "store" and e.term[3] == sym("experiment_repetitions")]
    rep.check(v[0] == "attr" and sts and all(t[2] == v[2] for t in sts), "C12.X4", "RepetitionExperimentKernel.experiment_repetitions", r.loc, found=show(v), required="the constructor's experiment_repetitions",
              what="repetition count altered", detail="reps")
    # getters
    spec = {
        "get_heralded_cycle_acquisition_indices": (["get_heralded_measurement_index"], "create_sliced_arrays"),
        "get_stabilizer_and_projected_cycle_acquisition_indices": (["get_ordered_stabilizer_measurement_indices", "get_final_measurement_index"], "create_sliced_arrays"),
        "get_projected_cycle_acquisition_indices": (["get_final_measurement_index"], "create_sliced_arrays"),
    }
    for name, (getters, slicer) in spec.items():
        f = E.resolve(name)
        ev = Evaluator(model, inline_methods=False, opaque={"RepetitionExperimentKernel.kernel_cycle_length", "RepetitionExperimentKernel.experiment_repetitions"})
        pe = PathEnumerator(ev)
        pe.own_class_helpers = True          # a kernel-lookup helper of the experiment kernel is part of the getter
        ps = pe.function_paths(f, self_cls=E)
        s = sym(f.self_name)
        qid, cnt = sym(f.param_names[1]), sym(f.param_names[2])
        # the kernel is found by a first-match scan over the repetition kernels (written in the getter, or in a helper it calls);
        # on the path where the scan hits, the sliced getter(s) of THAT kernel are returned
        hits = []
        for p in ps:
            lxs = [e for e in p.events if e.kind == "loopexit"]
            if p.exit != "return" or not lxs:
                continue
            lp0 = [e for e in p.events[:p.events.index(lxs[0])] if e.kind == "loop"][-1]
            el0 = ("bound", "for", lp0.node.lineno, show(lp0.term))
            # the element the scan stopped at is an element of the list (its attributes were just read): it is not None
            if subst(p.cond, {t_cmp("is", el0, NONE): FALSE}) == FALSE:
                continue
            hits.append(p)
        found = []
        ok = len(hits) == 1
        # every other way out answers "no such block": an empty array (a short-cut that answers with some kernel's indices is not a scan hit)
        def _empty(v):
            return v is not None and v[0] == "call" and isinstance(v[1], tuple) and v[1][0] == "attr" and v[1][2] in ("asarray", "array", "empty", "zeros") \
                and (not v[2] or v[2][0] in (("list", ()), ("tuple", ()), ZERO)) or v in (("list", ()),)
        others = [p for p in ps if p.exit == "return" and p not in hits and not _empty(p.value)]
        if others:
            ok = False
            found.append("answers without scanning for the block: " + "; ".join(f"{show(p.value)[:90]} if {show(p.cond)[:90]}" for p in others[:2]))
        if ok:
            p = hits[0]
            lx = [e for e in p.events if e.kind == "loopexit"][0]
            lp = [e for e in p.events[:p.events.index(lx)] if e.kind == "loop"][-1]
            elem = ("bound", "for", lp.node.lineno, show(lp.term))
            ok = lp.term == ("attr", s, "_repetition_kernels") and lx.term == t_cmp("==", ("attr", elem, "nr_repeated_parities"), cnt)
            if not ok:
                found.append(f"scan over {show(lp.term)} stopping when {show(lx.term)}")
            else:
                v = p.value
                found.append(show(v))
                parts: Term = ZERO
                first = True
                for gname in getters:
                    t = ("call", ("attr", elem, gname), (), (("element", qid),))
                    parts = t if first else t_add(parts, t)
                    first = False
                # list concatenation keeps order: compare the source order as well
                want = ("call", ("fn", f"RepetitionExperimentKernel.{slicer}"), (), (("cycle_length", ("attr", s, "kernel_cycle_length")), ("int_list", parts), ("repetitions", ("attr", s, "experiment_repetitions"))))
                ok = v == want and _concat_order(p.exit_node, getters, f.node)
        rep.check(ok, "C12.X4", f"RepetitionExperimentKernel.{name}", f.loc, found=found or "shape not recognised", required=f"{slicer}({' + '.join(getters)} of the kernel with the requested round count, cycle length, repetitions)",
                  what="the experiment getter does not slice the matching category of the matching kernel", detail=name)
    for name, prefix in (("get_projected_calibration_acquisition_indices", "get_state_{}_measurement_index"), ("get_heralded_calibration_acquisition_indices", "get_heralded_state_{}_measurement_index")):
        f = E.resolve(name)
        ev = Evaluator(model, inline_methods=False, opaque={"RepetitionExperimentKernel.kernel_cycle_length", "RepetitionExperimentKernel.experiment_repetitions"})
        try:
            outs = [Outcome(q.cond, q.exit, q.value, q.exit_node) for q in PathEnumerator(ev).function_paths(f, self_cls=E)]
        except Unsupported as e:
            raise AnalysisError(f"RepetitionExperimentKernel.{name}: {e}")
        s = sym(f.self_name)
        qid, st = sym(f.param_names[1]), sym(f.param_names[2])
        bad = []
        for i in (0, 1, 2):
            mp = {st: ("enum", "StateKey", f"STATE_{i}")}
            hit = [o for o in outs if subst(o.cond, mp) == TRUE]
            want = ("call", ("fn", "RepetitionExperimentKernel.create_sliced_array"), (),
                    (("cycle_length", ("attr", s, "kernel_cycle_length")), ("int_list", ("call", ("attr", ("attr", s, "_calibration_kernel"), prefix.format(i)), (), (("element", qid),))),
                     ("repetitions", ("attr", s, "experiment_repetitions"))))
            if len(hit) != 1 or hit[0].kind != "return" or subst(hit[0].value, mp) != want:
                bad.append(f"STATE_{i}: {[show(subst(o.value, mp)) if o.value else o.kind for o in hit]}")
        rep.check(not bad, "C12.X4", f"RepetitionExperimentKernel.{name}", f.loc, found="; ".join(bad) or "state i -> getter i", required="state i -> calibration getter i, sliced with (cycle length, repetitions)",
                  what="calibration indices of one state are reported for another", detail=name)


def _concat_order(ret_node: Optional[ast.AST], getters: List[str], scope: Optional[ast.AST] = None) -> bool:
    """List concatenation is order-sensitive while the affine normal form is not: check the left-to-right order of the
    concatenated getter results in the returned slicer call."""
    if ret_node is None or not isinstance(ret_node, ast.Return) or not isinstance(ret_node.value, ast.Call):
        return False
    call = ret_node.value
    arg = call.args[0] if call.args else next((k.value for k in call.keywords if k.arg == "int_list"), None)
    if arg is None:
        return False

    def flat(e):
        if isinstance(e, ast.BinOp) and isinstance(e.op, ast.Add):
            return flat(e.left) + flat(e.right)
        return [e]

    def getter_of(e):
        if isinstance(e, ast.Call) and isinstance(e.func, ast.Attribute):
            return e.func.attr
        if isinstance(e, ast.Name) and scope is not None:
            for n in ast.walk(scope):
                if isinstance(n, (ast.Assign, ast.AnnAssign)) and n.value is not None:
                    tg = n.targets[0] if isinstance(n, ast.Assign) else n.target
                    if isinstance(tg, ast.Name) and tg.id == e.id:
                        return getter_of(n.value)
        return None
    return [getter_of(x) for x in flat(arg)] == getters


def x5(model: Model, rep: Report):
    rep.rule("C12.X5", "estimate_experiment_repetitions: repetitions = dataset_size / (last.stop_index - first.start_index + 1) with an assertion that the "
                       "division is exact")
    E = model.cls("RepetitionExperimentKernel")
    f = E.resolve("estimate_experiment_repetitions")
    ev = Evaluator(model, inline_methods=False)
    ps = PathEnumerator(ev).function_paths(f, self_cls=E)
    ds = sym("dataset_size")
    n = 0
    from ..extreme import fuse_comprehensions
    from ..listflow import resolve_lists
    from .common import devar
    her_names = [a.arg for a in f.node.args.args if "herald" in a.arg]
    cal_names = [a.arg for a in f.node.args.args if "calibration" in a.arg]
    rounds_names = [a.arg for a in f.node.args.args if "round" in a.arg]
    for p in [q for q in ps if q.exit == "return"]:
        n += 1
        v = p.value
        # v = int(dataset / cycle)
        ok = v[0] == "call" and v[1] == "int" and len(v[2]) == 1 and v[2][0][0] == "div" and v[2][0][1] == ds
        cyc = v[2][0][2] if ok else None
        if not ok:
            rep.fail("C12.X5", "RepetitionExperimentKernel.estimate_experiment_repetitions[quotient]", f.loc, found=show(v), required="int(dataset_size / <cycle length>)",
                     what="the estimate does not invert dataset size = repetitions x cycle length", detail="quotient")
            continue
        coeffs, k = as_lin(cyc)
        stops = [a for a, c in coeffs.items() if a[0] == "attr" and a[2] == "stop_index" and a[1][0] == "sub"]
        starts = [a for a, c in coeffs.items() if a[0] == "attr" and a[2] == "start_index" and a[1][0] == "sub"]
        if stops or starts:
            # reading A: the span of the chained kernels (their contiguity is C12.X1)
            ok = len(coeffs) == 2 and len(stops) == 1 and len(starts) == 1 and k == 1 and coeffs[stops[0]] == 1 and coeffs[starts[0]] == -1 \
                and number(stops[0][1][2]) == -1 and number(starts[0][1][2]) == 0 and stops[0][1][1] == starts[0][1][1]
            rep.check(ok, "C12.X5", "RepetitionExperimentKernel.estimate_experiment_repetitions[quotient]", f.loc, found=show(v), required="int(dataset_size / (kernels[-1].stop_index - kernels[0].start_index + 1))",
                      what="the estimate does not invert dataset size = repetitions x cycle length", detail="quotient")
            continue
        # reading B: a closed form  sum(g(n) for n in rounds) + c : g must be the kernel length h + max(1, n) of one block (C12.X2) in every region,
        # c the calibration kernel length 3h + 3 when calibration points are counted and 0 otherwise (C12.X3)
        cyc2 = devar(fuse_comprehensions(resolve_lists(p, cyc)))
        coeffs, k = as_lin(cyc2)
        sums = [a for a in coeffs if a[0] == "call" and a[1] == "sum" and len(a[2]) == 1 and a[2][0][0] == "comp" and len(a[2][0][3]) == 1 and not a[2][0][3][0][1]
                and a[2][0][3][0][0] in [sym(x) for x in rounds_names]]
        her = [sym(x) for x in her_names]
        cal = [sym(x) for x in cal_names]
        h_val = None
        for hs in her:
            if subst(p.cond, {hs: FALSE}) == FALSE:
                h_val = 1
            elif subst(p.cond, {hs: TRUE}) == FALSE:
                h_val = 0
        c_val = None
        for cs in cal:
            if subst(p.cond, {cs: FALSE}) == FALSE:
                c_val = True
            elif subst(p.cond, {cs: TRUE}) == FALSE:
                c_val = False
        if len(sums) != 1 or len(coeffs) != 1 or coeffs[sums[0]] != 1 or h_val is None or c_val is None:
            raise AnalysisError(f"RepetitionExperimentKernel.estimate_experiment_repetitions: the cycle length {show(cyc)[:120]} is neither the span of the chained kernels nor a per-round sum")
        comp = sums[0][2][0]
        bs = subterms(comp[2], lambda y: y[0] == "bound")
        bad = []
        for region, nval in (("n=0", ZERO), ("n=1", ONE), ("n=k+2", t_add(K, lin({}, Fraction(2))))):
            g = resolve_max(subst(comp[2], {b: nval for b in bs}))
            want = resolve_max(t_add(lin({}, Fraction(h_val)), ("max", tuple(sorted([ONE, nval], key=repr)))))
            if g != want:
                bad.append(f"{region}, heralded={bool(h_val)}: counts {show(g)} acquisitions, the kernel has {show(want)}")
        want_c = Fraction(3 * h_val + 3) if c_val else Fraction(0)
        if k != want_c:
            bad.append(f"heralded={bool(h_val)}, calibration={c_val}: adds {k} for the calibration block, its kernel has {want_c}")
        rep.check(not bad, "C12.X5", "RepetitionExperimentKernel.estimate_experiment_repetitions[quotient]", f.loc, found="; ".join(bad) or show(cyc2)[:160],
                  required="cycle length = sum over rounds of (heralded + max(1, n)) + (3 * heralded + 3 if calibration points)",
                  what="the estimate does not invert dataset size = repetitions x cycle length: " + "; ".join(bad), detail="quotient")
    asserts = [p for p in ps if p.exit == "raise" and isinstance(p.exit_node, ast.Assert)]
    ok = False
    for a in asserts:
        t = ev  # noqa
    # the assertion: dataset_size == nr * cycle
    src = [n_ for n_ in ast.walk(f.node) if isinstance(n_, ast.Assert)]
    ok = len(src) == 1 and isinstance(src[0].test, ast.Compare) and isinstance(src[0].test.ops[0], ast.Eq) and "dataset_size" in ast.unparse(src[0].test) and "*" in ast.unparse(src[0].test)
    rep.check(ok and len(asserts) >= 1, "C12.X5", "RepetitionExperimentKernel.estimate_experiment_repetitions[exactness]", f.loc, found=[ast.unparse(a.test) for a in src], required="assert dataset_size == repetitions * cycle_length",
              what="an inexact dataset size is silently truncated", detail="assert")
    rep.floor("return paths of estimate_experiment_repetitions", n, 1)
