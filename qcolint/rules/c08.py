"""C08 -- Stim export is the in-order image of the circuit.

S1  the operation-type -> gate-name table equals the documented mapping (literal table evaluated from the source); the
    factories emit the configured name / TICK / the operation's own annotation instruction.
S2  the walk: whole node iterator in order; composite -> recursive construct, appended nr_of_repetitions(of that composite)
    times; unsupported -> skipped; supported -> exactly one append of its factory's result; nothing else is appended.
S3  targets of name-based gates: order-preserving unique qubit ids of the operation's own channel identifiers.
S4  detector / observable / coordinate-shift instructions: guards partition the None-ness cases; record offsets in affine
    normal form; arguments.
"""
from __future__ import annotations

import ast
import itertools
from fractions import Fraction
from typing import Dict, List, Optional, Tuple

from ..model import AnalysisError, Model
from ..paths import Path, PathEnumerator, find_calls
from ..report import Report
from ..sym import (FALSE, NONE, TRUE, Evaluator, Frame, Term, Unsupported, atoms_of, const, lin, number, show, subst, sym, t_add, t_and, t_cmp,
                   t_mul, t_not, t_scale)
from .common import call_args, is_call_of, loop_of, node_iterator_domain, share_rule, strip_identity_wrappers

SPEC_TABLE = {
    "Reset": "R", "Barrier": "TICK", "Hadamard": "H", "Identity": "I", "CPhase": "CZ", "DispersiveMeasure": "M",
    "Rx180": "X", "Rx90": "SQRT_X", "Rxm90": "SQRT_X_DAG", "Ry180": "Y", "Ry90": "SQRT_Y", "Rym90": "SQRT_Y_DAG",
    "DetectorOperation": "<DETECTOR>", "LogicalObservableOperation": "<OBSERVABLE_INCLUDE>", "CoordinateShiftOperation": "<SHIFT_COORDS>",
}
ANNOTATION_FACTORIES = {"DetectorOperationsFactory": "<DETECTOR>", "LogicalObservableOperationsFactory": "<OBSERVABLE_INCLUDE>",
                        "CoordinateShiftOperationsFactory": "<SHIFT_COORDS>"}


def check(model: Model, rep: Report, tier: str):
    rep.trust("spec: documented gate mapping R/TICK/H/I/CZ/M/X/SQRT_X/SQRT_X_DAG/Y/SQRT_Y/SQRT_Y_DAG and the detector record-offset forms of DESIGN.md C08.S4")
    with rep.isolated():
        s1(model, rep)
    with rep.isolated():
        s2(model, rep)
    with rep.isolated():
        s3(model, rep)
    with rep.isolated():
        s4(model, rep)
    from .c05 import _k1_k2
    with rep.isolated():
        share_rule(rep, model, _k1_k2, "C08.S5", "exporting before or after nesting / unrolling gives the same instructions: every operation class's copy() keeps "
                   "all its fields, in particular the record offsets of detector / observable annotations (= C05.K1/K2)")
    from .c01 import r7
    from .c06 import u5 as _u5
    from .c05 import _k5
    with rep.isolated():
        share_rule(rep, model, _k5, "C08.S9", "a sub-circuit handed to add() arrives as a copy of ITSELF -- its own repetition count and relation included (= C05.K5); replacing a "
                   "wrapper by what it wraps drops the wrapper's count from the export")
    with rep.isolated():
        share_rule(rep, model, _u5, "C08.S8", "the count the exporter multiplies a block by is the count in force when it exports: nr_of_repetitions (and everything unrolling reads) "
                   "is computed on every read, not memoised (= C06.U5); a cached count survives apply_modifiers resetting the strategy and a changed registry")
    with rep.isolated():
        share_rule(rep, model, r7, "C08.S6", "the exporter multiplies a repeated block by its count and unrolling appends count-1 copies: both give the same instructions only "
                   "if extend() appends every node of each copy, whatever the block holds -- zero-length annotations included (= C01.R7 extend)",
                   keep=lambda o: o["construct"].startswith("CircuitCompositeOperation.extend"))


def _ctor_name(v: Term) -> Optional[str]:
    """Class name of an argument-less constructor call (classes without fields evaluate to a plain call term)."""
    if v[0] == "new" and not v[2]:
        return v[1]
    if v[0] == "call" and isinstance(v[1], tuple) and v[1][0] == "cls" and not v[2] and not v[3]:
        return v[1][1]
    return None


_DUPLICATE_KEYS: List[str] = []


def stim_table(model: Model) -> Tuple[Dict[str, Term], str]:
    del _DUPLICATE_KEYS[:]
    M = model.cls("StimFactoryManager")
    expr = M.class_attrs.get("_factory")
    if expr is None:
        raise AnalysisError("StimFactoryManager._factory not found")
    ev = Evaluator(model)
    v = ev.expr(expr, Frame(None, M.module, {}, M, 0))
    if v[0] != "new" or v[1] != "StimCircuitFactoryManager":
        raise AnalysisError("StimFactoryManager._factory is not a StimCircuitFactoryManager(...) literal")
    lk = dict(v[2]).get("factory_lookup")
    if lk is None or lk[0] != "dict":
        raise AnalysisError("factory_lookup is not a dict literal")
    out: Dict[str, Term] = {}
    for k, val in lk[1]:
        if k[0] != "cls":
            raise AnalysisError(f"factory_lookup key is not a class: {show(k)}")
        if k[1] in out:
            _DUPLICATE_KEYS.append(k[1])       # a dict display keeps the LAST entry of a repeated key: the earlier row is silently shadowed
        out[k[1]] = val
    return out, f"{M.module.relpath}:{expr.lineno}"


def s1(model: Model, rep: Report):
    rep.rule("C08.S1", "StimFactoryManager's operation-type -> gate table equals the documented mapping; NameBasedOperationsFactory emits the configured "
                       "name on the operation's qubits; the tick factory emits TICK without targets; annotation factories emit the operation's own instruction")
    table, loc = stim_table(model)
    rep.check(not _DUPLICATE_KEYS, "C08.S1", "stim table[keys written once]", loc, found=f"repeated keys: {sorted(set(_DUPLICATE_KEYS))}" if _DUPLICATE_KEYS else "every key written once",
              required="one row per operation type", what=f"the translation table writes the key(s) {sorted(set(_DUPLICATE_KEYS))} twice: the later row silently replaces the earlier one, so that "
              "operation is exported as the other row's gate (and the type the second row was meant for has no row)", detail="duplicate-key")
    rep.floor("stim gate table entries", len(table), 1)  # completeness is judged entry by entry below
    for cls_name, gate in SPEC_TABLE.items():
        v = table.get(cls_name)
        if v is None:
            rep.fail("C08.S1", f"stim table[{cls_name}]", loc, found="missing", required=gate, what=f"{cls_name} is no longer exported (silently omitted from every Stim program)", detail=f"missing:{cls_name}")
            continue
        found = None
        if v[0] == "new" and v[1] == "NameBasedOperationsFactory":
            nm = dict(v[2]).get("operation_name")
            found = nm[1] if nm and nm[0] == "const" else show(nm)
        elif _ctor_name(v) == "TickOperationsFactory":
            found = "TICK"
        elif _ctor_name(v) in ANNOTATION_FACTORIES:
            found = ANNOTATION_FACTORIES[_ctor_name(v)]
        else:
            found = show(v)
        rep.check(found == gate, "C08.S1", f"stim table[{cls_name}]", loc, found=found, required=gate, what=f"{cls_name} is exported as {found} instead of the documented {gate}", detail=f"gate:{cls_name}")
    extra = sorted(set(table) - set(SPEC_TABLE))
    if extra:
        rep.info(f"C08.S1: classes exported beyond the documented table (not judged): {extra}")
    # factories
    N = model.cls("NameBasedOperationsFactory", "addon_stim.operation_factories.factory_basic_operations")
    init = N.resolve("__init__")
    ps = PathEnumerator(Evaluator(model, inline_methods=False)).function_paths(init, self_cls=N)
    sts = [e.term for p in ps for e in p.events if e.kind == "store"]
    nparam = sym([p for p in init.param_names if p != init.self_name][0])
    name_attr = [t[2] for t in sts if t[3] == nparam]
    c = N.resolve("construct")
    v = Evaluator(model, inline_methods=False).value_of(c, self_cls=N)
    cs = sym(c.self_name)
    op = sym([p for p in c.param_names if p != c.self_name][0])
    ok = len(name_attr) == 1 and v[0] == "call" and v[1] == ("attr", ("global", "stim"), "CircuitInstruction")
    if ok:
        kw = dict(v[3])
        args = list(v[2])
        nm = kw.get("name", args[0] if args else None)
        tg = kw.get("targets", args[1] if len(args) > 1 else None)
        ga = kw.get("gate_args", args[2] if len(args) > 2 else None)
        ok = nm == ("attr", cs, name_attr[0]) and tg == ("call", ("fn", "factory_basic_operations.get_qubit_index"), (), (("operation", op),)) and ga in (None, ("list", ()))
    rep.check(ok, "C08.S1", "NameBasedOperationsFactory.construct", c.loc, found=show(v), required="stim.CircuitInstruction(name=<configured name>, targets=get_qubit_index(operation))",
              what="a name-based gate is not emitted under its configured name on the operation's own qubits", detail="name-factory")
    T = model.cls("TickOperationsFactory", "addon_stim.operation_factories.factory_barrier_operations")
    c = T.resolve("construct")
    v = Evaluator(model, inline_methods=False).value_of(c, self_cls=T)
    kw = dict(v[3]) if v[0] == "call" else {}
    ok = v[0] == "call" and kw.get("name") == ("const", "TICK") and kw.get("targets") == ("list", ()) and kw.get("gate_args", ("list", ())) == ("list", ())
    rep.check(ok, "C08.S1", "TickOperationsFactory.construct", c.loc, found=show(v), required="stim.CircuitInstruction(name='TICK', targets=[])", what="a barrier is not exported as a bare TICK", detail="tick")
    unread = []
    for fname in ANNOTATION_FACTORIES:
        F = model.cls(fname)
        c = F.resolve("construct")
        op_name = [p for p in c.param_names if p != c.self_name][0]
        op = sym(op_name)
        try:
            v = Evaluator(model, inline_methods=False).value_of(c, self_cls=F)
        except Unsupported:
            v = None
        delegates = v == ("call", ("attr", op, "to_stim_instruction"), (), ())
        builds_itself = v is None or any(isinstance(n_, ast.Attribute) and n_.attr == "CircuitInstruction" for n_ in ast.walk(c.node))
        if not delegates and builds_itself:
            # the factory assembles the instruction from the operation's fields: for detectors the case analysis of S4 is run on the factory itself; the other
            # annotations are left unread (not wrong)
            if fname == "DetectorOperationsFactory":
                with rep.isolated():
                    _detector_cases(model, rep, c, F, op_name)
            else:
                unread.append(f"{fname}.construct builds its instruction itself (does not delegate to operation.to_stim_instruction()); not read")
            continue
        rep.check(delegates, "C08.S1", f"{fname}.construct", c.loc, found=show(v), required="operation.to_stim_instruction()",
                  what="an annotation is not exported as the operation's own instruction", detail="annotation-factory")
    # the default manager delegates
    M = model.cls("StimFactoryManager")
    c = M.resolve("construct")
    v = Evaluator(model, inline_methods=False).value_of(c, self_cls=M)
    ms = sym(c.self_name)
    circ = sym([p for p in c.param_names if p != c.self_name][0])
    ok = is_call_of(v, "construct") and v[1][1] == ("attr", ms, "_factory") and (list(v[2]) + [x for _, x in v[3]]) == [circ]
    rep.check(ok, "C08.S1", "StimFactoryManager.construct", c.loc, found=show(v), required="self._factory.construct(circuit)", what="the default exporter does not use its table", detail="delegate")
    if unread:
        raise AnalysisError("; ".join(unread))
    g = model.function("addon_stim.factory_manager", "to_stim")
    v = Evaluator(model, inline_methods=False).value_of(g)
    ok = is_call_of(v, "construct") and v[1][1] == sym("factory") and (list(v[2]) + [x for _, x in v[3]]) == [sym("circuit")]
    rep.check(ok, "C08.S1", "to_stim", g.loc, found=show(v), required="factory.construct(circuit)", what="to_stim does not export the given circuit", detail="to-stim")


def s2(model: Model, rep: Report):
    rep.rule("C08.S2", "StimCircuitFactoryManager.construct: ranges over all nodes of the circuit's graph in order; a sub-circuit is exported recursively and "
                       "added `its own nr_of_repetitions` times; an operation whose type is not in the table is skipped; a supported one contributes exactly one "
                       "append of factory_lookup[type(operation)].construct(operation); nothing else is appended")
    K = model.cls("StimCircuitFactoryManager")
    f = K.resolve("construct")
    ev = Evaluator(model, inline_methods=False)
    paths = PathEnumerator(ev).function_paths(f, self_cls=K)
    s = sym(f.self_name)
    circ = sym([p for p in f.param_names if p != f.self_name][0])
    construct = "StimCircuitFactoryManager.construct"
    n = 0
    for p in [q for q in paths if q.exit == "return"]:
        n += 1
        lp = loop_of(p)
        if lp is None or len([e for e in p.events if e.kind == "loop"]) != 1:
            raise AnalysisError(f"{construct}: expected one walk loop")
        dom = node_iterator_domain(lp.term)
        base = strip_identity_wrappers(lp.term)
        is_decl = ("isinstance", circ, "IDeclarativeCircuit")
        # which structure is walked on this path
        want_struct = None
        if p.cond == is_decl:
            want_struct = ("attr", circ, "circuit_structure")
        elif p.cond == t_not(is_decl):
            want_struct = circ
        ok_dom = dom == "ALL" and base[0] == "call" and base[1][1] == ("attr", want_struct, "_circuit_graph") if want_struct is not None else False
        rep.check(ok_dom, "C08.S2", construct + "[domain]", f.loc, found=f"{show(lp.term)} on path [{show(p.cond)}] -> {dom}", required="all nodes of the circuit's structure, in listing order",
                  what="the exporter does not walk the whole circuit in order", detail="domain")
        result = p.value
        ok_res = result is not None and result[0] == "after" or (result is not None and result[0] == "call")
        elem = ("bound", "for", lp.node.lineno, show(lp.term))
        op = ("attr", elem, "operation")
        is_comp = ("isinstance", op, "ICircuitCompositeOperation")
        supported = ("call", ("attr", s, "contains"), (), (("factory_key", ("call", "type", (op,), ())),))
        rname = None
        for bp in lp.extra["paths"]:
            for e in bp.events:
                if e.kind == "aug":
                    rname = e.extra[0]
        init = lp.extra["init_env"]
        problems: List[str] = []
        for comp, sup in itertools.product((True, False), repeat=2):
            mp = {is_comp: TRUE if comp else FALSE, supported: TRUE if sup else FALSE}
            hit = []
            for bp in lp.extra["paths"]:
                c = subst(bp.cond, mp)
                if c == TRUE:
                    hit.append(bp)
                elif c != FALSE:
                    problems.append(f"walk condition depends on more than (is sub-circuit, is supported): {show(c)}")
            if len(hit) != 1:
                problems.append(f"{len(hit)} paths for sub-circuit={comp}, supported={sup}")
                continue
            bp = hit[0]
            augs = [e for e in bp.events if e.kind == "aug"]
            from ..sym import subterms
            apps = [c for e in bp.events if e.kind == "effect" for c in find_calls(e.term, "append")
                    if subterms(c[1][1], lambda x: x[0] in ("loopvar", "var") and x[1] == rname)]
            case = f"sub-circuit={comp}, supported={sup}"
            if comp:
                want = t_mul(("call", ("attr", s, "construct"), (), (("circuit", op),)), ("attr", op, "nr_of_repetitions"))
                if len(augs) != 1 or augs[0].extra[1] != "Add" or augs[0].term != want:
                    problems.append(f"[{case}] sub-circuit contributes {[show(a.term) for a in augs]} instead of construct(operation) * operation.nr_of_repetitions")
            elif augs:
                problems.append(f"[{case}] a plain operation adds {[show(a.term) for a in augs]}")
            if sup:
                want = ("call", ("attr", ("sub", ("attr", s, "factory_lookup"), ("call", "type", (op,), ())), "construct"), (op,), ())
                got = [(list(c[2]) + [v for _, v in c[3]]) for c in apps]
                def same_call(a, b):
                    # positional and keyword spelling of the one argument are the same call
                    return a[0] == "call" and a[1] == b[1] and (list(a[2]) + [v for _, v in a[3]]) == (list(b[2]) + [v for _, v in b[3]])
                if len(apps) != 1 or len(got[0]) != 1 or not same_call(got[0][0], want):
                    problems.append(f"[{case}] {len(apps)} appends: {[show(c) for c in apps]}")
            elif apps:
                problems.append(f"[{case}] an unsupported operation is appended")
            if bp.exit not in ("fall", "continue"):
                problems.append(f"[{case}] walk left by {bp.exit}")
        rep.check(not problems, "C08.S2", construct + "[walk]", f.loc, found="; ".join(problems) or "one emit per element", required="composite: += construct(op) * op.nr_of_repetitions; supported: one append; unsupported: nothing",
                  what="the exported program is not the instruction-by-instruction image of the listing: " + "; ".join(problems), detail="walk")
        # nothing appended outside the loop, result starts empty
        outside = [e for e in p.events if e.kind in ("effect", "aug") and e.term is not None and (e.kind == "aug" or find_calls(e.term, "append"))]
        r0 = init.get(rname) if rname else None
        ok0 = r0 == ("call", ("attr", ("global", "stim"), "Circuit"), (), ())
        rep.check(not outside and ok0 and p.value == ("after", rname, lp.node.lineno), "C08.S2", construct + "[nothing-else]", f.loc,
                  found=f"{len(outside)} emits outside the walk; result starts as {show(r0) if r0 else None}; returns {show(p.value)}", required="empty stim.Circuit(), only the walk emits, the result is returned",
                  what="instructions are added besides the translated operations", detail="nothing-else")
    rep.floor("return paths of the stim walk", n, 2)
    c = K.resolve("contains")
    v = Evaluator(model, inline_methods=True).value_of(c, self_cls=K)
    cs = sym(c.self_name)
    key = sym([p for p in c.param_names if p != c.self_name][0])
    ok = v[0] == "in" and v[1] == key
    rep.check(ok, "C08.S2", "StimCircuitFactoryManager.contains", c.loc, found=show(v), required="factory_key in <keys of factory_lookup>", what="support test is not table membership", detail="contains")


def s3(model: Model, rep: Report):
    rep.rule("C08.S3", "get_qubit_index(operation) == unique_in_order([channel.id for channel in operation.channel_identifiers])")
    f = model.function("addon_stim.operation_factories.factory_basic_operations", "get_qubit_index")
    v = Evaluator(model, inline_methods=False).value_of(f)
    op = sym(f.params[0].arg)
    ok = v[0] == "call" and v[1] == ("fn", "array_manipulation.unique_in_order")
    if ok:
        arg = dict(v[3]).get("iterable")
        ok = arg is not None and arg[0] == "comp" and len(arg[3]) == 1 and not arg[3][0][1] and arg[3][0][0] == ("attr", op, "channel_identifiers") \
            and arg[2][0] == "attr" and arg[2][2] in ("id", "_id") and arg[2][1][0] == "bound"
    rep.check(ok, "C08.S3", "get_qubit_index", f.loc, found=show(v), required="unique_in_order([c.id for c in operation.channel_identifiers])",
              what="gate targets are not exactly the operation's qubits in channel order", detail="targets")


# ---------------------------------------------------------------------------------------------
def _instr(v: Term) -> Optional[Dict[str, Term]]:
    if v is None or v[0] != "call" or v[1] != ("attr", ("global", "stim"), "CircuitInstruction"):
        return None
    kw = dict(v[3])
    args = list(v[2])
    for i, n in enumerate(("name", "targets", "gate_args")):
        if n not in kw and i < len(args):
            kw[n] = args[i]
    return kw


def _recs(t: Optional[Term], path=None) -> Optional[List[Term]]:
    if t is None:
        return None
    if path is not None:
        from ..listflow import concrete_list
        items = concrete_list(path, t)
    else:
        items = list(t[1]) if t[0] == "list" else None
    if items is None:
        return None
    out = []
    for x in items:
        if x[0] == "call" and x[1] == ("attr", ("global", "stim"), "target_rec") and len(x[2]) == 1:
            out.append(x[2][0])
        else:
            return None
    return out


def _s4_case(rep, f, outs, mp, has_m, has_s, has_r, has_so, sub_case, A, m, sc, ref, spec):
    hit = []
    for o in outs:
        c = subst(o.cond, mp)
        if c == TRUE:
            hit.append(o)
        elif c != FALSE:
            raise AnalysisError(f"DetectorOperation.to_stim_instruction: guard not decidable: {show(c)}")
    case = f"main={'set' if has_m else 'None'}, secondary={'set' if has_s else 'None'}, ref_offset={'set' if has_r else 'None'}, sec_offset={'set' if has_so else 'None'}" + sub_case
    if len(hit) != 1 or hit[0].exit != "return":
        rep.fail("C08.S4", f"{f.qualname}[{case}]", f.loc, found=f"{len(hit)} outcomes", required="exactly one instruction", what="target-shape cases are not a partition", detail=f"partition:{case}")
        return
    ins = _instr(hit[0].value)
    hv_ = hit[0].value
    while hv_ is not None and hv_[0] == "var" and len(hv_) == 4:
        hv_ = hv_[3]
    if ins is None and hv_ is not None and hv_[0] == "call" and "CircuitInstruction" not in show(hv_[1]):
        # the instruction is assembled by another function this one hands its object to (a factory's helper): not read here
        raise AnalysisError(f"{f.qualname}: the instruction is built by {show(hv_[1])[:80]}, which this rule does not follow; not read")
    if ins is None:
        rep.fail("C08.S4", f"{f.qualname}[{case}]", f.loc, found=show(hit[0].value), required="a stim.CircuitInstruction", what="no instruction produced", detail=f"shape:{case}")
        return
    recs = _recs(ins.get("targets"), hit[0])
    if recs is not None:
        recs = [subst(r, {k: v for k, v in mp.items() if k not in A.values()}) for r in recs]      # a truthiness test names the value itself: not a substitution into values
    if has_m and has_s and has_r:
        want = [m, sc, ref] + ([t_add(ref, A["secondary_offset"], -1)] if has_so else [])
    elif has_m:
        want = spec.get((has_m, has_s, has_r))
        # secondary offset is irrelevant without the three-target shape
    else:
        want = []
    ok = ins.get("name") == ("const", "DETECTOR") and recs == want
    if want:
        ga = ins.get("gate_args")
        while ga is not None and ga[0] == "var":
            ga = ga[3]
        ok = ok and ga == ("list", (A["qubit_index"], lin({}, Fraction(0))))
    rep.check(ok, "C08.S4", f"{f.qualname}[{case}]", f.loc, found=f"{show(ins.get('name'))} rec{[show(r) for r in recs] if recs is not None else show(ins.get('targets'))} args {show(ins.get('gate_args')) if ins.get('gate_args') else None}",
              required=f"DETECTOR rec{[show(w) for w in want]}" + (" args [qubit_index, 0]" if want else ""),
              what="the detector points at other measurement records than its offsets say", detail=f"offsets:{case}")


def s4(model: Model, rep: Report):
    rep.rule("C08.S4", "DetectorOperation.to_stim_instruction: the guards partition the None-ness of (main, secondary, reference offset, secondary offset); "
                       "record targets are main-(last+1); [.., main-(last+1)-ref]; [.., secondary-(last+1)]; [.., .., -ref]; [.., .., -ref, -ref-sec_off]; args (qubit, 0). "
                       "LogicalObservableOperation: main-(last+1), args (0). CoordinateShiftOperation: SHIFT_COORDS (space, time)")
    D = model.cls("DetectorOperation")
    f = D.resolve("to_stim_instruction")
    _detector_cases(model, rep, f, D, None)
    _s4_rest(model, rep)


def _detector_cases(model: Model, rep: Report, f, self_cls, obj_param: Optional[str]):
    """The case analysis of S4 over the function that builds the DETECTOR instruction: the operation's own method (obj_param None: the object is self) or a factory's
    construct that assembles the instruction itself from the operation it is given (obj_param names that parameter)."""
    D = model.cls("DetectorOperation")
    ev = Evaluator(model)
    if obj_param is not None:
        ev.set_type(sym(obj_param), D)
    try:
        outs = [q for q in PathEnumerator(ev).function_paths(f, self_cls=self_cls) if q.exit in ("return", "raise", "fall")]
    except Unsupported as e:
        raise AnalysisError(f"{f.qualname}: {e}")
    s = sym(f.self_name if obj_param is None else obj_param)
    A = {n: ("attr", s, n) for n in ("main_target", "secondary_target", "reference_offset", "secondary_offset", "last_acquisition_index", "qubit_index")}
    atoms = {n: t_cmp("is", A[n], NONE) for n in ("main_target", "secondary_target", "reference_offset", "secondary_offset")}
    one = lin({}, Fraction(1))
    m = t_add(t_add(A["main_target"], A["last_acquisition_index"], -1), one, -1)
    sc = t_add(t_add(A["secondary_target"], A["last_acquisition_index"], -1), one, -1)
    ref = t_scale(A["reference_offset"], Fraction(-1))
    spec = {
        (True, False, False): [m],
        (True, False, True): [m, t_add(m, A["reference_offset"], -1)],
        (True, True, False): [m, sc],
    }
    n = 0
    for has_m, has_s, has_r, has_so in itertools.product((True, False), repeat=4):
        mp = {atoms["main_target"]: const(not has_m), atoms["secondary_target"]: const(not has_s),
              atoms["reference_offset"]: const(not has_r), atoms["secondary_offset"]: const(not has_so)}
        # a guard may also test the VALUE of an optional integer (``if self.secondary_target:``): for a field that is set, both a zero and a non-zero
        # value are possible and the specified instruction does not depend on it -- every truth assignment of such tests is one sub-case
        truthy = {}
        for o in outs:
            c = subst(o.cond, mp)
            for a in atoms_of(c) if c not in (TRUE, FALSE) else []:
                names_ = [k for k, v in A.items() if a == v or a == t_cmp("!=", v, lin({}, Fraction(0))) or a == t_cmp("==", v, lin({}, Fraction(0)))]
                if not names_:
                    raise AnalysisError(f"DetectorOperation.to_stim_instruction: guard not decidable from None-ness: {show(c)}")
                truthy[a] = names_[0]
        has = {"main_target": has_m, "secondary_target": has_s, "reference_offset": has_r, "secondary_offset": has_so}
        free = [a for a, nm in truthy.items() if has.get(nm, True)]
        for a, nm in truthy.items():
            if not has.get(nm, True):
                mp[a] = FALSE if a[0] != "cmp" or a[1] != "==" else FALSE
        for values in itertools.product((TRUE, FALSE), repeat=len(free)):
            mp2 = dict(mp)
            mp2.update(dict(zip(free, values)))
            sub_case = "".join(f", {truthy[a]} {'non-zero' if (v == TRUE) == (a[0] != 'cmp' or a[1] != '==') else '== 0'}" for a, v in zip(free, values))
            _s4_case(rep, f, outs, mp2, has_m, has_s, has_r, has_so, sub_case, A, m, sc, ref, spec)
            n += 1
    rep.analysed["C08.S4 detector cases" + ("" if obj_param is None else f" ({f.qualname})")] = n


def _s4_rest(model: Model, rep: Report):
    one = lin({}, Fraction(1))
    # observable
    L = model.cls("LogicalObservableOperation")
    f = L.resolve("to_stim_instruction")
    outs = Evaluator(model).eval_function(f, self_cls=L)
    s = sym(f.self_name)
    last, main = ("attr", s, "last_acquisition_index"), ("attr", s, "main_target")
    mp = {t_cmp("is", last, NONE): FALSE, t_cmp("is", main, NONE): FALSE}
    hit = [o for o in outs if subst(o.cond, mp) == TRUE]
    ins = _instr(hit[0].value) if len(hit) == 1 and hit[0].kind == "return" else None
    want = [t_add(t_add(main, last, -1), one, -1)]
    ok = ins is not None and ins.get("name") == ("const", "OBSERVABLE_INCLUDE") and _recs(ins.get("targets")) == want and ins.get("gate_args") == ("list", (lin({}, Fraction(0)),))
    rep.check(ok, "C08.S4", "LogicalObservableOperation.to_stim_instruction", f.loc, found=show(hit[0].value) if hit else None, required=f"OBSERVABLE_INCLUDE rec[{show(want[0])}] args [0]",
              what="the logical observable points at another measurement record", detail="observable")
    # coordinate shift
    C = model.cls("CoordinateShiftOperation")
    f = C.resolve("to_stim_instruction")
    v = Evaluator(model).value_of(f, self_cls=C)
    s = sym(f.self_name)
    ins = _instr(v)
    want_args = ("list", (("call", "float", (("attr", s, "space_shift"),), ()), ("call", "float", (("attr", s, "time_shift"),), ())))
    ok = ins is not None and ins.get("name") == ("const", "SHIFT_COORDS") and ins.get("targets") == ("list", ()) and ins.get("gate_args") == want_args
    rep.check(ok, "C08.S4", "CoordinateShiftOperation.to_stim_instruction", f.loc, found=show(v), required="SHIFT_COORDS(float(space_shift), float(time_shift))", what="coordinate shift arguments changed", detail="shift")
