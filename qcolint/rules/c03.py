"""C03 -- answers depend on the circuit, not on what was asked before.

H1  memo soundness: every mutable location that a memoised function (lru_cache / cache / cached_property) transitively
    reads, and that is written outside constructors, must have each of its writers invalidate the memo after the write
    on every normal exit -- unless the writer is in the reviewed exception table (one line of reason each) or the
    write is provably neutral.
H2  observers do not write circuit state (call graph + effect analysis over the public observers).
H3  the temporary global-duration override is scoped: the value restored in ``finally`` is the value read on entry.
H4  dictionary keys used while copying have sound identity (= C05.K4).
"""
from __future__ import annotations

import ast
from typing import Dict, List, Optional, Set, Tuple

from ..effects import Effects, Write
from ..sym import Frame, is_private_helper
from ..model import AnalysisError, ClassInfo, FunctionInfo, Model
from ..paths import Event, Path, PathEnumerator, find_calls
from ..report import Report
from ..resolve import CallGraph
from ..sym import NONE, TRUE, Evaluator, Term, Unsupported, atoms_of, satisfiable, show, subterms, sym, t_and, t_cmp, t_not
from .common import syntactic_callers
from .common import norm_stmt, share_rule

MEMO_DECORATORS = ("lru_cache", "functools.lru_cache", "cache", "functools.cache", "cached_property", "functools.cached_property")

# Writers that act on objects no memoised value can depend on yet.  Keyed by (writer qualname, location attr).
H1_EXCEPTIONS: Dict[Tuple[str, str], str] = {
    # empty today: every writer invalidates itself or calls a function that does (see clearing_functions)
}

# Locations that are process bookkeeping, not circuit state (never influence a reported value).
BOOKKEEPING = {"_id_counter", "counter", "_instances", "_openql_platform"}


def memo_functions(model: Model) -> List[FunctionInfo]:
    out = []
    for f in model.all_functions():
        if any(d in MEMO_DECORATORS for d in f.decorators):
            out.append(f)
    return sorted(out, key=lambda f: f.qualname)


def check(model: Model, rep: Report, tier: str):
    cg = CallGraph(model)
    ef = Effects(model, cg)
    with rep.isolated():
        h1(model, rep, cg, ef)
    with rep.isolated():
        h2(model, rep, cg, ef)
    with rep.isolated():
        h3(model, rep)
    from .c05 import _k4
    with rep.isolated():
        share_rule(rep, model, _k4, "C03.H4", "classes used as dictionary keys while copying are hashable and their generated equality compares all "
                   "instance-distinguishing state (= C05.K4): otherwise reading `operations` before copying / nesting changes the result")
    with rep.isolated():
        h5(model, rep, cg)
    with rep.isolated():
        h6(model, rep, cg)
    with rep.isolated():
        h8(model, rep, cg)
    with rep.isolated():
        h10(model, rep)
    from .c01 import r7 as _r7
    from .common import share_rule as _share7
    with rep.isolated():
        _share7(rep, model, _r7, "C03.H11", "a listing does not change what is listed: decomposed_operations hands the block's relation to a head BEFORE that head is decomposed "
                "(= C01.R7) -- otherwise the first listing reports other times than the second")
    from .c04 import duration_rule
    with rep.isolated():
        share_rule(rep, model, duration_rule, "C03.H9", "the duration of a block is the span of its operations whatever frame their times are reported in: listing a circuit hands "
                   "nested blocks their link, after which their operations report absolute instead of block-relative times -- a span computed from a fixed origin (0) instead of "
                   "the earliest start gives a different duration after the listing was read (= C04.D1/D2)")
    with rep.isolated():
        h7(model, rep, cg, ef, keep=lambda f: "/structure/" in f.module.relpath.replace("\\", "/") or "/language/" in f.module.relpath.replace("\\", "/"))
    rep.analysed["call graph"] = dict(cg.res.stats)


# ---------------------------------------------------------------------------------------------
def unique_identifier(model: Model, C: ClassInfo) -> Tuple[bool, str]:
    """Does every instance of dataclass ``C`` carry a compared field fed by a class counter that __post_init__ advances
    unconditionally (so that two instances are never equal)?"""
    why = "no compared field is fed by an instance counter"
    for n, fi in C.all_fields().items():
        if not (fi.compare and fi.default_factory is not None):
            continue
        from .common import factory_counter
        fc = factory_counter(model, fi.owner.module, fi.default_factory)
        if fc is None:
            continue
        cname, counter = fc
        post = None
        for k in C.mro():
            if "__post_init__" in k.methods:
                post = k.methods["__post_init__"][0]
                break
        if post is None:
            why = "no __post_init__ increments the counter"
            continue
        from .common import counter_incremented
        if counter_incremented(model, post, cname, counter):
            return True, n
        why = f"{post.qualname} does not increment {cname}.{counter} unconditionally"
    return False, why


def h10(model: Model, rep: Report, rule: str = "C03.H10"):
    """The node of an operation is found by identity."""
    rep.rule(rule, "CircuitGraphBranch.get_corresponding_node(operation) answers with the node whose operation IS the given object (`is`), searched over all nodes: operations and "
                   "sub-circuits compare by value, and listing a circuit hands sibling blocks the same link object -- a search by `==` / `in` / `index` then answers with the twin "
                   "block's node, so what happens to a relation depends on whether the circuit was looked at before")
    K = model.cls("CircuitGraphBranch")
    f = K.resolve("get_corresponding_node")
    if f is None:
        raise AnalysisError("CircuitGraphBranch.get_corresponding_node vanished")
    op = sym([p_ for p_ in f.param_names if p_ != f.self_name][0])
    ev = Evaluator(model, inline_methods=False)
    try:
        ps = PathEnumerator(ev).function_paths(f, self_cls=K)
    except Unsupported as e:
        raise AnalysisError(f"get_corresponding_node: {e}")
    construct = "CircuitGraphBranch.get_corresponding_node"
    tests = []
    for p in ps:
        for e in p.events:
            if e.kind == "loop":
                for bp in e.extra["paths"]:
                    tests.extend(atoms_of(bp.cond))
        tests.extend(atoms_of(p.cond))
        if p.value is not None:
            tests.extend(a for a in subterms(p.value, lambda y: y[0] in ("in", "eq", "same")))
    about_op = [a for a in tests if subterms(a, lambda y: y == op)]
    by_value = [a for a in about_op if a[0] in ("eq", "in") or (a[0] == "call" and isinstance(a[1], tuple) and a[1][0] == "attr" and a[1][2] in ("index", "__eq__", "count"))]
    by_identity = [a for a in about_op if a[0] == "same"]
    calls_index = any(find_calls(t_, "index") for p in ps for t_ in ([p.value] if p.value is not None else []) + [e.term for e in p.events if e.term is not None])
    if not about_op and not calls_index:
        raise AnalysisError("get_corresponding_node: no test on the given operation found (shape not read)")
    bad = bool(by_value) or calls_index
    rep.check(not bad and bool(by_identity), rule, construct, f.loc, found=("; ".join(sorted({show(a)[:80] for a in by_value})) or ("list.index(..) (equality)" if calls_index else "")) if bad else
              "; ".join(sorted({show(a)[:80] for a in by_identity})), required="operation is node.operation",
              what="the node of an operation is searched by value equality: two blocks that compare equal (same link object after a listing, equal repetition strategy) answer "
                   "for each other, so a relation to the second block is attached to the first", detail="by-value")


# Functions that key a table by circuit operations and have been read: the copy machinery (its exposure to value-equal sub-circuits is the recorded finding H4 / C05.K4)
# and two sites whose keys are leaf operations of one listing.
OPERATION_KEYED_TABLES = {
    "DeclarativeCircuit.add_sub_circuit": "lookup {sub-structure: parent structure} handed to copy()",
    "circuit_modifiers.replace_operation": "position lookup inside one listing",
    "RelationLink.copy": "relation transfer lookup",
    "MultiRelationLink.copy": "relation transfer lookup",
    "CircuitCompositeOperation.copy": "relation / strategy transfer lookup",
    "RegistryAcquisitionStrategy.copy": "strategy transfer lookup",
    "SpaceSharedOperations.divide": "leaf two-qubit operations of one drawing",
}


def h8(model: Model, rep: Report, cg: CallGraph, rule: str = "C03.H8"):
    """Tables keyed by sub-circuits exist only where they were read."""
    rep.rule(rule, "no function other than the reviewed ones keys a dictionary (subscript, get / setdefault / pop, display key) by an expression whose static type admits a "
                   "sub-circuit (ICircuitOperation and below): sub-circuits compare by value without their graph (H4 / C05.K4), and listing a circuit makes sibling blocks equal, "
                   "so such a table answers for the wrong block once the circuit has been looked at")
    ico = model.cls("ICircuitOperation")
    comp = model.cls("ICircuitCompositeOperation")

    def admits_composite(t) -> bool:
        if t is None or t.cls is None or t.is_class_obj:
            return False
        c = t.cls
        return c.is_subclass_of(comp) or comp.is_subclass_of(c) and c.is_subclass_of(ico) or c is ico
    n = 0
    for f in model.all_functions():
        env = cg.env(f)
        for x in ast.walk(f.node):
            keys = []
            if isinstance(x, ast.Subscript) and not isinstance(x.slice, ast.Slice):
                keys.append(x.slice)
            elif isinstance(x, ast.Call) and isinstance(x.func, ast.Attribute) and x.func.attr in ("get", "setdefault", "pop") and x.args:
                keys.append(x.args[0])
            elif isinstance(x, ast.Dict):
                keys.extend(k for k in x.keys if k is not None)
            elif isinstance(x, ast.DictComp):
                keys.append(x.key)
            for k in keys:
                try:
                    t = env.type_of(k)
                except Exception:
                    t = None
                if not admits_composite(t):
                    continue
                n += 1
                owner = f.qualname
                ok = owner in OPERATION_KEYED_TABLES
                if not ok and is_private_helper(f):
                    # a helper split off a reviewed function is part of it
                    callers, work, seen_c = [], [f], set()
                    while work:
                        g = work.pop()
                        for c in syntactic_callers(model, g):
                            if c in seen_c:
                                continue
                            seen_c.add(c)
                            (work if is_private_helper(c) else callers).append(c)
                    ok = bool(callers) and all(c.qualname in OPERATION_KEYED_TABLES for c in callers)
                rep.check(ok, rule, f"{owner}[table keyed by {ast.unparse(k)[:40]}]", f"{f.module.relpath}:{x.lineno}", found=f"key of static type {t.cls.name}",
                          required="only the reviewed tables: " + ", ".join(sorted(OPERATION_KEYED_TABLES)),
                          what=f"{owner} keys a table by circuit operations that may be sub-circuits: two different sub-circuits compare and hash equal once a listing has handed them "
                               "the same link (H4), so the table returns the entry of the other block -- the answer depends on whether the circuit was listed before", detail="keyed-table")
    rep.floor(f"{rule} tables keyed by operations", n, 4)


def h7(model: Model, rep: Report, cg: CallGraph, ef: Effects, rule: str = "C03.H7", keep=None):
    """A value derived from state that can change later must not be computed once in a constructor and kept."""
    rep.rule(rule, "no constructor (__init__ / __post_init__) stores on the object a value COMPUTED from locations that are written outside constructors (durations, "
                   "links, graphs, registries -- the catalogue of H1): such a field is a memo that nothing invalidates, and an observer that reads it reports the state "
                   "of construction time")
    cat = catalogue(model, ef)
    mutable: Dict[str, List[Write]] = {}
    for w in cat:
        if w.attr in BOOKKEEPING or w.attr.startswith("<param"):
            continue
        mutable.setdefault(w.attr, []).append(w)
    n = 0
    for c in model.all_classes():
        for iname in ("__init__", "__post_init__"):
            for f in c.methods.get(iname, []):
                if keep is not None and not keep(f):
                    continue
                sn = f.self_name
                stores = []
                for x in ast.walk(f.node):
                    if isinstance(x, (ast.Assign, ast.AnnAssign)) and x.value is not None:
                        for t in (x.targets if isinstance(x, ast.Assign) else [x.target]):
                            if isinstance(t, ast.Attribute) and isinstance(t.value, ast.Name) and t.value.id == sn:
                                stores.append((t.attr, x.value, x))
                    if isinstance(x, ast.Call) and ast.unparse(x.func).endswith("__setattr__") and len(x.args) >= 3 and isinstance(x.args[1], ast.Constant):
                        stores.append((x.args[1].value, x.args[2], x))
                # what a local name of the constructor is computed from (flow-insensitive): its right-hand sides, the iterables it ranges over and the
                # tests that decide whether it is assigned
                local_defs: Dict[str, List[ast.AST]] = {}

                def _note(name, *exprs):
                    local_defs.setdefault(name, []).extend(e_ for e_ in exprs if e_ is not None)

                def _scan(stmts, tests):
                    for st_ in stmts:
                        if isinstance(st_, (ast.Assign, ast.AnnAssign, ast.AugAssign)) and getattr(st_, "value", None) is not None:
                            for t_ in (st_.targets if isinstance(st_, ast.Assign) else [st_.target]):
                                for nm_ in ast.walk(t_):
                                    if isinstance(nm_, ast.Name):
                                        _note(nm_.id, st_.value, *tests)
                        elif isinstance(st_, ast.For):
                            for nm_ in ast.walk(st_.target):
                                if isinstance(nm_, ast.Name):
                                    _note(nm_.id, st_.iter, *tests)
                            _scan(st_.body, tests + [st_.iter])
                            _scan(st_.orelse, tests)
                        elif isinstance(st_, (ast.If, ast.While)):
                            _scan(st_.body, tests + [st_.test])
                            _scan(st_.orelse, tests + [st_.test])
                        elif isinstance(st_, ast.With):
                            _scan(st_.body, tests)
                        elif isinstance(st_, ast.Try):
                            _scan(st_.body, tests)
                            for h_ in st_.handlers:
                                _scan(h_.body, tests)
                            _scan(st_.orelse, tests)
                            _scan(st_.finalbody, tests)
                _scan(f.node.body, [])

                def _expanded(val_):
                    out_, seen_, work_ = [val_], set(), [val_]
                    while work_:
                        e_ = work_.pop()
                        for nm_ in ast.walk(e_):
                            if isinstance(nm_, ast.Name) and isinstance(nm_.ctx, ast.Load) and nm_.id in local_defs and nm_.id not in seen_:
                                seen_.add(nm_.id)
                                out_.extend(local_defs[nm_.id])
                                work_.extend(local_defs[nm_.id])
                    return out_
                for attr, val0, stmt in stores:
                    exprs = _expanded(val0)
                    val = ast.Tuple(elts=list(exprs), ctx=ast.Load())
                    # functions the stored expression runs
                    callees = []
                    for cs in cg.call_sites(f):
                        if any(cs.node is y for y in ast.walk(val)):
                            callees.extend(cs.callees)
                    def hits_of(fns) -> List[str]:
                        reach_ = cg.reachable(fns)
                        names_, detail_ = _reads_of(cg, reach_)
                        return [a for a, ws in mutable.items() if a in names_ and any(_related(cl, w.owner) for _, cl in detail_[a] for w in ws)]
                    # attribute reads whose receiver is not typed (a lambda parameter, an element of a list): the accessor is any property of that name --
                    # counted only when EVERY property of that name in the package depends on mutable state (then the receiver's class does not matter)
                    by_name: List[str] = []
                    resolved_nodes = {id(cs.node) for cs in cg.call_sites(f)}
                    for y in ast.walk(val):
                        if isinstance(y, ast.Attribute) and isinstance(y.ctx, ast.Load) and id(y) not in resolved_nodes:
                            cands = [k.properties[y.attr] for k in model.all_classes() if y.attr in k.properties and "abstractmethod" not in k.properties[y.attr].decorators]
                            if cands and all(hits_of([g_]) for g_ in cands):
                                by_name.append(y.attr)
                                callees.extend(cands)
                    if not callees:
                        continue
                    n += 1
                    hits = hits_of(callees)
                    # is the stored field read outside constructors?
                    read_later = any(isinstance(y, ast.Attribute) and y.attr == attr and isinstance(y.ctx, ast.Load)
                                     for k in c.mro() for gs in k.methods.values() for g in gs if g.name not in ("__init__", "__post_init__") for y in ast.walk(g.node)) or \
                        any(isinstance(y, ast.Attribute) and y.attr == attr and isinstance(y.ctx, ast.Load) for k in c.mro() for g in k.properties.values() for y in ast.walk(g.node))
                    bad = bool(hits) and read_later
                    rep.check(not bad, rule, f"{c.name}.{attr}[computed in {iname}]", f"{f.module.relpath}:{stmt.lineno}",
                              found=f"{ast.unparse(val0)[:80]} reads {sorted(hits)[:6]} (changed later by {sorted({w.fn.qualname for a in hits for w in mutable[a]})[:3]})" if bad else
                              f"{ast.unparse(val0)[:80]}: depends on nothing that is written outside constructors" + ("" if read_later else " (field never read)"),
                              required="computed when it is read, or from construction-time constants only",
                              what=f"{c.name}.{attr} is computed once at construction from {sorted(hits)[:4]}, which change afterwards ({sorted({w.fn.qualname for a in hits for w in mutable[a]})[:2]}): "
                                   "what is read from it later is the state of construction time", detail=f"frozen:{attr}")
    rep.analysed[f"{rule} constructor stores with computed values"] = n


def h6(model: Model, rep: Report, cg: CallGraph, keep=None, rule: str = "C03.H6"):
    rep.rule(rule, "a container handed out by a getter and then changed in place by the caller (append / extend / += / item assignment ...) is a fresh object: "
                   "the getter builds a new container on every call and is not memoised -- otherwise a read-only accessor rewrites the provider's state "
                   "(decided where the caller is itself a getter, or the provider is memoised)")
    from ..alias import mutated_handouts
    hs = mutated_handouts(model, cg)
    n = 0
    for h in hs:
        if keep is not None and not keep(h):
            continue
        n += 1
        bad = [(g, why) for g, ok, why in h.providers if not ok]
        observer_site = h.site.kind == "property" or any("cached_property" in d for d in h.site.decorators)
        memoised = [g for g, ok, why in h.providers if any(d.split(".")[-1] in ("lru_cache", "cache", "cached_property") for d in g.decorators)]
        construct = f"{h.site.qualname}[{h.name} <- {ast.unparse(h.bind)[:50]}]"
        if bad and not (observer_site or memoised):
            rep.ok(rule, construct, h.loc, found=f"changes stored state of the provider from a non-observer: {bad[0][1]}", required="fresh hand-out where an observer changes it",
                   note="a state change through a getter inside a mutator is not an observation; other rules decide its effect")
            continue
        rep.check(not bad, rule, construct, h.loc, found="; ".join(f"{g.qualname}: {why}" for g, ok, why in h.providers) if not bad else bad[0][1],
                  required="every provider returns a new container on every call",
                  what=f"{h.site.qualname} changes in place ({norm_stmt(_enclosing_stmt(h.site.node, h.mutation))[:70]}) a container that {bad[0][0].qualname if bad else '?'} "
                       f"hands out without copying: the provider's state grows with every read and later readers see the additions" if bad else "",
                  detail=f"handout:{h.site.name}:{h.name}")
    rep.analysed[f"{rule} in-place changes of handed-out containers"] = n


PRIMITIVES = {"int", "float", "str", "bool", "bytes", "complex", "None"}


def h5(model: Model, rep: Report, cg: CallGraph):
    rep.rule("C03.H5", "the key of every keyed memo (lru_cache / cache) separates receivers whose results can differ: each class in the key compares "
                       "by identity, or carries a compared counter-fed identifier, or compares (recursively through its compared fields) every "
                       "field the memoised computation reads on it")
    from .c05 import eq_kind, hash_kind
    memos = [f for f in memo_functions(model) if not any("cached_property" in d for d in f.decorators)]
    rep.floor("keyed memo functions", len(memos), 2)
    for M in memos:
        reach = cg.reachable([M])
        # certain reads: attribute loads whose static receiver class is known
        reads: Dict[ClassInfo, Set[str]] = {}
        unknown: Set[str] = set()
        for f in reach:
            env = cg.env(f)
            for n in ast.walk(f.node):
                if isinstance(n, ast.Attribute) and isinstance(n.ctx, ast.Load):
                    t = env.type_of(n.value)
                    if t is not None and t.cls is not None and not t.is_class_obj:
                        reads.setdefault(t.cls, set()).add(n.attr)
                    elif t is None:
                        unknown.add(n.attr)

        def reads_on(X: ClassInfo) -> Set[str]:
            out: Set[str] = set()
            for c, names in reads.items():
                if c.is_subclass_of(X) or X.is_subclass_of(c):
                    out |= names
            return out

        key_classes: List[Tuple[ClassInfo, str]] = []
        if M.cls is not None:
            for X in [M.cls] + model.subclasses(M.cls):
                if X.resolve(M.name) is M:
                    key_classes.append((X, "self"))
        for prm in M.params:
            if prm.arg == M.self_name:
                continue
            t = cg.res.ann(prm.annotation, M.module)
            if t is not None and t.cls is not None:
                for X in [t.cls] + model.subclasses(t.cls):
                    key_classes.append((X, prm.arg))
            elif prm.annotation is not None and ast.unparse(prm.annotation) not in PRIMITIVES:
                raise AnalysisError(f"C03.H5: key parameter {prm.arg}: {ast.unparse(prm.annotation)} of {M.qualname} is not understood")

        for X0, via in key_classes:
            trail: List[str] = []
            verdict: List[Tuple[bool, str]] = []
            seen: Set[ClassInfo] = set()

            def decide(X: ClassInfo, path: str) -> Optional[str]:
                """None when the key separates instances of X as far as M reads them; else the uncovered read."""
                if X in seen:
                    return None
                seen.add(X)
                if X.is_subclass_of("Enum") or X.is_subclass_of("IntEnum") or X.is_subclass_of("Flag"):
                    return None
                ek = eq_kind(X)
                if ek == "identity":
                    trail.append(f"{path}:{X.name} by identity")
                    return None
                if ek == "explicit":
                    # a hand-written __eq__: what it compares is what it (and the accessors it goes through) reads on self
                    eqf = X.resolve("__eq__")
                    hashf = X.resolve("__hash__")
                    if eqf is None or hashf is None:
                        raise AnalysisError(f"C03.H5: {X.name} (in the key of {M.qualname} through {path}): __eq__ / __hash__ not found")
                    compared: Set[str] = set()
                    work = [eqf]
                    seen_f = set()
                    while work:
                        g = work.pop()
                        if g in seen_f:
                            continue
                        seen_f.add(g)
                        for n_ in ast.walk(g.node):
                            if isinstance(n_, ast.Attribute) and isinstance(n_.value, ast.Name) and n_.value.id == g.self_name:
                                compared.add(n_.attr)
                                acc = X.resolve(n_.attr)
                                if acc is not None and acc.kind == "property":
                                    work.append(acc)
                    flds = X.all_fields()
                    stored = set(flds) | set(cg.res.init_attrs(X))
                    for a in sorted(reads_on(X)):
                        if a in stored and a not in compared:
                            return f"{X.name}.{a} is read (through {path}) but the hand-written {X.name}.__eq__ does not look at it"
                    trail.append(f"{path}:{X.name} __eq__ reads {sorted(compared & stored)}")
                    return None
                has_id, idw = unique_identifier(model, X)
                if has_id:
                    trail.append(f"{path}:{X.name} unique by '{idw}'")
                    return None
                flds = X.all_fields()
                rd = reads_on(X)
                for a in sorted(rd):
                    fi = flds.get(a)
                    if fi is None or fi.is_classvar:
                        continue
                    if not fi.compare:
                        return f"{X.name}.{a} is read (through {path}) but excluded from comparison, and {X.name} has no compared unique identifier ({idw})"
                for a in sorted(rd):
                    fi = flds.get(a)
                    if fi is None or fi.is_classvar or not fi.compare:
                        continue
                    t = cg.res.ann(fi.annotation, fi.owner.module)
                    while t is not None and t.cls is None and t.elem is not None:
                        t = t.elem
                    if t is None or t.cls is None:
                        continue
                    subs = [t.cls] + model.subclasses(t.cls)
                    for Y in subs:
                        r = decide(Y, f"{path}.{a}")
                        if r is not None:
                            return r
                trail.append(f"{path}:{X.name} compares what is read")
                return None

            bad = decide(X0, via)
            rep.check(bad is None, "C03.H5", f"{M.qualname}[key {via}: {X0.name}]", M.loc, found=bad or "; ".join(trail[:6]),
                      required="instances with different results never share a cache key",
                      what=f"two different {X0.name} objects compare and hash equal, so {M.qualname} returns the value memoised for the other one: {bad}",
                      detail=f"key:{via}:{X0.name}")
    # hash present at all (an unhashable key raises at the first call)
    rep.analysed["C03.H5 memo functions"] = [m.qualname for m in memos]


# ---------------------------------------------------------------------------------------------
def _reads_of(cg: CallGraph, fns: List[FunctionInfo]) -> Tuple[Set[str], Dict[str, List[Tuple[FunctionInfo, Optional[ClassInfo]]]]]:
    """Attribute names loaded (with the static receiver class when known) in the given functions."""
    names: Set[str] = set()
    detail: Dict[str, List[Tuple[FunctionInfo, Optional[ClassInfo]]]] = {}
    for f in fns:
        env = cg.env(f)
        for n in ast.walk(f.node):
            if isinstance(n, ast.Attribute) and isinstance(n.ctx, ast.Load):
                t = env.type_of(n.value)
                names.add(n.attr)
                detail.setdefault(n.attr, []).append((f, t.cls if t is not None else None))
    return names, detail


def _related(a: Optional[ClassInfo], b: Optional[ClassInfo]) -> bool:
    if a is None or b is None:
        return True
    return a.is_subclass_of(b) or b.is_subclass_of(a)


def catalogue(model: Model, ef: Effects) -> List[Write]:
    """Writes to existing objects outside constructors and property setters (setter writes count at their call sites)."""
    out = []
    for f in model.all_functions():
        if f.name in ("__init__", "__post_init__", "__new__") or f.kind == "setter":
            continue
        for w in ef.direct_writes(f):
            if w.receiver == "fresh":
                continue
            out.append(w)
    return out


def _direct_clear(term: Term, target: Term) -> bool:
    for c in find_calls(term, "cache_clear"):
        if isinstance(c[1], tuple) and c[1][0] == "attr" and c[1][1] == target:
            return True
    for c in find_calls(term, "clear_lru_cache"):
        given = list(c[2]) + [v for _, v in c[3]]
        if given and given[0] == target:
            return True
    return False


def _calls_clearing(ev: Evaluator, term: Term, clearing: List[FunctionInfo], exclude: Optional[FunctionInfo] = None) -> bool:
    for cf in clearing:
        if cf is exclude:
            continue
        for c in find_calls(term, cf.name):
            f0 = c[1]
            if isinstance(f0, tuple) and f0[0] == "attr":
                rc = ev.type_of(f0[1])
                if rc is None or cf.cls is None or rc.is_subclass_of(cf.cls) or cf.cls.is_subclass_of(rc):
                    return True
            elif isinstance(f0, tuple) and f0[0] == "fn" and f0[1] == cf.qualname:
                return True
    return False


def _with_of_manager(ev: Evaluator, e: Event, mfns: List[FunctionInfo], mclasses: List[ClassInfo], exclude: Optional[FunctionInfo] = None) -> bool:
    """``with M():`` where M is one of the exit-clearing context managers"""
    if e.kind != "with" or e.term is None:
        return False
    if _calls_clearing(ev, e.term, mfns, exclude=exclude):
        return True
    for c in mclasses:
        if subterms(e.term, lambda y, c=c: (y[0] == "new" and y[1] == c.name) or (y[0] == "call" and y[1] == ("cls", c.name))):
            return True
    return False


def _clearing_analysis(model: Model, memo: FunctionInfo):
    """Joint fixed point of (a) package functions on whose every normal exit ``memo`` has been cleared -- directly, through a call of another clearing
    function, or because a ``with`` block of an exit-clearing context manager completed -- and (b) the exit-clearing context managers: generator functions
    under @contextmanager whose every path clears after the yield, and classes whose ``__exit__`` clears on every path compatible with 'no exception'."""
    cache = model.__dict__.setdefault("_clearing_cache", {})    # per model object (never keyed by id(): worker processes analyse many trees)
    key = memo.qualname
    if key in cache:
        return cache[key]
    target = ("fn", memo.qualname)
    out: List[FunctionInfo] = []
    mfns: List[FunctionInfo] = []
    mclasses: List[ClassInfo] = []
    analysed: Dict[FunctionInfo, Tuple[Evaluator, List[Path]]] = {}

    def paths_of(f):
        if f not in analysed:
            ev = Evaluator(model, inline_methods=False)
            try:
                analysed[f] = (ev, PathEnumerator(ev).function_paths(f, self_cls=f.cls))
            except Unsupported:
                analysed[f] = (ev, None)
        return analysed[f]

    def mentions(f) -> bool:
        src = ast.unparse(f.node)
        names = {g.name for g in out} | {g.name for g in mfns} | {c.name for c in mclasses}
        return "cache_clear" in src or "clear_lru_cache" in src or any((n + "(") in src for n in names)

    def clears(ev, e, exclude=None) -> bool:
        return e.kind in ("effect", "with") and e.term is not None and (_direct_clear(e.term, target) or _calls_clearing(ev, e.term, out, exclude=exclude))

    def path_clears(ev, p, exclude=None) -> bool:
        """some event of the path clears; a ``with`` of an exit-clearing manager counts once its block is left (the path is a normal one)"""
        for e in p.events:
            if clears(ev, e, exclude) or _with_of_manager(ev, e, mfns, mclasses, exclude):
                return True
        return False
    for _round in range(5):
        grew = False
        for f in model.all_functions():
            is_cm = any(d in ("contextlib.contextmanager", "contextmanager") for d in f.decorators)
            if f is memo or f in out or f in mfns:
                continue
            if not mentions(f):
                continue
            ev, ps = paths_of(f)
            if ps is None:
                continue
            normal = [p for p in ps if p.exit in ("return", "fall")]
            if not normal:
                continue
            if is_cm:
                ok = True
                for p in normal:
                    ys = [i for i, e in enumerate(p.events) if e.kind == "yield"]
                    if len(ys) != 1 or not path_clears(ev, Path(p.cond, p.events[ys[0] + 1:], p.env), exclude=f):
                        ok = False
                if ok:
                    mfns.append(f)
                    grew = True
                continue
            if f.name == "__exit__" and f.cls is not None and "__enter__" in f.cls.methods:
                if f.cls in mclasses:
                    continue
                params = [p_ for p_ in f.param_names if p_ != f.self_name]
                no_exc = {t_cmp("is", sym(params[0]), NONE): TRUE} if params else {}
                from ..sym import FALSE as _F, subst as _subst
                relevant = [p for p in normal if _subst(p.cond, no_exc) != _F]
                if relevant and all(path_clears(ev, p, exclude=f) for p in relevant):
                    mclasses.append(f.cls)
                    grew = True
                continue
            if all(path_clears(ev, p, exclude=f) for p in normal):
                out.append(f)
                grew = True
        if not grew:
            break
    cache[key] = (out, mfns, mclasses)
    return cache[key]


def clearing_functions(model: Model, memo: FunctionInfo) -> List[FunctionInfo]:
    return _clearing_analysis(model, memo)[0]


def exit_clearing_managers(model: Model, memo: FunctionInfo) -> Tuple[List[FunctionInfo], List[ClassInfo]]:
    a = _clearing_analysis(model, memo)
    return a[1], a[2]


def clears_after_or_neutral(model: Model, writer: FunctionInfo, node: ast.AST, memo: FunctionInfo) -> Tuple[bool, str]:
    """On every normal exit of ``writer`` reached through the statement ``node`` (a write, or a call that writes), has
    ``memo`` been cleared afterwards?  A relation_link store that replaces 'no reference' by 'no reference' is neutral.
    Events are scanned with a three-valued state (no write yet / dirty / clean); loop bodies are scanned per body path and
    leave the state dirty when some body path ends dirty."""
    ev = Evaluator(model, inline_methods=False)
    try:
        paths = PathEnumerator(ev).function_paths(writer, self_cls=writer.cls)
    except Unsupported as e:
        raise AnalysisError(f"{writer.qualname}: {e}")
    target = ("fn", memo.qualname)
    clearing = clearing_functions(model, memo)
    seen = [0]

    def is_clear(e: Event) -> bool:
        if e.kind not in ("effect", "with") or e.term is None:
            return False
        if _direct_clear(e.term, target):
            return True
        return _calls_clearing(ev, e.term, clearing, exclude=writer)

    def neutral(e: Event, cond: Term) -> bool:
        if e.kind != "store" or e.term[2] != "relation_link":
            return False
        val, tgt = e.term[3], e.term[1]
        val_noref = t_cmp("is", ("attr", val, "reference_node"), NONE)
        tgt_noref = t_cmp("is", ("attr", ("attr", tgt, "relation_link"), "reference_node"), NONE)
        try:
            return (not satisfiable(t_and(cond, t_not(val_noref)), ev.enum_members)
                    and not satisfiable(t_and(cond, t_not(tgt_noref)), ev.enum_members))
        except Unsupported:
            return False

    def pos(n):
        return (getattr(n, "lineno", None), getattr(n, "col_offset", None), getattr(n, "end_lineno", None), getattr(n, "end_col_offset", None))

    def is_node(n) -> bool:
        # the statement itself, or a statement the syntax normaliser derived from it (derived nodes carry the position of their source)
        return n is node or (pos(n) == pos(node) and pos(n)[0] is not None)

    def inside_node(n) -> bool:
        """``n`` is a call written inside the statement (``return self._helper(<the writing call>)``: the argument is evaluated before the helper is entered)"""
        a, b = pos(n), pos(node)
        if None in a or None in b:
            return False
        return (b[0], b[1]) <= (a[0], a[1]) and (a[2], a[3]) <= (b[2], b[3])

    exit_fns, exit_classes = exit_clearing_managers(model, memo)

    def exit_clears(e: Event) -> bool:
        """``with M():`` where M clears the memo when its block completes"""
        return _with_of_manager(ev, e, exit_fns, exit_classes, exclude=writer)
    with_stack: List[bool] = []

    def scan(p: Path, cond: Term, state: str, in_with: int) -> str:
        cond = t_and(cond, p.cond)
        for e in p.events:
            if e.kind == "with":
                with_stack.append(exit_clears(e))
            elif e.kind == "endwith" and with_stack:
                if with_stack.pop() and state == "dirty":
                    state = "clean"   # the block of an exit-clearing context manager completed
            if is_node(e.node) and e.kind in ("store", "effect", "aug"):
                seen[0] += 1
                if not neutral(e, cond):
                    state = "dirty"
            elif e.kind == "enter-local" and e.node is not None and inside_node(e.node):
                # the statement hands the result of the writing call to a helper that is read in place: the write happened before the helper starts
                seen[0] += 1
                state = "dirty"
                # the same statement may also be a clearing call (x = f() where f clears): handled below
            if is_clear(e) and not is_node(e.node):
                if e.kind == "with":
                    in_with += 1
                if state == "dirty":
                    state = "clean"
            elif e.kind == "endwith" and in_with > 0:
                in_with -= 1
                if state == "dirty":
                    state = "clean"   # leaving `with clear_lru_cache(M)` clears again
            if e.kind == "yield" and state == "dirty":
                state = "dirty-at-yield"   # a context manager hands control to its block with the memo stale
                return state
            if e.kind == "loop":
                ends = [scan(bp, cond, "none", 0) for bp in e.extra["paths"] if bp.exit != "raise"]
                if "dirty" in ends:
                    state = "dirty"
                elif "clean" in ends and state == "none":
                    state = "clean"
        return state

    for p in paths:
        if p.exit == "raise":
            continue
        st = scan(p, TRUE, "none", 0)
        if st == "dirty-at-yield":
            return False, f"no {memo.qualname}.cache_clear() between it and the yield (the managed block runs on stale values)"
        if st == "dirty":
            return False, f"no {memo.qualname}.cache_clear() after it on the path [{show(p.cond)}]"
    if seen[0] == 0:
        # the statement sits in a function defined inside the writer (a local generator / callback that runs when its result is consumed): its place on the
        # writer's paths is not modelled -- no verdict
        for d_ in ast.walk(writer.node):
            if isinstance(d_, (ast.FunctionDef, ast.Lambda)) and d_ is not writer.node and any(x_ is node for x_ in ast.walk(d_)):
                raise AnalysisError(f"{writer.qualname}: the write `{norm_stmt(node)[:60]}` happens inside the nested function "
                                    f"'{getattr(d_, 'name', '<lambda>')}' (runs when its result is consumed): whether the memo is cleared after it is not read")
        return False, "the statement was not found on any analysed path"
    return True, ""


def h1(model: Model, rep: Report, cg: CallGraph, ef: Effects):
    rep.rule("C03.H1", "for each memoised function M: every location M transitively reads that is written outside constructors must be "
                       "invalidated by each writer (M.cache_clear() / clear_lru_cache(M) after the write on every normal exit), unless the "
                       "writer is in the reviewed exception table or the write is neutral (no-reference link replaced by a no-reference link)")
    memos = memo_functions(model)
    rep.floor("memoised functions", len(memos), 2)
    cat = catalogue(model, ef)
    rep.analysed["C03 mutable locations (writes outside constructors)"] = sorted({".".join(w.key()) for w in cat})
    graph_mod = model.module("intrf_graph_structure")
    graph_classes = set(graph_mod.classes.values()) | {model.cls("CircuitGraphBranch"), model.cls("OperationGraphNode")}
    n_ob = 0
    for M in memos:
        reach = cg.reachable([M])
        names, detail = _reads_of(cg, reach)
        reach_set = set(reach)
        for w in cat:
            if w.attr in BOOKKEEPING or w.attr.startswith("<param"):
                continue
            # is the location read by M's closure?
            read = False
            if w.attr in names:
                read = any(_related(c, w.owner) for _, c in detail[w.attr])
            if not read and w.owner is not None:
                # rebinding of a method: read when that method is reachable
                m = w.owner.resolve(w.attr)
                if m is not None and m in reach_set:
                    read = True
            if not read:
                continue
            writer = w.fn
            if writer.cls in graph_classes:
                # graph internals are only reachable through the composite's public mutators (C02.L4 who-may-call);
                # the obligation is attributed to those mutators (they write / rebuild _circuit_graph)
                continue
            n_ob += 1
            construct = f"{writer.qualname}[writes {w.attr} read by {M.qualname}]"
            exc = H1_EXCEPTIONS.get((writer.qualname, w.attr))
            if exc is not None:
                rep.ok("C03.H1", construct, w.loc, found="reviewed exception", required="invalidate or exempt", note=exc)
                continue
            ok, why = clears_after_or_neutral(model, writer, w.node, M)
            if not ok and is_private_helper(writer):
                # the write sits in a helper (``_name`` or a name that did not exist when the rules were written): the helper's statements are part of its callers, where the
                # guards around the call and the invalidation after it are visible -- decide there (every caller must be fine)
                from .common import syntactic_callers
                callers, work, seen_c = [], [writer], set()
                while work:
                    g = work.pop()
                    for c in syntactic_callers(model, g):
                        if c in seen_c:
                            continue
                        seen_c.add(c)
                        (work if is_private_helper(c) else callers).append(c)
                if callers:
                    verdicts = [clears_after_or_neutral(model, c, w.node, M) for c in callers]
                    if all(v[0] for v in verdicts):
                        ok, why = True, ""
                    else:
                        why = "; ".join(f"in {c.qualname}: {v[1]}" for c, v in zip(callers, verdicts) if not v[0])
            rep.check(ok, "C03.H1", construct, w.loc, found=norm_stmt(w.node) + ("" if ok else f" -- {why}"), required=f"{M.qualname}.cache_clear() after the write on every normal exit",
                      what=f"a value memoised by {M.qualname} survives this change of '{w.attr}': times reported afterwards are stale ({why})",
                      detail=f"{w.attr}")
    # graph-class functions that write such locations: every caller outside the graph classes must invalidate after the call
    n_call = 0
    for M in memos:
        reach = cg.reachable([M])
        names, detail = _reads_of(cg, reach)
        dirty_fns: Set[FunctionInfo] = set()
        for w in cat:
            if w.fn.cls in graph_classes and w.attr in names and w.attr not in BOOKKEEPING and any(_related(c, w.owner) for _, c in detail[w.attr]):
                dirty_fns.add(w.fn)
        # close under callers inside the graph classes
        changed = True
        while changed:
            changed = False
            for f in model.all_functions():
                if f.cls in graph_classes and f not in dirty_fns and f.name not in ("__init__", "__post_init__"):
                    if any(c in dirty_fns for cs in cg.call_sites(f) for c in cs.callees):
                        dirty_fns.add(f)
                        changed = True
        for f in model.all_functions():
            if f.cls in graph_classes or f.name in ("__init__", "__post_init__"):
                continue
            for cs in cg.call_sites(f):
                hit = [c for c in cs.callees if c in dirty_fns]
                if not hit or cs.kind == "property":
                    continue
                # the statement containing the call
                stmt = _enclosing_stmt(f.node, cs.node)
                n_call += 1
                construct = f"{f.qualname}[calls {hit[0].qualname} which changes state read by {M.qualname}]"
                ok, why = clears_after_or_neutral(model, f, stmt, M)
                if not ok and is_private_helper(f):
                    # the call sits in a helper whose statements are part of its callers (a decide / apply split): the invalidation may follow in the caller
                    from .common import syntactic_callers
                    callers_, work_, seen_ = [], [f], set()
                    while work_:
                        g_ = work_.pop()
                        for c_ in syntactic_callers(model, g_):
                            if c_ in seen_:
                                continue
                            seen_.add(c_)
                            (work_ if is_private_helper(c_) else callers_).append(c_)
                    if callers_:
                        verdicts_ = []
                        for c_ in callers_:
                            sites_ = [x for x in ast.walk(c_.node) if isinstance(x, ast.Call) and isinstance(x.func, ast.Attribute) and x.func.attr == f.name]
                            for site_ in sites_:
                                verdicts_.append(clears_after_or_neutral(model, c_, _enclosing_stmt(c_.node, site_), M))
                        if verdicts_ and all(v_[0] for v_ in verdicts_):
                            ok, why = True, ""
                rep.check(ok, "C03.H1", construct, f"{f.module.relpath}:{cs.node.lineno}", found=norm_stmt(stmt) + ("" if ok else f" -- {why}"),
                          required=f"{M.qualname}.cache_clear() after the call on every normal exit",
                          what=f"the graph of a circuit changes but values memoised by {M.qualname} survive: an operation following this block keeps its old start time ({why})",
                          detail=f"call:{hit[0].name}")
    rep.floor("(memo, location, writer) obligations", n_ob, 8)
    rep.floor("calls of graph mutators from outside the graph classes", n_call, 2)


# ---------------------------------------------------------------------------------------------
OBSERVER_STATE_OK = BOOKKEEPING | {"get_registry_at"}   # the override's rebinding is certified restored by H3


def observers(model: Model) -> List[FunctionInfo]:
    out: List[FunctionInfo] = []
    D = model.cls("DeclarativeCircuit")
    for n in ("operations", "duration", "start_time", "composite_operations", "occupied_qubit_channels", "circuit_structure",
              "acquisition_registry", "get_last_entry", "get_qubit_initial_state", "get_acquisition_strategy"):
        f = D.resolve(n)
        if f is None:
            raise AnalysisError(f"observer DeclarativeCircuit.{n} not found")
        out.append(f)
    out.extend(D.resolve_all("get_acquisition_indices"))
    out.append(model.cls("IDurationComponent").properties["end_time"])
    ico = model.cls("ICircuitOperation")
    for K in model.subclasses(ico, concrete_only=True):
        for n in ("start_time", "duration", "channel_identifiers", "nr_of_repetitions", "has_relation"):
            f = K.resolve(n)
            if f is not None and f not in out:
                out.append(f)
    M = model.cls("DispersiveMeasure")
    out.append(M.resolve("acquisition_index"))
    out.append(M.resolve("circuit_level_acquisition_index"))
    out.append(model.cls("AcquisitionRegistry").resolve("get_registry_at"))
    out.append(model.cls("StimCircuitFactoryManager").resolve("construct"))
    out.append(model.function("addon_stim.factory_manager", "to_stim"))
    out.append(model.cls("OpenQLCircuitFactoryManager").resolve("construct"))
    out.append(model.cls("OpenQLCircuitFactoryManager").resolve("construct_uuid"))
    out.append(model.function("display_circuit", "plot_circuit"))
    out.append(model.function("display_circuit", "construct_visual_description"))
    return [f for f in out if f is not None]


def h2(model: Model, rep: Report, cg: CallGraph, ef: Effects, obs: Optional[List[FunctionInfo]] = None, rule: str = "C03.H2", text: Optional[str] = None, keep=None):
    rep.rule(rule, text or "the transitive write set of every public observer (listing, times, duration, acquisition indices, exporters, drawing), "
                       "minus objects created during the call, process bookkeeping (id counters, singletons) and the override rebinding "
                       "certified by H3, is empty")
    if obs is None:
        obs = observers(model)
        rep.floor("observer entry points", len(obs), 25)
    seen: Set[Tuple[str, str]] = set()
    n_fn = set()
    for o in obs:
        for w, path in ef.transitive_writes([o]):
            n_fn.update(path)
            if w.fn.kind == "setter":
                continue  # forwarding body; counted at the assigning call site
            if w.attr in OBSERVER_STATE_OK or w.attr.startswith("<param"):
                continue
            if w.fn.name in ("__init__", "__post_init__"):
                continue  # constructs a new object
            if keep is not None and not keep(w):
                continue
            if w.receiver == "self" and path and _fresh_self(cg, path):
                continue
            # a write inside a private helper belongs to the public method it was extracted from
            owner = w.fn
            for x in reversed(path):
                owner = x
                if is_private_helper(x):
                    continue
                # a function with a single caller in the package is a piece of that caller (e.g. a generator split off a listing method)
                callers = syntactic_callers(model, x)
                idx = path.index(x)
                if len(callers) == 1 and idx > 0 and callers[0] is path[idx - 1]:
                    continue
                break
            key = (owner.qualname, norm_stmt(w.node))
            if key in seen:
                continue
            seen.add(key)
            rep.fail(rule, f"{owner.qualname}[writes {w.attr}]", w.loc, found=f"{norm_stmt(w.node)}  (reached from {o.qualname} via {' -> '.join(x.qualname for x in path)})",
                     required="observers leave circuit state untouched", what=f"an observation rewrites '{w.attr}' of an existing object: later answers depend on whether it was made",
                     detail=f"{w.attr}")
    if not seen:
        rep.ok(rule, "observers[write-set]", obs[0].loc, found=f"no circuit-state write reachable from {len(obs)} observers", required="empty")
    else:
        rep.ok(rule, "observers[analysed]", obs[0].loc, found=f"{len(obs)} observers analysed", required="analysed")
    rep.analysed[f"{rule} observers"] = [o.qualname for o in obs]


def _fresh_self(cg: CallGraph, path: List[FunctionInfo]) -> bool:
    """The last callee on the path is invoked on an object created by its caller (constructor result, or a local bound
    to a constructor call): its self-writes initialise that new object."""
    if len(path) < 2:
        return False
    caller, callee = path[-2], path[-1]
    from ..effects import Effects
    for cs in cg.call_sites(caller):
        if callee in cs.callees and cs.receiver is not None:
            r = cs.receiver
            if isinstance(r, ast.Call) and isinstance(r.func, ast.Name):
                tgt = cg.model.lookup_symbol(caller.module, r.func.id)
                if isinstance(tgt, ClassInfo):
                    return True
    return False


# ---------------------------------------------------------------------------------------------
def h3(model: Model, rep: Report):
    rep.rule("C03.H3", "temporary_override_get_registry_at / clear_lru_cache: the restoring statement sits in a finally reached on every exit "
                       "and restores the value read from the same location on entry (a local bound before the override)")
    construct = "temporary_override_get_registry_at"
    C = model.maybe_cls("temporary_override_get_registry_at")
    if C is not None and "__enter__" in C.methods and "__exit__" in C.methods:
        # class form of the context manager: __enter__ installs, __exit__ must put back on EVERY way out (an exception included)
        en, ex = C.methods["__enter__"][0], C.methods["__exit__"][0]
        eve = Evaluator(model, inline_methods=False)
        try:
            pe_, px_ = PathEnumerator(eve).function_paths(en, self_cls=C), PathEnumerator(eve).function_paths(ex, self_cls=C)
        except Unsupported as e:
            raise AnalysisError(f"{construct}: {e}")
        inst = [e.term for p in pe_ for e in p.events if e.kind == "store" and e.term[1][0] == "cls"]
        if not inst:
            raise AnalysisError(f"{construct}.__enter__: the override store was not found")
        loc_o = (inst[0][1], inst[0][2])
        n_x = 0
        for p in px_:
            if p.exit not in ("return", "fall"):
                continue
            n_x += 1
            back = [e.term for e in p.events if e.kind == "store" and (e.term[1], e.term[2]) == loc_o]
            rep.check(bool(back), "C03.H3", construct + "[restore on every exit]", ex.loc, found=f"path [{show(p.cond)[:80]}]: " + ("restores" if back else "leaves the override installed"),
                      required="__exit__ reinstalls the saved getter whether or not the block raised",
                      what=f"when [{show(p.cond)[:80]}] the override stays installed after the block: every later duration and time is computed with the abandoned settings", detail="no-finally")
            if back:
                saved = back[-1][3]
                from_self = bool(subterms(saved, lambda y: y[0] == "attr" and y[1] == sym(ex.self_name)))
                rep.check(from_self, "C03.H3", construct + "[restores-entry-value]", ex.loc, found=show(saved)[:100], required="the getter saved by __enter__ on this object",
                          what="leaving the override does not reinstall what was active when it was entered", detail="restore-value")
        rep.floor("exit paths of the class-form override", n_x, 1)
        f = None
    else:
        f = model.function("registry_duration", "temporary_override_get_registry_at")
    ev = Evaluator(model, inline_methods=False)
    try:
        ps = PathEnumerator(ev).function_paths(f) if f is not None else []
    except Unsupported as e:
        raise AnalysisError(f"{construct}: {e}")
    n = 0 if f is not None else 1
    for p in ps:
        n += 1
        evs = flat_events(p) if False else p.events
        kinds = [e.kind for e in evs]
        stores_ = [(i, e) for i, e in enumerate(evs) if e.kind == "store" and e.term[1][0] == "cls"]
        i_try = kinds.index("try") if "try" in kinds else None
        i_fin = kinds.index("finally") if "finally" in kinds else None
        ys = [i for i, k in enumerate(kinds) if k == "yield"]
        if i_try is None or i_fin is None:
            rep.fail("C03.H3", construct, f.loc, found="no try/finally around the managed block on some path", required="try: override; yield  finally: restore",
                     what="the override is not undone on every exit", detail="no-finally")
            continue
        before = [(i, e) for i, e in stores_ if i_try < i < i_fin]
        after = [(i, e) for i, e in stores_ if i > i_fin]
        outside = [(i, e) for i, e in stores_ if i < i_try]
        ok_shape = len(before) == 1 and len(after) == 1 and len(ys) == 1 and not outside and i_try < ys[0] < i_fin
        rep.check(ok_shape, "C03.H3", construct + "[shape]", f.loc, found=f"{len(before) + len(outside)} override(s), {len(ys)} yield, {len(after)} restore(s) in finally",
                  required="one override and the yield inside try, one restore in finally", what="the override is not installed / removed exactly once around the managed block",
                  detail="shape")
        if not ok_shape:
            continue
        (io, eo), (ir, er) = before[0], after[0]
        loc_o, loc_r = (eo.term[1], eo.term[2]), (er.term[1], er.term[2])
        loc_txt = f"{loc_o[0][1]}.{loc_o[1]}"
        rep.check(loc_o == loc_r, "C03.H3", construct + "[location]", f.loc, found=f"override {loc_txt}; restore {loc_r[0][1]}.{loc_r[1]}", required="same location",
                  what="the finally block restores a different location than the one overridden", detail="location")
        # what is put back: the value of the location as read by this call before overriding it
        entry_value = ev.attr(loc_o[0], loc_o[1], Frame(f, f.module, {}, None, 0))
        origin = _value_origin(f, evs, ir)
        if origin is None and isinstance(er.extra, str) and er.extra.startswith("captured-on-entry:"):
            # class-form manager used in a with statement: its __exit__ puts back the field its __enter__ filled by reading the location
            origin = "local-read-before-try:" + er.extra.split(":", 1)[1]
        saved_ok = er.term[3] == entry_value and origin == "local-read-before-try:" + loc_txt
        found = show(er.term[3])
        if er.term[3] == entry_value and not saved_ok:
            found += f" ({origin or 'not bound in this function before the override: a value captured elsewhere, e.g. at import time'})"
        rep.check(saved_ok, "C03.H3", construct + "[restores-entry-value]", f.loc, found=found, required=f"a local bound before the try to {loc_txt}",
                  what="leaving the override does not reinstall what was active when it was entered (a nested or outer override is dropped)", detail="restore-value")
        for (i_s, e_s), stop in ((before[0], ys[0]), (after[0], len(evs))):
            if not (isinstance(e_s.extra, str) and e_s.extra.startswith(("manager:", "captured-on-entry:"))):
                continue        # a store written in this function: its invalidation is H1's obligation (the writer is in the catalogue)
            # the store is made by a class-form manager through setattr with a computed name (no writer H1 could list): the memoised start times
            # must be dropped right after it, before the managed block runs / before control returns
            for M in memo_functions(model):
                cleared = any(e.kind == "effect" and e.term is not None and e.term[0] == "call" and e.term[1] == ("attr", ("fn", M.qualname), "cache_clear")
                              for e in evs[i_s + 1:stop])
                rep.check(cleared, "C03.H3", construct + f"[invalidate {M.qualname} after {'override' if stop == ys[0] else 'restore'}]", f.loc,
                          found="cache_clear follows" if cleared else "no cache_clear between the store and " + ("the managed block" if stop == ys[0] else "the end"),
                          required=f"{M.qualname}.cache_clear() after the store",
                          what=f"a value memoised by {M.qualname} survives the change of the duration getter: times reported afterwards are stale", detail="manager-clear")
        rep.check(io < ys[0], "C03.H3", construct + "[order]", f.loc, found="override, then yield" if io < ys[0] else "yield, then override", required="override, then yield",
                  what="the managed block runs before the override is installed", detail="order")
    if n == 0:
        raise AnalysisError(f"{construct}: no paths")
    # clear_lru_cache
    g = model.function("custom_context_managers", "clear_lru_cache")
    trys = [n for n in ast.walk(g.node) if isinstance(n, ast.Try)]
    param = g.params[0].arg
    def _is_clear(s):
        return isinstance(s, ast.Expr) and isinstance(s.value, ast.Call) and ast.unparse(s.value.func) == f"{param}.cache_clear"
    ok = len(trys) == 1 and any(_is_clear(s) for s in trys[0].finalbody) and \
        any(_is_clear(s) for s in g.node.body if s.lineno < trys[0].lineno) and \
        any(isinstance(s, ast.Expr) and isinstance(s.value, ast.Yield) for s in trys[0].body)
    rep.check(ok, "C03.H3", "clear_lru_cache", g.loc, found="clear before try and in finally" if ok else "shape changed", required="clear on entry and, in finally, on exit",
              what="the memo is not cleared on both sides of the managed block", detail="clear-both")


def _value_origin(f: FunctionInfo, evs, idx: int) -> Optional[str]:
    """Where the value stored by event ``idx`` comes from, syntactically: follows a closure parameter to the argument at its call site and
    a local name to its (single) binding in the function body before the first try."""
    e = evs[idx]
    v = getattr(e.node, "value", None)
    for _ in range(4):
        if not isinstance(v, ast.Name):
            return None
        # closure parameter?  (the innermost enter-local before idx whose def has that parameter)
        depth, hit = 0, None
        for j in range(idx - 1, -1, -1):
            if evs[j].kind == "leave-local":
                depth += 1
            elif evs[j].kind == "enter-local":
                if depth:
                    depth -= 1
                    continue
                hit = evs[j]
                break
        if hit is not None:
            call = hit.node
            d = next((n for n in ast.walk(f.node) if isinstance(n, ast.FunctionDef) and n.name == hit.term[1] and n is not f.node), None)
            if d is None:
                # a function of the module read in place (``install(method)`` doing the store for both the override and the restore)
                d = next((n for n in f.module.tree.body if isinstance(n, ast.FunctionDef) and n.name == hit.term[1]), None)
            if d is not None:
                params = [a.arg for a in d.args.posonlyargs + d.args.args]
                if v.id in params:
                    k = params.index(v.id)
                    kw = {x.arg: x.value for x in call.keywords}
                    v = kw.get(v.id, call.args[k] if k < len(call.args) else None)
                    idx = evs.index(hit)
                    continue
        trys = [n for n in ast.walk(f.node) if isinstance(n, ast.Try)
                or (isinstance(n, ast.With) and any(isinstance(i.context_expr, ast.Call) and ast.unparse(i.context_expr.func).endswith("ExitStack") for i in n.items))]
        first_try = min((t.lineno for t in trys), default=10 ** 9)
        binds = [s for s in f.node.body if isinstance(s, (ast.Assign, ast.AnnAssign)) and s.lineno < first_try
                 and any(isinstance(x, ast.Name) and x.id == v.id for x in (s.targets if isinstance(s, ast.Assign) else [s.target]))]
        rebinds = [s for t in trys for s in ast.walk(t) if isinstance(s, (ast.Assign, ast.AnnAssign, ast.AugAssign))
                   and any(isinstance(x, ast.Name) and x.id == v.id for x in (s.targets if isinstance(s, ast.Assign) else [s.target]))]
        if len(binds) == 1 and not rebinds and binds[0].value is not None:
            return "local-read-before-try:" + ast.unparse(binds[0].value)
        return None
    return None


def _enclosing_stmt(fn_node: ast.AST, target: ast.AST) -> ast.AST:
    """Innermost simple statement of the function body containing ``target``."""
    best = None
    for n in ast.walk(fn_node):
        if isinstance(n, ast.stmt) and not isinstance(n, (ast.FunctionDef, ast.If, ast.For, ast.While, ast.With, ast.Try)):
            for m in ast.walk(n):
                if m is target:
                    best = n
    return best if best is not None else target
