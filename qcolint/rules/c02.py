"""C02 -- nothing lost, nothing duplicated: the operation listing is complete, causal and stable.

L1  layered traversal loses nothing: every layer is recorded; every node of a layer contributes ALL its next pointers
    except the branch endpoint; the only de-duplication is unique_in_order; the iterators yield every recorded node.
L2  de-duplication is by identity: node equality includes a unique counter; node hash is consistent.
L3  one node per add (= C01.R6: exactly one fresh node appended on every feasible path, under its reference).
L4  every graph mutation of a branch is followed by the cache refresh; nobody outside the graph classes touches pointers
    or caches.
L5  expansion in place: the composite expands every node unconditionally; all leaf classes return exactly [self].
L6  listing does not change the listing: no graph / cache / structure location is written by `operations`.
L7  what `add` returns is what was added; every sub-circuit argument is routed through the copying path.
"""
from __future__ import annotations

import ast
from typing import Dict, List, Optional, Tuple

from ..effects import Effects
from ..model import AnalysisError, ClassInfo, FunctionInfo, Model, is_main_guard
from ..paths import Event, Path, PathEnumerator, find_calls
from ..report import Report
from ..resolve import CallGraph
from ..sym import (lin, number, FALSE, NONE, TRUE, Evaluator, Frame, Term, Unsupported, atoms_of, show, subst, subterms, sym, t_and, t_cmp, t_not,
                   t_or, satisfiable)
from .common import call_arg, call_args, effect_calls, is_call_of, lifted_to_callers, loop_of, node_iterator_domain, norm_stmt, strip_identity_wrappers

GRAPH_STATE = {"_outgoing_pointers", "_incoming_pointers", "_cached_branch_iterator", "_cached_leaf_nodes", "_circuit_graph",
               "_structure", "_added_operations", "_entrypoint_node", "_endpoint_node"}
POINTER_CALLS = {"point_towards", "release_pointer", "update_set_incoming_pointer", "update_release_incoming_pointer"}


def check(model: Model, rep: Report, tier: str):
    from .common import depth_bound_assumption
    depth_bound_assumption(model, rep)
    with rep.isolated():
        l12(model, rep)
    from .common import instance_state_rule
    with rep.isolated():
        instance_state_rule(model, rep, "C02.L11", "every graph lists its own nodes: containers that graph / composite classes change through self are bound per instance, "
                            "not class-level objects shared by all graphs", keep=lambda c: "/structure/" in c.module.relpath.replace("\\", "/") and ("graph" in c.module.relpath or "composite" in c.module.relpath), floor=3)
    with rep.isolated():
        l1(model, rep)
    with rep.isolated():
        l2(model, rep)
    with rep.isolated():
        l3(model, rep)
    with rep.isolated():
        l4(model, rep, tier)
    with rep.isolated():
        l5(model, rep)
    with rep.isolated():
        l6(model, rep)
    with rep.isolated():
        l7(model, rep)
    with rep.isolated():
        l9(model, rep)
    rep.rule("C02.L10", "DeclarativeCircuit.operations (what every consumer reads) == the structure's decomposed_operations(), evaluated on every call: no stored listing "
                        "in between (the structure also grows through the handles returned by add and through circuit_structure)")
    from .common import front_delegation
    with rep.isolated():
        front_delegation(model, rep, "C02.L10", "DeclarativeCircuit", "operations", "decomposed_operations", True, "the listing read from a circuit is not always the current expansion of its structure")
    with rep.isolated():
        l15(model, rep)
    from .c01 import r7 as _r7
    from .c11 import f1 as _f1
    from .common import share_rule as _sh2
    with rep.isolated():
        _sh2(rep, model, _r7, "C02.L16", "unrolling appends the NODES of each copy (nested blocks with their own counts included), every one of them (= C01.R7): a copy appended as its "
             "flat listing loses the counts of the blocks inside it")
    with rep.isolated():
        _sh2(rep, model, _f1, "C02.L17", "flatten rebuilds the graph from the complete listing, read BEFORE the old graph is replaced (= C11.F1)")
    from .c05 import _k1_k2, _k3
    from .common import share_rule
    with rep.isolated():
        share_rule(rep, model, _k3, "C02.L14", "a nested sub-circuit is listed through its copy, and the copy holds every operation of the original: CircuitCompositeOperation.copy walks "
                   "the whole node iterator and copies, registers and adds every node unconditionally (= C05.K3); a node skipped by a test is lost from the listing with everything behind it")
    with rep.isolated():
        share_rule(rep, model, _k1_k2, "C02.L8", "a nested sub-circuit is listed through its copy: every operation class's copy() keeps kind, qubits, "
                   "channels and duration strategy (= C05.K1/K2), so expansion in place lists the added leaves unchanged")


def l15(model: Model, rep: Report):
    """Hashing a graph node does not hash the operation it wraps."""
    rep.rule("C02.L15", "OperationGraphNode hashes without hashing its operation (identity, or its own identifier): every add de-duplicates the node layers through a hash container, "
                        "and an operation's generated hash walks its whole relation chain -- a node hash that includes the operation recurses once per operation of the chain and "
                        "fails (RecursionError) on chains far below the documented depth limit")
    from .c05 import hash_kind
    N = model.cls("OperationGraphNode")
    hk = hash_kind(N)
    ok, why = False, hk
    if hk == "identity":
        ok, why = True, "identity hash"
    elif hk.startswith("explicit:"):
        K = model.cls(hk.split(":", 1)[1])
        h = K.methods["__hash__"][0]
        reads = {x.attr for x in ast.walk(h.node) if isinstance(x, ast.Attribute) and isinstance(x.value, ast.Name) and x.value.id == h.self_name}
        whole = any(isinstance(x, ast.Call) and (ast.unparse(x.func) in ("astuple", "dataclasses.astuple", "fields", "vars")) for x in ast.walk(h.node))
        ok = "operation" not in reads and not whole
        why = f"{K.name}.__hash__ reads {sorted(reads) or 'no field (id(self))'}"
    elif hk == "fields":
        flds = N.all_fields()
        hashed = [n for n, fi in flds.items() if (fi.compare if fi.hash is None else fi.hash)]
        ok = "operation" not in hashed
        why = f"generated from the fields {hashed}"
    rep.check(ok, "C02.L15", "OperationGraphNode[hash]", N.loc, found=why, required="a hash that does not involve the wrapped operation",
              what="hashing a graph node hashes its operation, whose generated hash follows the relation chain: the depth of one hash grows with the number of operations added one after "
                   "another, and adding fails with RecursionError long before the documented graph depth (" + why + ")", detail="node-hash")


def flat_events(p: Path) -> List[Event]:
    """Events of a path with loop bodies spliced in at the position of the loop (all body paths)."""
    out: List[Event] = []
    for e in p.events:
        out.append(e)
        if e.kind == "loop":
            for bp in e.extra["paths"]:
                out.extend(flat_events(bp))
    return out


# ---------------------------------------------------------------------------------------------
def l1(model: Model, rep: Report):
    rep.rule("C02.L1", "GraphBranch._update_branch_iterator: each layer is appended to the result; every node of the layer contributes all "
                       "get_next_pointers() except the branch endpoint to the next layer (no other filter); next layer = "
                       "unique_in_order(collected); the collector is reset per layer; the result becomes the cached iterator; "
                       "get_branch_iterator / get_node_iterator yield every cached node in order")
    G = model.cls("GraphBranch")
    f = G.own_function("_update_branch_iterator")
    if f is None:
        raise AnalysisError("GraphBranch._update_branch_iterator not found")
    ev = Evaluator(model, inline_methods=False)
    paths = PathEnumerator(ev).function_paths(f, self_cls=G)
    s = sym(f.self_name)
    construct = "GraphBranch._update_branch_iterator"
    endpoint = ("attr", s, "_endpoint_node")
    entry = ("attr", s, "_entrypoint_node")
    n = 0
    for p in [q for q in paths if q.exit in ("return", "fall")]:
        whiles = [e for e in p.events if e.kind == "loop" and isinstance(e.node, ast.While)]
        if len(whiles) != 1:
            raise AnalysisError(f"{construct}: expected one layer loop, found {len(whiles)}")
        n += 1
        W = whiles[0]
        init = W.extra["init_env"]
        body = W.extra["paths"]
        problems: List[str] = []
        # which loop-carried variable is the current layer: the one whose length the loop test reads
        test = W.extra["test"]
        cur_names = [x[1] for x in subterms(test, lambda x: x[0] == "loopvar")]
        if len(set(cur_names)) != 1:
            raise AnalysisError(f"{construct}: cannot identify the current-layer variable in {show(test)}")
        cur_name = cur_names[0]
        CUR = ("loopvar", cur_name, W.node.lineno)
        ok_init = init.get(cur_name) is not None and init[cur_name][0] == "var" and init[cur_name][3] == ("list", (entry,))
        rep.check(ok_init, "C02.L1", construct + "[root]", f.loc, found=show(init.get(cur_name)[3]) if init.get(cur_name) and init[cur_name][0] == "var" else show(init.get(cur_name)),
                  required="[self._entrypoint_node]", what="the traversal does not start from the branch root alone", detail="root")
        nonempty = t_cmp(">", ("call", "len", (CUR,), ()), ("lin", (), 0)) if False else None
        has_len = any(x == ("call", "len", (CUR,), ()) for x in subterms(test, lambda x: x[0] == "call"))
        rep.check(has_len or CUR in atoms_of(test), "C02.L1", construct + "[loop-test]", f.loc, found=show(test), required="continue while the layer is non-empty",
                  what="the traversal may stop before the deepest layer", detail="test")
        result_vars = set()
        record_field: Dict[Term, str] = {}
        if any(e.kind == "yield" for bp in body for e in flat_events(bp)):
            raise AnalysisError(f"{construct}: the layers are yielded by a generator the walk runs in instead of being appended to a result (shape not read; nothing decided)")
        for bp in body:
            if bp.exit not in ("fall", "continue"):
                problems.append(f"layer loop left by {bp.exit}")
            extra_atoms = [a for a in atoms_of(bp.cond) if a not in atoms_of(test)]
            if extra_atoms:
                problems.append(f"layer handling is conditional on {show(extra_atoms[0])}")
            # (a) result.append(CUR)
            apps = [c for e in bp.events if e.kind == "effect" for c in find_calls(e.term, "append") if c[2] == (CUR,)]
            if not apps:
                # the layer recorded as one field of a per-layer record: ``result.append(Layer(nodes=<layer>, ...))``
                for e in bp.events:
                    if e.kind != "effect" or e.term is None:
                        continue
                    for c in find_calls(e.term, "append"):
                        a_ = c[2][0] if len(c[2]) == 1 else None
                        while a_ is not None and a_[0] == "var" and len(a_) == 4:
                            a_ = a_[3]
                        if a_ is not None and a_[0] == "new":
                            hit_ = [k_ for k_, v_ in a_[2] if v_ == CUR]
                            if len(hit_) == 1 and c not in apps:
                                apps.append(c)
                                record_field[c[1][1]] = hit_[0]
            if len(apps) != 1:
                problems.append(f"{len(apps)} recordings of the current layer")
            else:
                result_vars.add(apps[0][1][1])
            # (b) inner loop
            inner = [e for e in bp.events if e.kind == "loop"]
            if not inner:
                # the next layer computed as a value: unique_in_order([s for node in LAYER for s in node.get_next_pointers() if s is not endpoint]) -- in any
                # spelling that fuses to this flat-map (nested comprehensions, chain.from_iterable, a per-node list of successor lists)
                from ..extreme import fuse_comprehensions
                from .common import devar
                nv = bp.env.get(cur_name)
                v = fuse_comprehensions(devar(nv)) if nv is not None else None
                fm = None
                if v is not None and v[0] == "call" and v[1] == ("fn", "array_manipulation.unique_in_order"):
                    argv = (list(v[2]) + [x for _, x in v[3]])
                    fm = argv[0] if len(argv) == 1 else None
                elif v is not None:
                    w = v
                    while w[0] == "call" and w[1] in ("list", "tuple") and len(w[2]) == 1 and not w[3]:
                        w = w[2][0]
                    if w[0] == "comp" and len(w[3]) == 2:
                        fm = w
                        problems.append(f"next layer is {show(v)[:80]} instead of unique_in_order(collected successors)")
                if fm is None or fm[0] != "comp" or len(fm[3]) != 2:
                    raise AnalysisError(f"{construct}: the next layer is not computed by a scan loop over the current layer nor as unique_in_order of a flat-map over it (shape not recognised; nothing decided)")
                (d0, c0), (d1, c1) = fm[3]
                b0 = [y for y in subterms(d1, lambda y: y[0] == "bound")]
                nodeb = b0[0] if len(b0) == 1 else None
                if d0 != CUR or c0:
                    problems.append("the nodes of the layer are not all visited")
                if nodeb is None or d1 not in (("call", ("attr", nodeb, "get_next_pointers"), (), ()), ("attr", nodeb, "outgoing_pointers")):
                    problems.append(f"successors taken from {show(d1)}")
                elif fm[2][0] != "bound" or fm[2] == nodeb:
                    problems.append(f"next layer collects {show(fm[2])} instead of the successors")
                elif list(c1) != [t_not(t_cmp("is", fm[2], endpoint))]:
                    problems.append("successors are filtered by " + (" and ".join(show(x) for x in c1) or "nothing (the branch endpoint is not excluded)"))
                for e in flat_events(bp):
                    if e.kind == "effect" and e.term is not None:
                        for nm in ("pop", "remove", "clear", "insert", "sort", "reverse", "__delitem__"):
                            for c in find_calls(e.term, nm):
                                r = c[1][1] if isinstance(c[1], tuple) and c[1][0] == "attr" else None
                                if r is not None and r[0] in ("var", "loopvar") and r[1] in ({cur_name} | {r_[1] for r_ in result_vars if r_[0] in ("var", "loopvar")}):
                                    problems.append(f"{nm}() on {r[1]} changes the collected nodes")
                continue
            if len(inner) != 1 or inner[0].term != CUR:
                problems.append("the nodes of the layer are not all visited")
                continue
            L = inner[0]
            elem = ("bound", "for", L.node.lineno, show(L.term))
            collectors = set()
            for ip in L.extra["paths"]:
                if ip.exit not in ("fall", "continue"):
                    problems.append(f"node scan left by {ip.exit}")
                exts = [c for e in ip.events if e.kind == "effect" for c in find_calls(e.term, "extend")]
                exts = [c for c in exts if c[1][1][0] in ("loopvar", "var")]
                good = []
                for c in exts:
                    arg = (list(c[2]) + [v for _, v in c[3]])[0]
                    src = arg[3] if arg[0] == "var" else arg
                    if src[0] == "comp" and len(src[3]) == 1:
                        it, conds = src[3][0]
                        bound = src[2]
                        it_ok = it == ("call", ("attr", elem, "get_next_pointers"), (), ()) or it == ("attr", elem, "outgoing_pointers")
                        filt_ok = list(conds) == [t_not(t_cmp("is", bound, endpoint))] and bound[0] == "bound"
                        if it_ok and filt_ok:
                            good.append(c)
                        elif it_ok:
                            problems.append("successors are filtered by " + " and ".join(show(x) for x in conds))
                        else:
                            problems.append(f"successors taken from {show(it)}")
                    elif src[0] == "slice":
                        problems.append(f"only a slice of the successors is kept: {show(src)}")
                    else:
                        problems.append(f"next layer extended with {show(src)}")
                def _full_successors(t):
                    while t[0] == "var" and len(t) == 4:
                        t = t[3]
                    if t[0] != "comp" or len(t[3]) != 1:
                        return False
                    it_, conds_ = t[3][0]
                    return (it_ == ("call", ("attr", elem, "get_next_pointers"), (), ()) or it_ == ("attr", elem, "outgoing_pointers")) \
                        and t[2][0] == "bound" and list(conds_) == [t_not(t_cmp("is", t[2], endpoint))]
                conj = list(ip.cond[1]) if ip.cond[0] == "and" else [ip.cond]

                def _tested_empty(c_):
                    """the list a conjunct says is empty: ``not xs``, ``len(xs) == 0``, ``not len(xs) > 0``, ``len(xs) < 1``"""
                    def len_of(t):
                        return t[2][0] if t[0] == "call" and t[1] == "len" and len(t[2]) == 1 else None
                    if c_[0] == "not" and c_[1][0] not in ("cmp", "eq"):
                        return c_[1]
                    if c_[0] == "eq" and number(c_[2]) == 0 and len_of(c_[1]) is not None:
                        return len_of(c_[1])
                    if c_[0] == "not" and c_[1][0] == "cmp" and c_[1][1] == ">" and len_of(c_[1][2]) is not None:
                        return len_of(c_[1][2])
                    if c_[0] == "not" and c_[1][0] == "cmp" and c_[1][1] == ">=" and c_[1][2][0] == "lin" and len(c_[1][2][1]) == 1 and c_[1][2][2] == -1 \
                            and c_[1][2][1][0][1] == 1 and len_of(c_[1][2][1][0][0]) is not None:
                        return len_of(c_[1][2][1][0][0])
                    return None
                if not good and not exts and any(_tested_empty(c_) is not None and _full_successors(_tested_empty(c_)) for c_ in conj):
                    # a node without successors inside the branch hands over nothing: the same as handing over the empty list
                    continue
                if len(good) != 1:
                    problems.append(f"{len(good)} complete hand-overs of successors on a node path [{show(ip.cond)}]")
                else:
                    collectors.add(good[0][1][1])
            # (c) next layer
            nxt = bp.env.get(cur_name)
            if len(collectors) == 1:
                coll = list(collectors)[0]
                want = ("call", ("fn", "array_manipulation.unique_in_order"), (), (("iterable", coll),))
                if nxt != want:
                    problems.append(f"next layer is {show(nxt)} instead of unique_in_order(collected successors)")
                # collector reset
                cname = coll[1]
                newc = bp.env.get(cname)
                if cname not in W.extra["assigned"] or not (newc is not None and newc[0] == "var" and newc[3] in (("list", ()), ("call", "list", (), ()))):
                    problems.append("the successor collector is not reset for the next layer")
                # nothing else may shrink or reorder the collector, the current layer or the result
                watched = {cname, cur_name} | {r[1] for r in result_vars if r[0] in ("var", "loopvar")}
                for e in flat_events(bp):
                    if e.kind == "effect" and isinstance(e.node, ast.Delete):
                        if any(isinstance(n, ast.Name) and n.id in watched for n in ast.walk(e.node)):
                            problems.append(f"'{norm_stmt(e.node)}' removes collected nodes")
                    if e.kind == "effect" and e.term is not None:
                        for nm in ("pop", "remove", "clear", "insert", "sort", "reverse", "__delitem__"):
                            for c in find_calls(e.term, nm):
                                r = c[1][1] if isinstance(c[1], tuple) and c[1][0] == "attr" else None
                                if r is not None and r[0] in ("var", "loopvar") and r[1] in watched:
                                    problems.append(f"{nm}() on {r[1]} changes the collected nodes")
            else:
                problems.append("successor collector not identified")
        rep.check(not problems, "C02.L1", construct + "[layer-flow]", f.loc, found="; ".join(sorted(set(problems))) or "record layer; all successors but the endpoint; unique_in_order; reset",
                  required="every node and every successor flows into the listing", what="the breadth-first traversal can drop or duplicate nodes: " + "; ".join(sorted(set(problems))),
                  detail="flow")
        # cached iterator := result
        sets = [c for e in p.events if e.kind == "effect" for c in find_calls(e.term, "__setattr__")]
        cached = [c for c in sets if len(c[2]) == 3 and c[2][1] == ("const", "_cached_branch_iterator")]
        ok = len(cached) == 1 and len(result_vars) == 1 and cached[0][2][2] in result_vars and cached[0][2][0] == s
        if not ok and len(cached) == 1 and len(result_vars) == 1 and cached[0][2][0] == s and list(result_vars)[0] in record_field:
            # the layers were recorded as a field of per-layer records: the cache is the projection of that field, in order, nothing filtered
            rv = list(result_vars)[0]
            from .common import devar as _dv
            cv = _dv(cached[0][2][2])
            ok = (cv[0] == "comp" and cv[1] == "list" and len(cv[3]) == 1 and not cv[3][0][1] and _dv(cv[3][0][0]) == _dv(rv) and cv[2][0] == "attr"
                  and cv[2][1][0] == "bound" and cv[2][2] == record_field[rv])
        rep.check(ok, "C02.L1", construct + "[cache]", f.loc, found=[show(c) for c in cached], required="_cached_branch_iterator := the recorded layers",
                  what="the recorded layers are not what the iterators read", detail="cache")
    rep.floor("paths of _update_branch_iterator", n, 1)
    # iterators
    for cname, fname, want in (("GraphBranch", "get_branch_iterator", "cached layers"), ("GraphBranch", "get_node_iterator", "nodes of layers"),
                               ("CircuitGraphBranch", "get_node_iterator", "operation nodes")):
        C = model.cls(cname)
        g = C.own_function(fname)
        if g is None:
            raise AnalysisError(f"{cname}.{fname} not found")
        ev2 = Evaluator(model, inline_methods=False)
        ps = PathEnumerator(ev2).function_paths(g, self_cls=C)
        gs = sym(g.self_name)
        problems = []
        for p in ps:
            lp = loop_of(p)
            if lp is None:
                problems.append("no loop")
                continue
            if fname == "get_branch_iterator":
                src_ok = lp.term == ("attr", gs, "_cached_branch_iterator")
            elif cname == "GraphBranch":
                layers = ("call", ("attr", gs, "get_branch_iterator"), (), ())
                src_ok = lp.term == layers
                # flat-map reading: ``for node in chain.from_iterable(layers)`` / ``for node in (n for layer in layers for n in layer)``
                from .common import devar as _devar
                lt = _devar(lp.term)
                flat = (lt[0] == "comp" and len(lt[3]) == 2 and lt[3][0] == (layers, ()) and not lt[3][1][1] and lt[3][1][0][0] == "bound"
                        and lt[3][1][0][3] == show(layers) and lt[2][0] == "bound" and lt[2][3] == show(lt[3][1][0]))
                if flat:
                    el = ("bound", "for", lp.node.lineno, show(lp.term))
                    for bp in lp.extra["paths"]:
                        ys_ = [e for e in bp.events if e.kind == "yield"]
                        if len(ys_) != 1 or ys_[0].term != el or atoms_of(bp.cond):
                            problems.append("a node of a layer is not yielded unconditionally")
                    continue
            else:
                src_ok = lp.term == ("call", ("fn", "GraphBranch.get_node_iterator"), (gs,), ())
            if not src_ok:
                problems.append(f"iterates {show(lp.term)}")

            def yields(paths_, depth=0):
                out = []
                for bp in paths_:
                    ys = [e for e in bp.events if e.kind == "yield"]
                    inner = [e for e in bp.events if e.kind == "loop"]
                    out.append((bp, ys, inner))
                return out
            elem = ("bound", "for", lp.node.lineno, show(lp.term))
            for bp, ys, inner in yields(lp.extra["paths"]):
                if fname == "get_branch_iterator":
                    if len(ys) != 1 or ys[0].term != elem or atoms_of(bp.cond):
                        problems.append("a cached layer is not yielded unconditionally")
                elif cname == "GraphBranch":
                    if len(inner) != 1 or inner[0].term != elem:
                        problems.append("layers are not scanned completely")
                    else:
                        ie = ("bound", "for", inner[0].node.lineno, show(inner[0].term))
                        for ibp in inner[0].extra["paths"]:
                            iy = [e for e in ibp.events if e.kind == "yield"]
                            if len(iy) != 1 or iy[0].term != ie or atoms_of(ibp.cond):
                                problems.append("a node of a layer is not yielded unconditionally")
                else:
                    isop = ("isinstance", elem, "OperationGraphNode")
                    if bp.cond == isop:
                        if len(ys) != 1 or ys[0].term != elem:
                            problems.append("an operation node is not yielded")
                    elif bp.cond == t_not(isop):
                        if ys:
                            problems.append("a non-operation node is yielded")
                    else:
                        problems.append(f"filter is {show(bp.cond)}")
        rep.check(not problems, "C02.L1", f"{cname}.{fname}", g.loc, found="; ".join(sorted(set(problems))) or f"yields all {want}", required=f"yield every one of the {want}, in order",
                  what="the node iterator skips or filters nodes: " + "; ".join(sorted(set(problems))), detail="iterator")


# ---------------------------------------------------------------------------------------------
def l2(model: Model, rep: Report):
    rep.rule("C02.L2", "graph nodes reaching unique_in_order are never equal unless identical: a compare=True identifier fed by a class counter "
                       "that __post_init__ increments unconditionally; the hash is by id or generated from compared fields")
    from .c05 import eq_kind, hash_kind
    base = model.cls("GraphNode")
    classes = [base] + model.subclasses(base)
    rep.floor("graph node classes", len(classes), 2)
    for C in classes:
        ek, hk = eq_kind(C), hash_kind(C)
        flds = C.all_fields()
        ids = []
        from .common import factory_counter
        for n, fi in flds.items():
            if fi.compare and fi.default_factory is not None:
                fc = factory_counter(model, fi.owner.module, fi.default_factory)
                if fc is not None:
                    ids.append((n, fc[0], fc[1], fi))
        if ek == "identity":
            rep.ok("C02.L2", f"{C.name}[eq]", C.loc, found="identity equality", required="distinct nodes unequal")
        else:
            ok = False
            why = "no compared field is fed by an instance counter"
            for n, cname, counter, fi in ids:
                K = model.maybe_cls(cname)
                if K is None:
                    continue
                post = None
                for k in C.mro():
                    if "__post_init__" in k.methods:
                        post = k.methods["__post_init__"][0]
                        break
                if post is None:
                    why = "no __post_init__ increments the counter"
                    continue
                from .common import counter_incremented
                ok = counter_incremented(model, post, cname, counter)
                if not ok:
                    why = f"{post.qualname} does not increment {cname}.{counter} unconditionally"
                else:
                    break
            rep.check(ok, "C02.L2", f"{C.name}[eq]", C.loc, found=f"eq={ek}; counter-fed compared fields: {[i[0] for i in ids]}", required="a compared unique identifier",
                      what="two distinct nodes can compare equal, so unique_in_order drops one of them from a layer: " + why, detail="identifier")
        rep.check(hk != "none", "C02.L2", f"{C.name}[hash]", C.loc, found=f"hash={hk}", required="hashable", what="nodes cannot be placed in the seen-set", detail="hash")
    # the node keeps its operation
    O = model.cls("OperationGraphNode")
    of = O.all_fields().get("operation")
    rep.check(of is not None and of.init, "C02.L2", "OperationGraphNode.operation", O.loc, found="field present" if of else "missing", required="init field 'operation'",
              what="graph nodes do not carry their operation", detail="operation-field")


def l3(model: Model, rep: Report):
    rep.rule("C02.L3", "add_to_graph constructs exactly one node and appends it exactly once on every feasible path, under the node of its reference "
                       "(parent layer precedes child layer => causal listing) [= C01.R6]")
    from .c01 import r6
    sub = Report(rep.prop_id, rep.tier, rep.src_root, quiet=True, write=False)
    try:
        r6(model, sub)
    finally:
        # what R6 decided before it met something it does not read is kept (a violation found on one path stands)
        for o in sub.obligations:
            o = dict(o)
            o["rule"] = "C02.L3"
            rep.obligations.append(o)
        for fl in sub.floors:
            rep.floors.append(fl)


# ---------------------------------------------------------------------------------------------
def l4(model: Model, rep: Report, tier: str):
    rep.rule("C02.L4", "every GraphBranch / CircuitGraphBranch method that re-points nodes other than the branch endpoint reaches "
                       "update_point_leafs_to_endpoint (-> _update_branch_iterator) afterwards on every normal exit; outside the graph classes "
                       "nothing calls point_towards / release_pointer or writes pointer lists / caches")
    graph_mod = model.module("intrf_graph_structure")
    graph_classes = set(graph_mod.classes.values()) | {model.cls("CircuitGraphBranch"), model.cls("OperationGraphNode")}
    branches = [model.cls("GraphBranch"), model.cls("CircuitGraphBranch")]
    refreshers = {"update_point_leafs_to_endpoint", "_update_branch_iterator"}
    n_mut = 0
    refreshing_methods = set(refreshers)
    # fixed point: a method that ends with a call to a refreshing method of self is refreshing
    for _ in range(3):
        for B in branches:
            for name, fs in B.methods.items():
                f = fs[0]
                if name in refreshing_methods or f.kind != "method":
                    continue
                ev = Evaluator(model, inline_methods=False)
                try:
                    ps = PathEnumerator(ev, no_inline=("GraphBranch._update_branch_iterator",)).function_paths(f, self_cls=B)
                except Unsupported:
                    continue
                s = sym(f.self_name)
                if ps and all(_last_refresh_index(flat_events(p), s, refreshing_methods) is not None for p in ps if p.exit in ("return", "fall")):
                    if any(p.exit in ("return", "fall") for p in ps):
                        refreshing_methods.add(name)
    for B in branches:
        for name, fs in B.methods.items():
            f = fs[0]
            if f.kind != "method" or name in ("__post_init__", "__repr__", "_update_branch_iterator", "update_point_leafs_to_endpoint"):
                continue
            if lifted_to_callers(model, f, within=graph_classes):
                continue  # run in place at its callers (which are checked here)
            ev = Evaluator(model, inline_methods=False)
            try:
                ps = PathEnumerator(ev, no_inline=("GraphBranch._update_branch_iterator",)).function_paths(f, self_cls=B)
            except Unsupported as e:
                raise AnalysisError(f"{f.qualname}: {e}")
            s = sym(f.self_name)
            endpoint = ("attr", s, "_endpoint_node")
            for p in ps:
                if p.exit not in ("return", "fall"):
                    continue
                evs = flat_events(p)
                muts = []
                for i, e in enumerate(evs):
                    if e.kind != "effect" or e.term is None:
                        continue
                    for nm in ("point_towards", "release_pointer"):
                        for c in find_calls(e.term, nm):
                            recv = c[1][1] if isinstance(c[1], tuple) and c[1][0] == "attr" else None
                            arg = (list(c[2]) + [v for _, v in c[3]] + [None])[0]
                            if recv == endpoint or arg == endpoint or recv == s:
                                continue  # edges into / out of the endpoint are not traversed (cache-neutral)
                            muts.append(i)
                if not muts:
                    continue
                n_mut += 1
                last = _last_refresh_index(evs, s, refreshing_methods)
                ok = last is not None and last > max(muts)
                rep.check(ok, "C02.L4", f"{f.qualname}[refresh-after-mutation]", f.loc, found="refresh after the last re-pointing" if ok else "no refresh after re-pointing nodes",
                          required="update_point_leafs_to_endpoint() after the last pointer change", what="the cached listing is stale after this method changed the graph (added operations are not listed)",
                          detail="refresh")
    rep.floor("graph-mutating branch methods (paths)", n_mut, 2)
    # who may call
    offenders = []
    n_scanned = 0
    for fn in model.all_functions():
        if fn.cls in graph_classes:
            continue
        n_scanned += 1
        for n in ast.walk(fn.node):
            if isinstance(n, ast.Call) and isinstance(n.func, ast.Attribute) and n.func.attr in POINTER_CALLS:
                offenders.append((fn, n, f"calls {n.func.attr}()"))
            if isinstance(n, ast.Call) and isinstance(n.func, ast.Attribute) and n.func.attr in ("_update_branch_iterator",):
                offenders.append((fn, n, "calls _update_branch_iterator()"))
            tgts = []
            if isinstance(n, ast.Assign):
                tgts = n.targets
            elif isinstance(n, (ast.AugAssign, ast.AnnAssign)):
                tgts = [n.target]
            for t in tgts:
                while isinstance(t, ast.Subscript):
                    t = t.value
                if isinstance(t, ast.Attribute) and (t.attr.startswith("_cached_") or t.attr in ("_outgoing_pointers", "_incoming_pointers")):
                    offenders.append((fn, n, f"writes {t.attr}"))
            if isinstance(n, ast.Call) and ((isinstance(n.func, ast.Attribute) and n.func.attr == "__setattr__") or
                                            (isinstance(n.func, ast.Name) and n.func.id == "setattr")) and len(n.args) >= 2 \
                    and isinstance(n.args[1], ast.Constant) and isinstance(n.args[1].value, str) \
                    and (n.args[1].value.startswith("_cached_") or n.args[1].value in ("_outgoing_pointers", "_incoming_pointers")):
                offenders.append((fn, n, f"sets {n.args[1].value}"))
            if isinstance(n, ast.Call) and isinstance(n.func, ast.Attribute) and n.func.attr in ("append", "remove", "extend", "clear", "pop", "insert") \
                    and isinstance(n.func.value, ast.Attribute) and n.func.value.attr in ("outgoing_pointers", "incoming_pointers", "_outgoing_pointers", "_incoming_pointers", "leaf_nodes"):
                offenders.append((fn, n, f"mutates {n.func.value.attr} in place"))
    for fn, n, what in offenders:
        rep.fail("C02.L4", f"{fn.qualname}[who-may-call]", f"{fn.module.relpath}:{n.lineno}", found=f"{what}: {norm_stmt(n)}", required="only graph classes manipulate pointers and caches",
                 what="the graph is changed behind the back of the branch cache", detail="outsider:" + norm_stmt(n))
    if not offenders:
        rep.ok("C02.L4", "who-may-call[pointers and caches]", graph_mod.relpath + ":1", found=f"0 outside callers in {n_scanned} functions", required="none")
    rep.analysed["C02.L4 functions scanned for outside pointer/caches access"] = n_scanned


def _last_refresh_index(evs: List[Event], s: Term, names) -> Optional[int]:
    last = None
    for i, e in enumerate(evs):
        if e.kind in ("effect",) and e.term is not None:
            for nm in names:
                for c in find_calls(e.term, nm):
                    if isinstance(c[1], tuple) and c[1][0] == "attr" and c[1][1] == s:
                        last = i
    return last


# ---------------------------------------------------------------------------------------------
def l5(model: Model, rep: Report):
    rep.rule("C02.L5", "CircuitCompositeOperation.decomposed_operations ranges over ALL nodes and extends the result with every node's own "
                       "decomposition unconditionally; every other concrete operation class returns exactly [self]")
    K = model.cls("CircuitCompositeOperation")
    f = K.resolve("decomposed_operations")
    ev = Evaluator(model, inline_methods=False)
    paths = PathEnumerator(ev).function_paths(f, self_cls=K)
    s = sym(f.self_name)
    construct = "CircuitCompositeOperation.decomposed_operations"
    for p in [q for q in paths if q.exit == "return"]:
        lp = loop_of(p)
        if lp is None:
            stored = [y for y in subterms(p.value, lambda y: y[0] == "attr" and y[1] == s and y[2] != "_circuit_graph")] if p.value is not None else []
            if stored:
                # a way out that does not walk the graph and answers from something kept on the block: the listing of an earlier call
                rep.fail("C02.L5", construct + "[every-call-walks-the-graph]", f.loc, found=f"return {show(p.value)[:100]} if {show(p.cond)[:100]}", required="the listing is expanded from self._circuit_graph on every call",
                         what="the listing is answered from state stored on the block: operations added below this block afterwards (through a nested handle) are missing", detail="stored-listing")
                continue
            raise AnalysisError(f"{construct}: no loop")
        dom = node_iterator_domain(lp.term)
        base = strip_identity_wrappers(lp.term)
        rep.check(dom == "ALL" and base[1][1] == ("attr", s, "_circuit_graph"), "C02.L5", construct + "[domain]", f.loc, found=f"{show(lp.term)} -> {dom}",
                  required="all nodes of self._circuit_graph in listing order", what="the listing does not range over all added nodes", detail="domain")
        elem = ("bound", "for", lp.node.lineno, show(lp.term))
        res = p.value
        if res is not None and res[0] == "call" and res[1] in ("list", "tuple") and len(res[2]) == 1 and not res[3] and res[2][0][0] == "var":
            res = res[2][0]         # ``return list(result)``: a copy of the collected listing
        bad = []
        for bp in lp.extra["paths"]:
            exts = [c for e in bp.events if e.kind == "effect" for c in find_calls(e.term, "extend") if c[1][1] == res]
            want = ("call", ("attr", ("attr", elem, "operation"), "decomposed_operations"), (), ())
            if len(exts) != 1 or (list(exts[0][2]) + [v for _, v in exts[0][3]]) != [want]:
                bad.append(f"{len(exts)} extension(s) on path [{show(bp.cond)}]")
            if bp.exit not in ("fall", "continue"):
                bad.append(f"loop left by {bp.exit}")
        rep.check(not bad and res is not None and res[0] == "var" and res[3] == ("list", ()), "C02.L5", construct + "[every-node]", f.loc, found="; ".join(bad) or "extend(node.operation.decomposed_operations()) on every path",
                  required="result.extend(node.operation.decomposed_operations()) unconditionally, result starts empty", what="an added operation can be missing from (or doubled in) the listing: " + "; ".join(bad),
                  detail="every-node")
    # leaves
    ico = model.cls("ICircuitOperation")
    n = 0
    impls = set()
    for C in model.subclasses(ico, concrete_only=True):
        if C is K:
            continue
        g = C.resolve("decomposed_operations")
        if g is None or "abstractmethod" in g.decorators:
            raise AnalysisError(f"{C.name}: no decomposed_operations")
        impls.add(g)
        v = Evaluator(model).value_of(g, self_cls=C)
        n += 1
        rep.check(v == ("list", (sym(g.self_name),)), "C02.L5", f"{C.name}.decomposed_operations", g.loc, found=show(v), required="[self]",
                  what="a leaf operation does not list exactly itself", detail="leaf")
    rep.floor("leaf classes", n, 26)
    rep.floor("distinct leaf implementations", len(impls), 4)


# ---------------------------------------------------------------------------------------------
def l6(model: Model, rep: Report):
    rep.rule("C02.L6", "the transitive write set of DeclarativeCircuit.operations contains no graph pointer, cache, graph or structure location "
                       "(listing twice gives the same sequence)")
    cg = CallGraph(model)
    ef = Effects(model, cg)
    D = model.cls("DeclarativeCircuit")
    roots = [D.resolve("operations")]
    ws = ef.transitive_writes(roots)
    reach = cg.reachable(roots)
    bad = [(w, path) for w, path in ws if w.attr in GRAPH_STATE]
    for w, path in bad:
        rep.fail("C02.L6", f"{w.fn.qualname}[writes {w.attr}]", w.loc, found=f"{norm_stmt(w.node)} reached via {' -> '.join(x.qualname for x in path)}",
                 required="no write to graph state while listing", what="reading the operation listing changes the graph it is read from", detail=f"write:{w.attr}")
    # calls that mutate graphs
    callers = []
    for fn in reach:
        for cs in cg.call_sites(fn):
            if cs.name in POINTER_CALLS | {"add_to_graph", "append_pointer_to", "append_pointers_to", "update_point_leafs_to_endpoint", "_update_branch_iterator"}:
                callers.append((fn, cs))
    for fn, cs in callers:
        rep.fail("C02.L6", f"{fn.qualname}[calls {cs.name}]", f"{fn.module.relpath}:{cs.node.lineno}", found=norm_stmt(cs.node), required="no graph mutation while listing",
                 what="reading the operation listing restructures the graph", detail=f"call:{cs.name}")
    if not bad and not callers:
        rep.ok("C02.L6", "DeclarativeCircuit.operations[write-set]", roots[0].loc, found=f"{len(ws)} writes in {len(reach)} reachable functions, none to graph state: "
               + ", ".join(sorted({'.'.join(w.key()) for w, _ in ws})), required="no graph / cache / structure write")
    rep.floor("functions reachable from operations", len(reach), 6)
    rep.analysed["C02.L6 reachable functions"] = len(reach)


# ---------------------------------------------------------------------------------------------
def l12(model: Model, rep: Report, rule: str = "C02.L12"):
    """'Empty' means: no node besides the root."""
    rep.rule(rule, "IGraphNavigation.empty_graph is true exactly for a graph without operation nodes: `the only leaf is the root` (len(leaf_nodes) == 1 and leaf_nodes[0].is_root), "
                   "or, equivalently, a branch depth of 0 -- a wider test (depth <= 1) calls a single layer of operations empty, and everything guarded by it (the duration "
                   "shortcut of a block, the chain link of repeated copies) treats such a block as nothing")
    from fractions import Fraction as _F
    K = model.cls("IGraphNavigation")
    f = K.resolve("empty_graph")
    if f is None:
        raise AnalysisError("IGraphNavigation.empty_graph vanished")
    try:
        v = Evaluator(model, inline_methods=False).value_of(f, self_cls=K)
    except Unsupported as e:
        raise AnalysisError(f"empty_graph: {e}")
    s_ = sym(f.self_name)
    leafs = None
    ok, why = None, ""
    # leaf form
    if v[0] == "and" and len(v[1]) == 2:
        a, b = v[1]
        for x, y in ((a, b), (b, a)):
            if x[0] == "eq" and y[0] == "attr" and y[2] == "is_root" and y[1][0] == "sub" and y[1][2] == lin({}, _F(0)):
                coll = y[1][1]
                if x == t_cmp("==", ("call", "len", (coll,), ()), lin({}, _F(1))) and coll[0] == "attr" and coll[1] == s_ and "leaf" in coll[2]:
                    ok = True
    # depth form: depth == 0 / depth < 1 / not depth > 0
    depth = ("call", ("attr", s_, "get_branch_depth"), (), ())
    if ok is None and subterms(v, lambda y: y == depth):
        zero_forms = [t_cmp("==", depth, lin({}, _F(0))), t_cmp("<", depth, lin({}, _F(1))), t_cmp("<=", depth, lin({}, _F(0)))]
        if v in zero_forms:
            ok = True
        else:
            ok, why = False, f"{show(v)} is not `depth == 0`"
    if ok is None:
        raise AnalysisError(f"empty_graph: {show(v)[:120]} is neither the leaf form nor a depth test (shape not recognised)")
    rep.check(ok, rule, "IGraphNavigation.empty_graph", f.loc, found=show(v)[:140], required="len(leaf_nodes) == 1 and leaf_nodes[0].is_root  (== branch depth 0)",
              what="a graph that holds operations is reported empty: " + why + "; a block of parallel operations then has duration 0 and followers start inside it", detail="empty")


def l7(model: Model, rep: Report):
    rep.rule("C02.L7", "add_operation / add_sub_circuit: the object handed to _structure.add, appended to _added_operations and returned is one and the same; "
                       "IDeclarativeCircuit.add routes every sub-circuit (declarative circuit or composite operation) to the copying path")
    D = model.cls("DeclarativeCircuit")
    for name in ("add_operation", "add_sub_circuit"):
        f = D.resolve(name)
        ev = Evaluator(model, inline_methods=False)
        ps = PathEnumerator(ev).function_paths(f, self_cls=D)
        s = sym(f.self_name)
        n = 0
        for p in ps:
            if p.exit != "return":
                continue
            n += 1
            adds = [c for e, c in effect_calls(p.events, "add") if c[1][1] == ("attr", s, "_structure")]
            apps = [c for e, c in effect_calls(p.events, "append") if c[1][1] == ("attr", s, "_added_operations")]
            a = (list(adds[0][2]) + [v for _, v in adds[0][3]] + [None])[0] if len(adds) == 1 else None
            b = (list(apps[0][2]) + [v for _, v in apps[0][3]] + [None])[0] if len(apps) == 1 else None
            ok = a is not None and a == b == p.value
            rep.check(ok, "C02.L7", f"DeclarativeCircuit.{name}", f.loc, found=f"added {show(a) if a else None}; recorded {show(b) if b else None}; returned {show(p.value)}",
                      required="one and the same object, added exactly once", what="what add() returns (and get_last_entry reports) is not the entry that was added", detail="same-object")
        rep.floor(f"return paths of {name}", n, 1)
    f = D.resolve("get_last_entry")
    ev = Evaluator(model, inline_methods=False)
    ps = PathEnumerator(ev).function_paths(f, self_cls=D)
    s = sym(f.self_name)
    rets = [p for p in ps if p.exit == "return"]
    lastv = ("sub", ("attr", s, "_added_operations"), ("lin", (), -1))
    from fractions import Fraction
    lastv = ("sub", ("attr", s, "_added_operations"), ("lin", (), Fraction(-1)))
    from ..sym import number as _num, NONE as _NONE
    from .common import devar as _devar

    def _is_last(v):
        v = _devar(v) if v is not None else v
        if v == lastv:
            return True
        # xs[-1:][0]: the one-element tail, then its element
        if v is not None and v[0] in ("sub", "item") and (v[2] == 0 or (isinstance(v[2], tuple) and _num(v[2]) == 0)):
            b_ = _devar(v[1])
            if b_[0] == "slice" and len(b_) == 5 and b_[1] == lastv[1] and _num(b_[2]) == -1 and b_[3] == _NONE and b_[4] in (_NONE, ("lin", (), Fraction(1))):
                return True
        return False
    if len(rets) == 1 and not _is_last(rets[0].value):
        v_ = _devar(rets[0].value) if rets[0].value is not None else None
        plain_index = v_ is not None and v_[0] in ("sub", "item") and _devar(v_[1]) == lastv[1] and (isinstance(v_[2], int) or _num(v_[2]) is not None)
        other_list = v_ is not None and v_[0] in ("sub", "item") and "_added_operations" not in show(_devar(v_[1]))   # an element of some other container
        if not plain_index and not other_list and v_ is not None and "_added_operations" in show(v_):
            raise AnalysisError(f"DeclarativeCircuit.get_last_entry: {show(v_)[:120]} is not read as the last recorded entry (nor as another fixed position)")
    rep.check(len(rets) == 1 and _is_last(rets[0].value), "C02.L7", "DeclarativeCircuit.get_last_entry", f.loc, found=[show(p.value) for p in rets], required="self._added_operations[-1]",
              what="get_last_entry does not report the most recently added entry", detail="last-entry")
    # dispatch of IDeclarativeCircuit.add
    I = model.cls("IDeclarativeCircuit")
    f = I.resolve("add")
    ev = Evaluator(model, inline_methods=False)
    ps = PathEnumerator(ev).function_paths(f, self_cls=I)
    s = sym(f.self_name)
    op = sym([p for p in f.param_names if p != f.self_name][0])
    lattice = [("IDeclarativeCircuit", []), ("ICircuitCompositeOperation", ["ICircuitOperation"]), ("ICircuitOperation", [])]
    # concrete argument kinds and the isinstance facts they satisfy
    kinds = {
        "declarative circuit": {"IDeclarativeCircuit": True, "ICircuitCompositeOperation": False, "ICircuitOperation": False},
        "composite operation": {"IDeclarativeCircuit": False, "ICircuitCompositeOperation": True, "ICircuitOperation": True},
        "leaf operation": {"IDeclarativeCircuit": False, "ICircuitCompositeOperation": False, "ICircuitOperation": True},
    }
    want = {"declarative circuit": ("add_declarative_circuit", "add_sub_circuit"), "composite operation": ("add_sub_circuit",), "leaf operation": ("add_operation",)}
    for kind, facts in kinds.items():
        mp = {("isinstance", op, k): (TRUE if v else FALSE) for k, v in facts.items()}
        taken = []
        for p in ps:
            c = subst(p.cond, mp)
            if c == TRUE:
                taken.append(p)
            elif c != FALSE:
                raise AnalysisError(f"IDeclarativeCircuit.add: dispatch condition not decidable for a {kind}: {show(c)}")
        tv = None
        if len(taken) == 1 and taken[0].value is not None:
            # the handler may be picked from a table by this same test: with the kind known, ``getattr(self, <row>[0])(..)`` is a plain method call
            tv = subst(taken[0].value, mp)
            if tv[0] == "call" and isinstance(tv[1], tuple) and tv[1][0] == "call" and tv[1][1] in ("getattr", ("global", "getattr")) and len(tv[1][2]) == 2 \
                    and tv[1][2][1][0] == "const" and isinstance(tv[1][2][1][1], str):
                tv = ("call", ("attr", tv[1][2][0], tv[1][2][1][1])) + tv[2:]
        ok = len(taken) == 1 and taken[0].exit == "return" and tv is not None and tv[0] == "call" \
            and isinstance(tv[1], tuple) and tv[1][0] == "attr" and tv[1][1] == s and tv[1][2] in want[kind]
        rep.check(ok, "C02.L7", f"IDeclarativeCircuit.add[{kind}]", f.loc, found=[f"{p.exit} {show(tv if tv is not None else p.value) if p.value else ''}" for p in taken], required="self." + "/".join(want[kind]) + "(...)",
                  what=f"a {kind} handed to add() is not routed to its adding path (a sub-circuit inserted without the copy is shared with its source and keeps its old registry)",
                  detail=f"dispatch:{kind}")
    g = I.resolve("add_declarative_circuit")
    v = Evaluator(model, inline_methods=False).value_of(g, self_cls=I)
    gs = sym(g.self_name)
    circ = sym([p for p in g.param_names if p != g.self_name][0])
    okv = is_call_of(v, "add_sub_circuit") and v[1][1] == gs and (list(v[2]) + [x for _, x in v[3]]) == [("attr", circ, "circuit_structure")]
    rep.check(okv, "C02.L7", "IDeclarativeCircuit.add_declarative_circuit", g.loc, found=show(v), required="self.add_sub_circuit(circuit.circuit_structure)",
              what="a declarative circuit is not nested through the copying path", detail="declarative")


# ---------------------------------------------------------------------------------------------
def l9(model: Model, rep: Report):
    """L9: the graph primitives attach exactly what they are given (L3 counts calls of append_pointer_to; this rule looks inside)."""
    rep.rule("C02.L9", "graph primitives attach what they are given: append_pointers_to(endpoint, pointers) performs endpoint.point_towards(pointer) for EVERY element of "
                       "the whole list on every body path (no test -- in particular no value comparison of operations -- can skip a node); append_pointer_to hands over exactly "
                       "[pointer] under the given endpoint; GraphNode.point_towards records the successor and the predecessor unconditionally; get_next_pointers returns all successors")
    from ..paths import find_calls
    K = model.cls("CircuitGraphBranch")
    f = K.resolve("append_pointers_to")
    if f is None:
        raise AnalysisError("CircuitGraphBranch.append_pointers_to not found")
    names = [n for n in f.param_names if n != f.self_name]
    endpoint, pointers = sym(names[0]), sym(names[1])
    paths = PathEnumerator(Evaluator(model, inline_methods=False)).function_paths(f, self_cls=K)
    construct = "CircuitGraphBranch.append_pointers_to"
    rets = [p for p in paths if p.exit in ("return", "fall")]
    if not rets:
        raise AnalysisError(f"{construct}: no normal exit")
    bad: List[str] = []
    for p in rets:
        loops = [e for e in p.events if e.kind == "loop" and e.term is not None and (e.term == pointers or (e.term[0] == "var" and e.term[3] == pointers))]
        direct = [c for e in p.events if e.kind == "effect" and e.term is not None for c in find_calls(e.term, "point_towards")]
        if not loops:
            # a loop over something else (a slice, a filtered copy) or no loop at all
            others = [show(e.term) for e in p.events if e.kind == "loop" and e.term is not None and find_calls_in_loop(e, "point_towards")]
            bad.append(f"attaches over {others or 'nothing'} instead of the whole list '{names[1]}'" + (f" under {show(p.cond)[:60]}" if p.cond != TRUE else ""))
            continue
        if len(loops) > 1:
            bad.append("the pointer list is walked more than once")
        lp = loops[0]
        elem = ("bound", "for", lp.node.lineno, show(lp.term))
        for bp in lp.extra["paths"]:
            calls = [c for e in bp.events if e.kind == "effect" and e.term is not None for c in find_calls(e.term, "point_towards")]
            good = [c for c in calls if c[1] == ("attr", endpoint, "point_towards") and (list(c[2]) + [v for _, v in c[3]]) == [elem]]
            if bp.exit not in ("fall", "continue") or len(good) != 1 or len(calls) != 1:
                bad.append(f"a body path ({bp.exit} if {show(bp.cond)[:90]}) performs {[show(c)[:60] for c in calls] or 'no attach'}")
    rep.check(not bad, "C02.L9", construct, f.loc, found="; ".join(sorted(set(bad))) or f"for p in {names[1]}: {names[0]}.point_towards(p) -- unconditional",
              required="every given node attached under the given endpoint, on every path", what="a node handed to the graph can be skipped: " + "; ".join(sorted(set(bad))), detail="attach-all")
    g = K.resolve("append_pointer_to")
    if g is not None:
        gn = [n for n in g.param_names if n != g.self_name]
        ge, gp = sym(gn[0]), sym(gn[1])
        gps = [p for p in PathEnumerator(Evaluator(model, inline_methods=False)).function_paths(g, self_cls=K) if p.exit in ("return", "fall")]
        okg = bool(gps)
        found = []
        for p in gps:
            cs = [c for e in p.events if e.kind == "effect" and e.term is not None for c in find_calls(e.term, "append_pointers_to")]
            pt = [c for e in p.events if e.kind == "effect" and e.term is not None for c in find_calls(e.term, "point_towards")]
            found.append(", ".join(show(c)[:90] for c in cs + pt) or "nothing")
            if len(cs) == 1 and not pt:
                kw = dict(cs[0][3])
                vals = list(cs[0][2])
                e_ = kw.get("endpoint", vals[0] if vals else None)
                l_ = kw.get("pointers", vals[1] if len(vals) > 1 else None)
                okg = okg and e_ == ge and l_ is not None and l_[0] in ("list", "tuple") and tuple(l_[1]) == (gp,)
            elif len(pt) == 1 and not cs:
                okg = okg and pt[0][1] == ("attr", ge, "point_towards") and (list(pt[0][2]) + [v for _, v in pt[0][3]]) == [gp]
            else:
                okg = False
        rep.check(okg, "C02.L9", "CircuitGraphBranch.append_pointer_to", g.loc, found=found, required="append_pointers_to(endpoint=endpoint, pointers=[pointer])",
                  what="the single-node append does not hand exactly the given node to the given endpoint", detail="single")
    n_nodes = 0
    for cname in ("GraphNode", "EndpointNode", "EntrypointNode", "Endpoint", "Entrypoint"):
        N = model.maybe_cls(cname)
        if N is None:
            continue
        pt = N.own_function("point_towards") if hasattr(N, "own_function") else None
        if pt is not None and "abstractmethod" not in pt.decorators:
            n_nodes += 1
            pn = sym([n for n in pt.param_names if n != pt.self_name][0])
            s_ = sym(pt.self_name)
            pps = [p for p in PathEnumerator(Evaluator(model, inline_methods=False)).function_paths(pt, self_cls=N)]
            okp = bool(pps)
            for p in pps:
                effs = [e.term for e in p.events if e.kind == "effect" and e.term is not None]
                app = [t for t in effs if t[0] == "call" and t[1] == ("attr", ("attr", s_, "_outgoing_pointers"), "append") and list(t[2]) == [pn]]
                upd = [c for t in effs for c in find_calls(t, "update_set_incoming_pointer") if c[1] == ("attr", pn, "update_set_incoming_pointer") and (list(c[2]) + [v for _, v in c[3]]) == [s_]]
                okp = okp and p.exit in ("fall", "return") and len(app) == 1 and len(upd) == 1 and p.cond == TRUE
            rep.check(okp, "C02.L9", f"{cname}.point_towards", pt.loc, found=[[show(e.term)[:70] for e in p.events if e.kind == "effect"] for p in pps],
                      required="self._outgoing_pointers.append(pointer); pointer.update_set_incoming_pointer(pointer=self) -- unconditional",
                      what="a successor is not recorded unconditionally on both ends", detail=f"point:{cname}")
        us = N.own_function("update_set_incoming_pointer") if hasattr(N, "own_function") else None
        if us is not None and "abstractmethod" not in us.decorators and cname == "GraphNode":
            un = sym([n for n in us.param_names if n != us.self_name][0])
            s_ = sym(us.self_name)
            ups = [p for p in PathEnumerator(Evaluator(model, inline_methods=False)).function_paths(us, self_cls=N)]
            oku = bool(ups)
            for p in ups:
                effs = [e.term for e in p.events if e.kind == "effect" and e.term is not None]
                app = [t for t in effs if t[0] == "call" and t[1] == ("attr", ("attr", s_, "_incoming_pointers"), "append") and list(t[2]) == [un]]
                oku = oku and len(app) == 1 and p.cond == TRUE
            rep.check(oku, "C02.L9", f"{cname}.update_set_incoming_pointer", us.loc, found=[[show(e.term)[:70] for e in p.events if e.kind == "effect"] for p in ups],
                      required="self._incoming_pointers.append(pointer) -- unconditional", what="a predecessor is not recorded unconditionally", detail=f"incoming:{cname}")
        gn_ = N.own_function("get_next_pointers") if hasattr(N, "own_function") else None
        if gn_ is not None and "abstractmethod" not in gn_.decorators and cname == "GraphNode":
            v = Evaluator(model).value_of(gn_, self_cls=N)
            okn = v in (("attr", sym(gn_.self_name), "_outgoing_pointers"), ("attr", sym(gn_.self_name), "outgoing_pointers"))
            rep.check(okn, "C02.L9", f"{cname}.get_next_pointers", gn_.loc, found=show(v), required="self._outgoing_pointers (all successors)", what="the traversal is not handed every successor of a node", detail="next")
    rep.floor("node classes with point_towards", n_nodes, 1)


def find_calls_in_loop(lp, name: str) -> bool:
    from ..paths import find_calls
    return any(find_calls(e.term, name) for bp in lp.extra["paths"] for e in bp.events if e.term is not None)
