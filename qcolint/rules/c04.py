"""C04 -- a (sub-)circuit's duration spans everything it contains.

D1  in CircuitCompositeOperation.duration the earliest start and the latest end each range over ALL contained nodes.
D2  the result is  max(end) - min(start)  (directions, complete minimum before it is used, neutral initial values);
    an empty composite reports 0.
D3  the figure width is  max(1, latest end over all listed operations) + 1.
"""
from __future__ import annotations

from fractions import Fraction
from typing import Dict, List, Optional, Tuple

from ..extreme import ELEM, NotExtreme, Summary, comprehension_extreme, fuse_comprehensions, is_inf, normalise_ext, summarise
from ..model import AnalysisError, Model
from ..paths import Path, PathEnumerator
from ..report import Report
from ..sym import (FALSE, NONE, TRUE, Evaluator, Frame, Term, Unsupported, as_lin, lin, number, show, subst, subterms, sym, t_add,
                   t_not, t_or, t_scale)
from .common import node_iterator_domain, strip_identity_wrappers


def check(model: Model, rep: Report, tier: str):
    with rep.isolated():
        duration_rule(model, rep)
    with rep.isolated():
        width_rule(model, rep, "C04.D3")
    with rep.isolated():
        front_rule(model, rep)
    from .c01 import r2
    from .common import share_rule
    with rep.isolated():
        share_rule(rep, model, r2, "C04.D5", "end_time == start_time + duration in every definition (shared C01.R2): the span of D2 is computed from end times, and "
                                             "'everything FOLLOWED_BY the block starts after all of it has ended' reads them", only_rules={"C01.R2"})
    from .c02 import l12
    with rep.isolated():
        l12(model, rep, "C04.D7")
    from .c03 import h5
    from ..resolve import CallGraph
    with rep.isolated():
        cg = CallGraph(model)
        share_rule(rep, model, lambda m, r: h5(m, r, cg), "C04.D6", "the start of what follows a block is memoised per link: the memo key separates links to different blocks, "
                   "so a follower never receives the end of another block (= C03.H5)",
                   keep=lambda o: "/structure/" in o["loc"] or "/language/" in o["loc"])
    with rep.isolated():
        d9(model, rep)


def d9(model: Model, rep: Report):
    from .c01 import r7
    from .common import share_rule
    share_rule(rep, model, r7, "C04.D9", "what follows a block starts at the block's reported end only if the block's heads carry the block's own relation (type included) into the "
               "listing and repeated copies are chained behind all leaves (= C01.R7): heads that lose the relation type, or are decomposed before they receive it, sit elsewhere "
               "than the block reports")


def front_rule(model: Model, rep: Report):
    """D4: the duration a user reads from a circuit object is the span of its structure, on every path (no stored value in between)."""
    rep.rule("C04.D4", "DeclarativeCircuit.duration (what the user reads) == the duration of its circuit structure, evaluated on every call: one return, "
                       "no stored or defaulted value")
    from .common import front_delegation
    front_delegation(model, rep, "C04.D4", "DeclarativeCircuit", "duration", "duration", False, "the duration read from a circuit is not always the current span of its structure")


def _callee_name(c) -> str:
    return c if isinstance(c, str) else show(c).split(".")[-1]


def reduce_extreme(ev: Evaluator, t: Term):
    """``functools.reduce(step, D, seed)`` whose step keeps the larger (smaller) of the accumulator and a function of the element: the accumulator loop
    it abbreviates.  -> (direction, key, domain, seed, strict) or None"""
    if not (t[0] == "call" and _callee_name(t[1]) == "reduce" and len(t[2]) == 3 and not t[3]):
        return None
    step, dom, seed = t[2]
    acc = ("sym", "@acc")
    try:
        r = ev._apply_binary(step, acc, ELEM, Frame(None, None, {}, None, 0))
    except Unsupported:
        return None
    if r is None:
        return None
    r = _unvar(r)
    if r[0] in ("max", "min") and len(r[1]) == 2 and acc in r[1]:
        key = [x for x in r[1] if x != acc][0]
        return (r[0], key, dom, seed, False) if not subterms(key, lambda x: x == acc) else None
    if r[0] == "call" and r[1] in ("max", "min") and len(r[2]) == 2 and not r[3] and acc in r[2]:
        key = [x for x in r[2] if x != acc][0]
        return (r[1], key, dom, seed, False) if not subterms(key, lambda x: x == acc) else None
    if r[0] == "ite" and acc in (r[2], r[3]) and r[2] != r[3]:
        key = r[3] if r[2] == acc else r[2]
        if subterms(key, lambda x: x == acc):
            return None
        for d, ops in (("max", ((">", False), (">=", False), ("<", True), ("<=", True))), ("min", (("<", False), ("<=", False), (">", True), (">=", True)))):
            for op, swapped in ops:
                # ``key OP acc`` selects the key  /  ``acc OP' key`` selects the accumulator
                c_key = t_cmp(op, acc, key) if swapped else t_cmp(op, key, acc)
                if r[2] == key and r[1] == c_key:
                    return d, key, dom, seed, op in (">", "<")
                inv = {">": "<=", ">=": "<", "<": ">=", "<=": ">"}[op]
                c_acc = t_cmp(inv, acc, key) if swapped else t_cmp(inv, key, acc)
                if r[2] == acc and r[1] == c_acc:
                    return d, key, dom, seed, op in (">", "<")
    return None


def resolve_extremes(path: Path, value: Term, ev: Optional[Evaluator] = None) -> Tuple[Term, List[Summary], List[str]]:
    """Replace accumulators left by the loops of ``path`` (and min()/max() comprehensions) in ``value`` by EXT normal
    forms.  Returns (normalised value, summaries used, problems)."""
    problems: List[str] = []
    used: List[Summary] = []
    if ev is not None:
        for t in subterms(value, lambda x: x[0] == "call" and _callee_name(x[1]) == "reduce"):
            re_ = reduce_extreme(ev, t)
            if re_ is not None:
                d, key, dom, seed, strict = re_
                term, inv = normalise_ext(d, key, dom)
                su = Summary("reduce(...)", d, key, seed, dom, None, strict)
                su.norm, su.inv = t_add(term, inv), inv
                used.append(su)
                value = subst(value, {t: su.norm})
    loops = [e for e in path.events if e.kind == "loop"]
    mapping: Dict[Term, Term] = {}
    for lp in loops:
        try:
            sums = summarise(lp)
        except NotExtreme as e:
            problems.append(str(e))
            continue
        for name, s in sums.items():
            key = subst(s.key, mapping)           # earlier accumulators are complete (loop-invariant) here
            term, inv = normalise_ext(s.direction, key, s.domain)
            s.norm = t_add(term, inv)
            s.inv = inv
            mapping[("after", name, lp.node.lineno)] = s.norm
            used.append(s)
    v = fuse_comprehensions(subst(value, mapping))
    # comprehension idioms (innermost first: a comprehension may use an extreme computed before it)
    for _ in range(8):
        cands = [t for t in subterms(v, lambda x: x[0] == "call" and x[1] in ("min", "max"))
                 if not subterms(t[2], lambda x: x[0] == "call" and x[1] in ("min", "max") and x is not t)]
        if not cands:
            break
        t = cands[0]
        ce = comprehension_extreme(t)
        if ce is not None:
            d, key, dom, default = ce
            term, inv = normalise_ext(d, key, dom)
            v = subst(v, {t: t_add(term, inv)})
            continue
        se = seeded_extreme(t)
        if se is not None:
            d, key, dom, seed = se
            term, inv = normalise_ext(d, key, dom)
            su = Summary(f"{d}([seed] + ...)", d, key, seed, dom, None, True)
            su.norm, su.inv = t_add(term, inv), inv
            used.append(su)
            v = subst(v, {t: su.norm})
            continue
        break
    return v, used, problems


def seeded_extreme(t: Term):
    """``max([seed] + [f(e) for e in D])`` (either order): the list form of an accumulator that starts at ``seed``.
    -> (direction, key, domain, seed)"""
    if not (t[0] == "call" and t[1] in ("min", "max") and len(t[2]) == 1 and not t[3]):
        return None
    a = _unvar(t[2][0])
    if a[0] != "concat":
        return None
    parts = [_unvar(x) for x in a[1]]
    comps = [x for x in parts if x[0] == "comp" and x[1] in ("list", "gen")]
    seeds = [y for x in parts if x[0] in ("list", "tuple") for y in x[1]]
    if len(comps) != 1 or len(seeds) != 1 or len(comps) + len([x for x in parts if x[0] in ("list", "tuple")]) != len(parts):
        return None
    ce = comprehension_extreme(("call", t[1], (("comp", "gen") + comps[0][2:],), ()))
    if ce is None:
        return None
    d, key, dom, _ = ce
    return d, key, dom, seeds[0]


def _unvar(t: Term) -> Term:
    while t[0] == "var":
        t = t[3]
    return t


def duration_rule(model: Model, rep: Report):
    rep.rule("C04.D1", "earliest start and latest end in CircuitCompositeOperation.duration each range over ALL nodes of the block's graph "
                       "(get_node_iterator), not over a depth layer, the relation leaves or a slice")
    rep.rule("C04.D2", "duration == max(end_time) - min(start_time) over the contained operations; the minimum is complete before it is "
                       "subtracted; accumulators start neutral (+inf for the minimum); an empty composite has duration 0")
    K = model.cls("CircuitCompositeOperation")
    f = K.properties.get("duration")
    if f is None:
        raise AnalysisError("CircuitCompositeOperation.duration not found")
    # end_time == start_time + duration is C01.R2; keep it as one atom here
    ev = Evaluator(model, inline_methods=False, opaque={"IDurationComponent.end_time"})
    paths = PathEnumerator(ev).function_paths(f, self_cls=K)
    s = sym(f.self_name)
    construct = "CircuitCompositeOperation.duration"
    fr = Frame(f, f.module, {f.self_name: s}, K, 0)
    ev.set_type(s, K)
    graph_field = "_circuit_graph"
    empty = ev.attr(s, "empty_composite", fr)
    rets = [p for p in paths if p.exit == "return"]
    n_main = 0
    for p in rets:
        has_loop = any(e.kind == "loop" for e in p.events)
        comp = p.value is not None and subterms(p.value, lambda x: x[0] == "comp")
        if not has_loop and not comp:
            ok = p.value == lin({}, Fraction(0)) and p.cond == empty
            rep.check(ok, "C04.D2", construct + "[empty]", f.loc, found=f"return {show(p.value)} if {show(p.cond)}", required=f"return 0 iff {show(empty)}",
                      what="only an empty block may short-cut to a constant duration, and that constant is 0", detail="empty")
            continue
        n_main += 1
        v, used, problems = resolve_extremes(p, p.value, ev)
        ext = subterms(v, lambda x: x[0] == "ext")
        # D1: domains
        for e in ext:
            dom = node_iterator_domain(e[2])
            base = strip_identity_wrappers(e[2])
            on_graph = dom == "ALL" and base[1][1] == ("attr", s, graph_field)
            what = "the latest end" if e[1] == "max" else "the earliest start"
            rep.check(on_graph, "C04.D1", construct + f"[{e[1]}-domain]", f.loc, found=f"{e[1]} over {show(e[2])} -> {dom}", required="ALL nodes of self._circuit_graph",
                      what=f"{what} is taken over a subset of the contained operations (an operation outside that subset can bound the span)",
                      detail=f"domain:{e[1]}")
        # D2: form
        elem_op = ("attr", ELEM, "operation")
        want_max = [e for e in ext if e[1] == "max" and e[3] == ("attr", elem_op, "end_time")]
        want_min = [e for e in ext if e[1] == "min" and e[3] == ("attr", elem_op, "start_time")]
        form_ok = False
        if len(want_max) == 1 and len(want_min) == 1 and not problems:
            form_ok = v == t_add(want_max[0], want_min[0], -1)
        rep.check(form_ok, "C04.D2", construct + "[form]", f.loc, found="; ".join(problems) or show(v),
                  required="max over nodes of operation.end_time  -  min over nodes of operation.start_time",
                  what="the reported duration is not latest end minus earliest start: " + ("; ".join(problems) or show(v)), detail="form")
        # initial values
        for su in used:
            if su.direction == "min":
                ok = is_inf(su.init) == 1
                rep.check(ok, "C04.D2", construct + f"[init:{su.name}]", f.loc, found=show(su.init), required="+inf (neutral for a minimum)",
                          what="the running minimum starts from a finite value: starts later than that value are never seen (the span is over-reported)",
                          detail="init-min")
            else:
                n = number(su.init)
                # a maximum of (end - min_start) is >= 0 for a non-empty block, so 0 is neutral there; a raw maximum needs -inf
                delta = su.inv != lin({}, Fraction(0))
                ok = is_inf(su.init) == -1 or (delta and n is not None and n == 0)
                rep.check(ok, "C04.D2", construct + f"[init:{su.name}]", f.loc, found=show(su.init), required="0 for a maximum of (end - earliest start), else -inf",
                          what="the running maximum starts from a value that can exceed every candidate", detail="init-max")
        rep.check(p.cond == t_not(empty) or p.cond == TRUE, "C04.D2", construct + "[guard]", f.loc, found=show(p.cond), required=f"not {show(empty)}",
                  what="the span computation is skipped for some non-empty blocks", detail="guard")
    rep.floor("span-computing return paths of duration", n_main, 1)


def width_rule(model: Model, rep: Report, rule: str):
    rep.rule(rule, "construct_visual_description: channel_width == max(1, latest end_time over ALL listed operations) + 1")
    f = model.function("display_circuit", "construct_visual_description")
    ev = Evaluator(model, inline_methods=False, opaque={"IDurationComponent.end_time"})
    paths = PathEnumerator(ev).function_paths(f)
    circuit = sym(f.params[0].arg)
    construct = "construct_visual_description[width]"
    ops = ("attr", circuit, "operations")
    n = 0
    for p in [q for q in paths if q.exit == "return"]:
        v = p.value
        if v is None or v[0] != "new" or v[1] != "VisualCircuitDescription":
            raise AnalysisError("construct_visual_description does not return a VisualCircuitDescription")
        n += 1
        width = dict(v[2]).get("channel_width")
        if width is None:
            rep.fail(rule, construct, f.loc, found="channel_width not passed", required="max(1, latest end) + 1", what="figure width not derived from the schedule", detail="missing")
            continue
        wpath = p
        wev = ev
        wv = width
        while wv[0] == "var" and wv[3][0] not in ("list", "comp", "dict"):
            wv = wv[3]
        if wv[0] == "call" and isinstance(wv[1], tuple) and wv[1][0] == "fn":
            # the width is computed by a function of the module: read that function with the arguments it is given here (defaults for the rest)
            cands = [x for x in model.all_functions() if x.qualname == wv[1][1] and x.module is f.module]
            if len(cands) == 1:
                g = cands[0]
                names = g.param_names
                given = dict(zip(names, wv[2]))
                given.update(dict(wv[3]))
                a_ = g.node.args
                pos_ = list(a_.posonlyargs) + list(a_.args)
                dflt = dict(zip([x.arg for x in pos_][::-1], list(a_.defaults)[::-1]))
                ev_g = Evaluator(model, inline_methods=False, opaque={"IDurationComponent.end_time"})
                for nm in names:
                    if nm not in given and nm in dflt:
                        given[nm] = ev_g.expr(dflt[nm], Frame(g, g.module, {}, None, 0))
                if set(given) == set(names):
                    gps = [q for q in PathEnumerator(ev_g).function_paths(g, args=given) if q.exit == "return"]
                    if len(gps) == 1 and gps[0].value is not None:
                        wpath, width, wev = gps[0], gps[0].value, ev_g
        w, used, problems = resolve_extremes(wpath, width, wev)
        ext = subterms(w, lambda x: x[0] == "ext")
        ok = False
        found = "; ".join(problems) or show(w)
        if len(ext) == 1 and not problems:
            e = ext[0]
            dom_ok = strip_identity_wrappers(e[2]) == ops
            key_ok = e[1] == "max" and e[3] == ("attr", ELEM, "end_time")
            one = lin({}, Fraction(1))
            if used:
                # loop idiom: the accumulator starts at 1 and is replaced by larger end times
                form_ok = w == t_add(e, one) and all(number(su.init) == 1 for su in used)
            else:
                # builtin idiom: max(1, max(op.end_time for op in operations)) + 1
                form_ok = w == t_add(("max", tuple(sorted([one, e], key=repr))), one)
            ok = dom_ok and key_ok and form_ok
            if not dom_ok:
                found = f"max over {show(e[2])}"
            elif not form_ok:
                found = show(w) + (f" with accumulator starting at {[show(su.init) for su in used]}" if used else "")
        rep.check(ok, rule, construct, f.loc, found=found, required=f"max(1, max(op.end_time for op in {show(ops)})) + 1",
                  what="the figure is not sized to the latest end time of the drawn operations", detail="width")
        ops_arg = dict(v[2]).get("operations")
        rep.check(ops_arg == ops, rule, "construct_visual_description[operations]", f.loc, found=show(ops_arg) if ops_arg else None, required=show(ops),
                  what="the drawn operations are not the circuit's operation listing", detail="operations")
    rep.floor("return paths of construct_visual_description", n, 1)
