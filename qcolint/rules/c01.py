"""C01 -- relation-based timing: every operation sits where its relation says.

The global statement follows by induction over the acyclic reference order from the local facts below.

R1  RelationLink.get_start_time: the relation equations (tabulated over reference-None x every RelationType member).
R2  end_time == start_time + duration, nowhere overridden by another form.
R3  every concrete operation asks its own link with its own duration; relation_link getter/setter use one field.
R4  MultiRelationLink.reference_node is the latest-ending member of the whole group; its get_start_time applies the
    same equations to that member.
R5  get_leaf_at_any: deepest first, first node sharing ANY of the requested channels, None otherwise.
R6  add_to_graph: exactly one node appended per feasible path, and graph parent == relation reference.
R7  decomposed_operations / extend hand the block link (resp. the LATEST/FOLLOWED_BY group link over ALL leaves)
    to exactly the operations without relation.
"""
from __future__ import annotations

import ast
import re
from fractions import Fraction
from typing import Dict, List, Optional, Tuple

from ..model import AnalysisError, ClassInfo, FunctionInfo, Model, dotted
from ..paths import Path, PathEnumerator, find_calls
from ..report import Report
from ..sym import (FALSE, NONE, TRUE, Evaluator, Frame, Outcome, Term, Unsupported, atoms_of, const, lin, number, show, subst, subterms,
                   sym, t_add, t_and, t_cmp, t_not, t_or)
from .common import (call_arg, call_args, effect_calls, is_call_of, loop_of, node_iterator_domain, norm_stmt, returns_receiver, stores,
                     strip_identity_wrappers)

SPEC_EQUATIONS = {
    "FOLLOWED_BY": "ref.end_time",
    "JOINED_START": "ref.start_time",
    "JOINED_END": "ref.end_time - duration",
}


def check(model: Model, rep: Report, tier: str):
    rep.trust("spec: FOLLOWED_BY -> ref.end; JOINED_START -> ref.start; JOINED_END -> ref.end - duration; no reference -> 0")
    with rep.isolated():
        r1(model, rep)
    with rep.isolated():
        r2(model, rep)
    with rep.isolated():
        r3(model, rep)
    with rep.isolated():
        r4(model, rep)
    with rep.isolated():
        r5(model, rep)
    with rep.isolated():
        r6(model, rep)
    with rep.isolated():
        r7(model, rep)
    with rep.isolated():
        r8(model, rep)
    with rep.isolated():
        r9(model, rep)
    with rep.isolated():
        r10(model, rep)
    from .c10 import t4
    from .common import share_rule
    with rep.isolated():
        share_rule(rep, model, t4, "C01.R11", "the duration that enters an operation's equations under the global settings is the setting of its own kind (reset / microwave / "
                   "flux / readout): class -> kind table and kind-books-its-channel agreement (= C10.T4)")
    with rep.isolated():
        r13(model, rep)
    with rep.isolated():
        r15(model, rep)
    from .c02 import l7 as _l7
    with rep.isolated():
        share_rule(rep, model, _l7, "C01.R16", "a block handed to add() -- as a declarative circuit or as a bare structure -- is nested as a COPY: add() tests the sub-circuit "
                   "interfaces before the plain-operation case (= C02.L7); nested by reference, the same block added twice is one object with one relation, so the second "
                   "occurrence sits on top of the first, and adding it to another circuit moves it in the first")
    with rep.isolated():
        from .c03 import h7 as _h7
        from ..effects import Effects as _Eff
        from ..resolve import CallGraph as _CG
        _cg = _CG(model)
        _h7(model, rep, _cg, _Eff(model, _cg), rule="C01.R14", keep=lambda f: "/structure/" in f.module.relpath or "/language/" in f.module.relpath)
    from .c05 import _k1_k2
    with rep.isolated():
        share_rule(rep, model, _k1_k2, "C01.R18", "the equations hold through nesting because a nested block is its copy: copy() of every operation and link class keeps the "
                   "relation type, the duration strategy, qubits and channels (= C05.K1/K2); a copy that falls back to a default follows instead of joining, or lasts 0")
    from .c03 import h5
    from ..resolve import CallGraph
    with rep.isolated():
        cg = CallGraph(model)
        share_rule(rep, model, lambda m, r: h5(m, r, cg), "C01.R12", "the memoised start time returned for an operation is its own: the memo key separates any two links "
                   "whose start times can differ (= C03.H5)",
                   keep=lambda o: "/structure/" in o["loc"] or "/language/" in o["loc"])


# ---------------------------------------------------------------------------------------------
def equation_table(rep: Report, ev: Evaluator, outs: List[Outcome], ref: Term, rtype: Term, duration: Term, rule: str,
                   construct: str, loc: str):
    """Tabulate guarded outcomes over (reference is None) x (relation type member) and compare with the equations."""
    members = ev.enum_members("RelationType")
    if not members:
        raise AnalysisError("RelationType enumeration not found")
    for m in SPEC_EQUATIONS:
        if m not in members:
            raise AnalysisError(f"RelationType.{m} vanished")
    none_atom = t_cmp("is", ref, NONE)
    required = {
        "FOLLOWED_BY": ("attr", ref, "end_time"),
        "JOINED_START": ("attr", ref, "start_time"),
        "JOINED_END": t_add(("attr", ref, "end_time"), duration, -1),
    }
    n = 0
    for ref_none in (True, False):
        for m in members:
            mp = {none_atom: const(ref_none), rtype: ("enum", "RelationType", m)}
            hits = []
            for o in outs:
                c = subst(o.cond, mp)
                if c == TRUE:
                    hits.append(o)
                elif c != FALSE:
                    raise Unsupported(f"{construct}: guard does not reduce on (ref is None={ref_none}, type={m}): {show(c)}")
            n += 1
            case = f"reference {'absent' if ref_none else 'present'}, {m}"
            if len(hits) != 1:
                rep.fail(rule, construct, loc, found=f"{len(hits)} outcomes for {case}", required="exactly one",
                         what="relation cases are not a partition", detail=f"partition:{ref_none}:{m}")
                continue
            o = hits[0]
            val = subst(o.value, mp) if o.value is not None else None
            if ref_none:
                ok = o.kind == "return" and val == lin({}, Fraction(0))
                rep.check(ok, rule, f"{construct}[no reference, {m}]", loc, found=f"{o.kind} {show(val) if val else ''}", required="return 0",
                          what="an operation without relation does not start with its enclosing circuit (time 0)", detail=f"noref:{m}")
            elif m in required:
                ok = o.kind == "return" and val == required[m]
                rep.check(ok, rule, f"{construct}[{m}]", loc, found=f"{o.kind} {show(val) if val else ''}", required="return " + show(required[m]),
                          what=f"{m} does not satisfy its scheduling equation ({SPEC_EQUATIONS[m]})", detail=f"eq:{m}")
            else:
                rep.check(o.kind == "raise", rule, f"{construct}[{m}]", loc, found=f"{o.kind} {show(val) if val else ''}", required="raise (no equation specified)",
                          what=f"relation type {m} has no specified equation and must be rejected", detail=f"eq:{m}")
    return n


def r1(model: Model, rep: Report):
    rep.rule("C01.R1", "RelationLink.get_start_time: no reference -> 0; FOLLOWED_BY -> ref.end_time; JOINED_START -> "
                       "ref.start_time; JOINED_END -> ref.end_time - duration; every RelationType member handled, anything else raises")
    L = model.cls("RelationLink")
    f = L.resolve("get_start_time")
    if f is None or f.cls is not L:
        raise AnalysisError("RelationLink.get_start_time not found")
    ev = Evaluator(model)
    outs = ev.eval_function(f, self_cls=L)
    self_t = sym(f.self_name)
    ref = ev.attr(self_t, "reference_node", Frame(f, f.module, {}, L, 0))
    rtype = ev.attr(self_t, "relation_type", Frame(f, f.module, {}, L, 0))
    dur = sym([p for p in f.param_names if p != f.self_name][0])
    # the link's two accessors may appear as the property or as the field it returns (depending on how deep the body was read): one spelling
    unify = {}
    for pname, t_prop in (("reference_node", ref), ("relation_type", rtype)):
        pf = L.properties.get(pname)
        if pf is not None:
            try:
                t_field = Evaluator(model, inline_methods=False).value_of(pf, self_cls=L)
            except Unsupported:
                t_field = None
            if t_field is not None and t_field != t_prop and t_field[0] == "attr":
                unify[t_field] = t_prop
    if unify:
        outs = [Outcome(subst(o.cond, unify), o.kind, subst(o.value, unify) if o.value is not None else None, o.node) for o in outs]
    n = equation_table(rep, ev, outs, ref, rtype, dur, "C01.R1", "RelationLink.get_start_time", f.loc)
    rep.analysed["C01.R1 cases"] = n
    # the reference / type properties return the stored fields
    flds = L.all_fields()
    ok = ref[0] == "attr" and ref[1] == self_t and ref[2] in flds and rtype[0] == "attr" and rtype[2] in flds
    rep.check(ok, "C01.R1", "RelationLink.reference_node/relation_type", L.loc, found=f"{show(ref)}, {show(rtype)}", required="the stored init-fields",
              what="the link does not report the reference / type it was created with", detail="accessors")
    # default relation type
    tf = flds.get(rtype[2]) if ok else None
    if tf is not None:
        d = ast.unparse(tf.default) if tf.default is not None else None
        rep.check(d is not None and d.endswith("FOLLOWED_BY"), "C01.R1", "RelationLink._relation_type[default]", f"{L.module.relpath}:{tf.lineno}",
                  found=d, required="RelationType.FOLLOWED_BY", what="a link created without a type (the implicit predecessor link) is not FOLLOWED_BY",
                  detail="default-type")


def r2(model: Model, rep: Report):
    rep.rule("C01.R2", "end_time == start_time + duration in IDurationComponent and in every override")
    base = model.cls("IDurationComponent")
    n = 0
    for c in [base] + model.subclasses(base):
        f = c.properties.get("end_time") or c.own_function("end_time")
        if f is None:
            continue
        n += 1
        ev = Evaluator(model, opaque={x.qualname for x in model.all_functions() if x.name in ("start_time", "duration")})
        v = ev.value_of(f, self_cls=c)
        s = sym(f.self_name)
        want = t_add(("attr", s, "start_time"), ("attr", s, "duration"))
        rep.check(v == want, "C01.R2", f"{c.name}.end_time", f.loc, found=show(v), required=show(want),
                  what="end time is not start time plus duration", detail="form")
    rep.floor("end_time definitions", n, 1)


def r3(model: Model, rep: Report):
    rep.rule("C01.R3", "for each concrete operation class the MRO-resolved start_time is "
                       "self.relation_link.get_start_time(duration=self.duration); the relation_link getter returns the field its setter writes")
    ico = model.cls("ICircuitOperation")
    classes = model.subclasses(ico, concrete_only=True)
    rep.floor("concrete operation classes", len(classes), 27)
    impls = set()
    for K in classes:
        f = K.resolve("start_time")
        if f is None or "abstractmethod" in f.decorators:
            raise AnalysisError(f"{K.name}: no start_time")
        impls.add(f)
        ev = Evaluator(model)
        fr = Frame(f, f.module, {}, K, 0)
        s = sym(f.self_name)
        ev.set_type(s, K)
        v = ev.value_of(f, self_cls=K)
        link = ev.attr(s, "relation_link", fr)
        dur = ev.attr(s, "duration", fr)
        ok = is_call_of(v, "get_start_time") and v[1][1] == link
        if ok:
            a, kw = call_args(v)
            given = list(a) + list(kw.values())
            ok = len(given) == 1 and given[0] == dur
        rep.check(ok, "C01.R3", f"{K.name}.start_time", f.loc, found=show(v), required=f"{show(link)}.get_start_time(duration={show(dur)})",
                  what="the operation does not ask its own relation link with its own duration", detail="start-time")
        # getter / setter agreement
        g = K.resolve("relation_link")
        st = K.resolve_setter("relation_link")
        if g is None or st is None:
            rep.fail("C01.R3", f"{K.name}.relation_link", K.loc, found="missing getter or setter", required="getter and setter",
                     what="relation link cannot be read or re-assigned", detail="accessors")
            continue
        impls.add(g)
        gv = Evaluator(model).value_of(g, self_cls=K)
        pe = PathEnumerator(Evaluator(model))
        sp = pe.function_paths(st, self_cls=K)
        sts = [e for p in sp for e in p.events if e.kind == "store"]
        param = sym([p for p in st.param_names if p != st.self_name][0])
        ok = (gv[0] == "attr" and gv[1] == sym(g.self_name) and len(sp) == 1 and len(sts) == 1
              and sts[0].term[1] == sym(st.self_name) and sts[0].term[2] == gv[2] and sts[0].term[3] == param)
        rep.check(ok, "C01.R3", f"{K.name}.relation_link[getter/setter]", g.loc, found=f"get {show(gv)}; set {[show(e.term) for e in sts]}",
                  required="getter returns self.<f>; setter stores its argument into self.<f>",
                  what="reading the link does not give back what was assigned", detail="getter-setter")
    rep.analysed["C01.R3 distinct start_time/relation_link implementations"] = len(impls)
    rep.floor("distinct start_time / relation_link getter implementations", len(impls), 10)


# ---------------------------------------------------------------------------------------------
def cmp_dir(cond: Term, x: Term, y: Term) -> Optional[str]:
    for op in (">", ">=", "<", "<=", "==", "!="):
        if t_cmp(op, x, y) == cond:
            return op
    return None


def check_arg_extreme_loop(rep: Report, rule: str, construct: str, loc: str, path: Path, coll: Term, key: str, want: str,
                           what: str) -> bool:
    """``acc = coll[i]; for e in coll: if e.key > acc.key: acc = e; return acc`` (want='max') as a loop summary.
    Also read: a scan over ``coll[1:]`` when the accumulator starts at ``coll[0]`` (together the whole group), and a second accumulator that
    carries ``acc.key`` (updated exactly when ``acc`` is).  Returns True when the shape was recognised (verdict recorded either way)."""
    lp = loop_of(path)
    if lp is None:
        return False
    acc_after = path.value
    if acc_after is None or acc_after[0] != "after":
        return False
    acc_name = acc_after[1]
    init = lp.extra["init_env"].get(acc_name)
    dom = strip_identity_wrappers(lp.term)
    init_ok = init is not None and init[0] == "sub" and strip_identity_wrappers(init[1]) == coll
    first = init_ok and number(init[2]) == 0
    rest = dom[0] == "slice" and strip_identity_wrappers(dom[1]) == coll and number(dom[2]) == 1 and dom[3] == NONE and dom[4] in (NONE, lin({}, Fraction(1)))
    dom_ok = dom == coll or (first and rest)
    rep.check(dom_ok, rule, construct + "[domain]", loc, found=show(lp.term), required=show(coll) + " (the whole group)",
              what="the scan does not range over the whole group of reference nodes", detail="domain")
    elem = ("bound", "for", lp.node.lineno, show(lp.term))
    rep.check(init_ok, rule, construct + "[init]", loc, found=show(init) if init else None, required="an element of the group",
              what="the accumulator does not start as a member of the group", detail="init")
    acc = ("loopvar", acc_name, lp.node.lineno)
    # companions: b == acc.key as a loop invariant (same initial relation, updated on exactly the same paths to the same relation)
    companions: Dict[Term, Term] = {}
    for b in lp.extra["assigned"]:
        if b == acc_name or b not in lp.extra["init_env"]:
            continue
        bi = lp.extra["init_env"][b]
        if init is None or bi != ("attr", init, key):
            continue
        bv = ("loopvar", b, lp.node.lineno)
        inv = True
        for bp in lp.extra["paths"]:
            na, nb = bp.env.get(acc_name), bp.env.get(b)
            if na == acc and nb == bv:
                continue
            if na is not None and nb == ("attr", na, key):
                continue
            inv = False
        if inv:
            companions[bv] = ("attr", acc, key)
    problems = []
    replaced_when = []
    for bp in lp.extra["paths"]:
        newv = bp.env.get(acc_name)
        if bp.exit not in ("fall", "continue"):
            problems.append(f"loop left early ({bp.exit})")
        if newv == acc:
            continue
        if newv != elem:
            problems.append(f"accumulator set to {show(newv)}")
            continue
        replaced_when.append(subst(bp.cond, companions) if companions else bp.cond)
    if len(replaced_when) != 1:
        problems.append(f"{len(replaced_when)} replacing paths")
    else:
        d = cmp_dir(replaced_when[0], ("attr", elem, key), ("attr", acc, key))
        good = (">", ">=") if want == "max" else ("<", "<=")
        if d not in good:
            problems.append(f"replaces when candidate.{key} {d or show(replaced_when[0])} current.{key}")
    rep.check(not problems, rule, construct, loc, found="; ".join(problems) or f"replace iff candidate.{key} {'>' if want == 'max' else '<'} current.{key}",
              required=f"{'latest' if want == 'max' else 'earliest'}: replace exactly when candidate.{key} {'>' if want == 'max' else '<'} current.{key}",
              what=what + ": " + "; ".join(problems), detail="direction")
    return True


def key_selects(model: Model, key: Optional[Term], attr: str) -> bool:
    """``key=`` argument of max/min/sorted that maps an element to ``element.<attr>``: a lambda, or a named function / static method doing that."""
    if key is None:
        return False
    if key[0] == "lambda":
        return re.fullmatch(r"lambda (\w+): \1\." + re.escape(attr), key[1]) is not None
    if key[0] == "fn":
        cands = [f for f in model.all_functions() if f.qualname == key[1]]
        if len(cands) != 1:
            return False
        f = cands[0]
        names = [p for p in f.param_names if not (f.kind in ("method", "classmethod") and p == f.self_name)]
        if len(names) != 1:
            return False
        try:
            v = Evaluator(model, inline_methods=False, opaque={x.qualname for x in model.all_functions() if x.name == attr}).value_of(f, self_cls=f.cls)
        except Unsupported:
            return False
        return v == ("attr", sym(names[0]), attr)
    if key[0] == "call" and key[1] in (("global", "attrgetter"), "attrgetter") and key[2] == (("const", attr),):
        return True
    return False


def r4(model: Model, rep: Report):
    rep.rule("C01.R4", "MultiRelationLink.reference_node: empty group -> None; otherwise the member with the greatest end_time "
                       "over the WHOLE group; get_start_time applies the relation equations to that member and the link's type")
    M = model.cls("MultiRelationLink")
    f = M.properties.get("reference_node")
    if f is None:
        raise AnalysisError("MultiRelationLink.reference_node not found")
    ev = Evaluator(model)
    paths = PathEnumerator(ev).function_paths(f, self_cls=M)
    s = sym(f.self_name)
    nodes_field = [n for n, fi in M.all_fields().items() if fi.init and ev.ann_class(fi.annotation, fi.owner.module) is None]
    if len(nodes_field) != 1:
        raise AnalysisError("MultiRelationLink: group field not identified")
    coll = ("attr", s, nodes_field[0])
    construct = "MultiRelationLink.reference_node"
    rets = [p for p in paths if p.exit == "return"]
    empty_cond = t_cmp("==", ("call", "len", (coll,), ()), lin({}, Fraction(0)))
    recognised = False
    for p in rets:
        if p.value == NONE:
            ok = p.cond == empty_cond or p.cond == t_not(coll)
            rep.check(ok, "C01.R4", construct + "[empty]", f.loc, found=f"None if {show(p.cond)}", required="None iff the group is empty",
                      what="None is returned for a non-empty group (the followers would start at 0)", detail="empty")
            continue
        # max(...) idiom
        v = p.value
        if v is not None and v[0] == "call" and isinstance(v[1], tuple) and v[1][0] == "sub" and v[1][1][0] == "dict" and v[1][2][0] == "attr" and v[1][2][1] == s:
            # selection function looked up by the link's relation-to-group: the entry that chained copies use (LATEST, the field's default) is what R4 is about
            entry = [fn for k_, fn in v[1][1][1] if k_[0] == "enum" and k_[2] == "LATEST"]
            if len(entry) == 1:
                fn = entry[0]
                name = fn if isinstance(fn, str) else fn[1] if isinstance(fn, tuple) and fn[0] in ("global", "builtin") else None
                if name in ("max", "min"):
                    v = ("call", name) + tuple(v[2:])
                    if name == "min":
                        rep.fail("C01.R4", construct, f.loc, found=show(p.value)[:160], required="max(group, key=end_time) for LATEST", what="the LATEST member of a group is selected with min", detail="direction")
                        recognised = True
                        continue
        if v is not None and v[0] == "call" and v[1] == "max" and v[2] and strip_identity_wrappers(v[2][0]) == coll:
            ok = key_selects(model, dict(v[3]).get("key"), "end_time")
            rep.check(ok, "C01.R4", construct, f.loc, found=show(v), required="max(group, key=end_time)", what="not the latest-ending member", detail="direction")
            recognised = True
            continue
        if check_arg_extreme_loop(rep, "C01.R4", construct, f.loc, p, coll, "end_time", "max",
                                  "the group reference is not its latest-ending member (copies of a repeated block start too early)"):
            recognised = True
    if not recognised:
        raise AnalysisError(f"{construct}: latest-of-group computation not recognised")
    # delegation
    g = M.resolve("get_start_time")
    ev2 = Evaluator(model, opaque={f.qualname})
    outs = ev2.eval_function(g, self_cls=M)
    gs = sym(g.self_name)
    ref = ("attr", gs, "reference_node")
    fr = Frame(g, g.module, {}, M, 0)
    ev2.set_type(gs, M)
    rtype = ev2.attr(gs, "relation_type", fr)
    dur = sym([p for p in g.param_names if p != g.self_name][0])
    equation_table(rep, ev2, outs, ref, rtype, dur, "C01.R4", "MultiRelationLink.get_start_time", g.loc)


# ---------------------------------------------------------------------------------------------
def r5(model: Model, rep: Report):
    rep.rule("C01.R5", "CircuitGraphBranch.get_leaf_at_any scans the node listing deepest first and returns the first node that "
                       "shares ANY of the requested channel identifiers (the whole argument); None when there is none")
    G = model.cls("CircuitGraphBranch")
    f = G.resolve("get_leaf_at_any")
    if f is None:
        raise AnalysisError("get_leaf_at_any not found")
    ev = Evaluator(model)
    paths = PathEnumerator(ev).function_paths(f, self_cls=G)
    s = sym(f.self_name)
    param = sym([p for p in f.param_names if p != f.self_name][0])
    construct = "CircuitGraphBranch.get_leaf_at_any"
    fall = [p for p in paths if p.exit == "return" and not [e for e in p.events if e.kind == "loopexit"]]
    if len(fall) != 1:
        raise AnalysisError(f"{construct}: unexpected shape")
    p = fall[0]
    lp = loop_of(p)
    if lp is None:
        raise AnalysisError(f"{construct}: no scan loop")
    dom = node_iterator_domain(lp.term)
    inner = strip_identity_wrappers(lp.term)
    rep.check(dom == "REVERSED-ALL", "C01.R5", construct + "[order]", f.loc, found=f"{show(lp.term)} -> {dom}", required="reversed(all nodes): deepest first",
              what="the implicit predecessor is not searched deepest-first over all nodes" +
                   (" (first instead of latest matching node)" if dom == "ALL" else ""), detail="order")
    rep.check(p.value == NONE, "C01.R5", construct + "[miss]", f.loc, found=show(p.value), required="None", what="a miss does not return None", detail="miss")
    elem = ("bound", "for", lp.node.lineno, show(lp.term))
    hit_paths = [bp for bp in lp.extra["paths"] if bp.exit == "return"]
    other = [bp for bp in lp.extra["paths"] if bp.exit not in ("return", "fall", "continue")]
    ok_shape = len(hit_paths) == 1 and not other and hit_paths[0].value == elem
    rep.check(ok_shape, "C01.R5", construct + "[first-hit]", f.loc, found=[f"{bp.exit} {show(bp.value) if bp.value else ''}" for bp in lp.extra["paths"]],
              required="return the scanned node at the first hit, otherwise keep scanning", what="the scan does not return the first matching node",
              detail="first-hit")
    if not ok_shape:
        return
    cond = hit_paths[0].cond
    chans = ("attr", ("attr", elem, "operation"), "channel_identifiers")
    ok = False
    found = show(cond)
    if cond[0] == "quant" and cond[1] == "any" and cond[2][0] == "comp":
        comp = cond[2]
        gens = comp[3]
        if len(gens) == 1 and not gens[0][1]:
            it = gens[0][0]
            elt = comp[2]
            dom_ok = it == param
            in_ok = elt[0] == "in" and elt[1][0] == "bound" and elt[2] == chans
            ok = dom_ok and in_ok
            if not dom_ok:
                found = f"any(... for e in {show(it)})"
    elif cond[0] == "quant" and cond[1] == "all":
        found = "all(...)"
    rep.check(ok, "C01.R5", construct + "[match]", f.loc, found=found, required=f"any(e in node.operation.channel_identifiers for e in {show(param)})",
              what="a node matches on something else than sharing any one of the requested channels (quantifier or range narrowed)", detail="match")


# ---------------------------------------------------------------------------------------------
def r6(model: Model, rep: Report):
    rep.rule("C01.R6", "CircuitGraphBranch.add_to_graph: on every feasible path exactly one fresh node is appended under parent P, "
                       "and P corresponds to the link the operation holds afterwards: root <-> no reference; leaf_node <-> "
                       "RelationLink(leaf_node.operation) of default type FOLLOWED_BY; relation node <-> the given link (untouched)")
    G = model.cls("CircuitGraphBranch")
    f = G.resolve("add_to_graph")
    if f is None:
        raise AnalysisError("add_to_graph not found")
    ev = Evaluator(model, inline_methods=False)
    paths = PathEnumerator(ev).function_paths(f, self_cls=G)
    names = [p for p in f.param_names]
    graph, operation = sym(names[0]), sym(names[1])
    construct = "CircuitGraphBranch.add_to_graph"
    n_paths = 0
    link_of_op = ("attr", operation, "relation_link")
    has_rel = t_not(t_cmp("is", ("attr", link_of_op, "reference_node"), NONE))
    unread: List[str] = []

    def _opaque_guard(cond) -> Optional[str]:
        """an attribute of the operation's link, other than reference_node, that the path condition tests (a property the link classes define each in their own way)"""
        for a_ in subterms(cond, lambda x: x[0] == "attr" and x[1] == link_of_op and x[2] != "reference_node"):
            return a_[2]
        return None
    for p in paths:
        if p.exit == "raise":
            continue
        n_paths += 1
        apps = [c for e, c in effect_calls(p.events, "append_pointer_to")] + [c for e, c in effect_calls(p.events, "append_pointers_to")]
        pid = show(p.cond)
        if len(apps) != 1:
            rep.fail("C01.R6", construct, f.loc, found=f"{len(apps)} appends on path [{pid}]", required="exactly one",
                     what="an added operation is not placed in the graph exactly once on some path", detail=f"append-count")
            continue
        a = apps[0]
        parent = call_arg(a, 0, "endpoint")
        # ``root if leaf is None else leaf`` on a path that already decided the test is the chosen alternative
        for _ in range(4):
            if parent is not None and parent[0] == "ite":
                if _implies(ev, p.cond, parent[1]):
                    parent = parent[2]
                    continue
                if _implies(ev, p.cond, t_not(parent[1])):
                    parent = parent[3]
                    continue
            break
        while parent is not None and parent[0] == "var" and len(parent) == 4:
            parent = parent[3]
        pointer = call_arg(a, 1, "pointer") or call_arg(a, 1, "pointers")
        node_ok = pointer is not None and ((pointer[0] == "new" and pointer[1] == "OperationGraphNode" and dict(pointer[2]).get("operation") == operation)
                                           or (pointer[0] == "list" and len(pointer[1]) == 1 and pointer[1][0][0] == "new"))
        rep.check(node_ok and a[1][1] == graph, "C01.R6", construct + "[node]", f.loc, found=show(a), required="graph.append_pointer_to(P, <fresh node of the operation>)",
                  what="what is appended is not one fresh node wrapping the added operation", detail="node")
        link_stores = [e.term for e in p.events if e.kind == "store" and e.term[2] == "relation_link" and e.term[1] == operation]
        final_link = link_stores[-1][3] if link_stores else None
        leaf = None
        for e in p.events:
            if e.kind == "assign" and e.term is not None and is_call_of(e.term, "get_leaf_at_any") and e.term[1][1] == graph:
                leaf = e.term
                given = list(e.term[2]) + [v for _, v in e.term[3]]
                rep.check(given == [("attr", operation, "channel_identifiers")], "C01.R6", construct + "[leaf-query]", f.loc, found=show(e.term),
                          required="get_leaf_at_any(operation.channel_identifiers)", what="the implicit predecessor is searched with other channels than the operation's own",
                          detail="leaf-query")
        root = ev.attr(graph, "root_node", Frame(f, f.module, {}, G, 0))
        if parent == root:
            chan_empty = t_cmp("is", leaf, NONE) if leaf is not None else None
            est = chan_empty is not None and _implies(ev, p.cond, chan_empty)
            rep.check(est, "C01.R6", construct + "[root-needs-empty-channel]", f.loc, found=f"appended under the root on path [{pid}]",
                      required="only when get_leaf_at_any(operation.channel_identifiers) is None",
                      what="an operation is placed at the circuit start although its channels may already hold operations (the leaf lookup is "
                           "skipped or its result ignored on this path)", detail="root-empty")
            if final_link is None:
                ok = _implies(ev, p.cond, t_not(has_rel))
                why = "appended to the root although the operation keeps a link with a reference"
                if not ok and _opaque_guard(p.cond):
                    unread.append(f"the guard reads relation_link.{_opaque_guard(p.cond)}, which the link classes define each in their own way; whether it means 'no reference' is not read")
                    continue
            else:
                ok = final_link == ("call", ("fn", "RelationLink.no_relation"), (), ()) or \
                    (final_link[0] == "new" and final_link[1] == "RelationLink" and dict(final_link[2]).get("_reference_node") == NONE)
                why = "appended to the root but given a link with a reference"
            rep.check(ok, "C01.R6", construct + "[root]", f.loc, found=f"parent=root, link={show(final_link) if final_link else 'unchanged'} on [{pid}]",
                      required="root <-> no reference", what=why, detail="root")
        elif leaf is not None and parent == leaf:
            ok = (final_link is not None and final_link[0] == "new" and final_link[1] == "RelationLink"
                  and dict(final_link[2]).get("_reference_node") == ("attr", leaf, "operation"))
            tp = dict(final_link[2]).get("_relation_type") if ok else None
            ok = ok and (tp is None or tp == ("enum", "RelationType", "FOLLOWED_BY"))
            rep.check(ok, "C01.R6", construct + "[leaf]", f.loc, found=f"parent=leaf_node, link={show(final_link) if final_link else 'unchanged'}",
                      required="RelationLink(_reference_node=leaf_node.operation) (FOLLOWED_BY)",
                      what="the operation is appended behind the channel leaf but its link does not say FOLLOWED_BY that leaf's operation", detail="leaf")
        else:
            want = ("call", ("attr", graph, "get_corresponding_node"), (), ())
            ok = parent is not None and is_call_of(parent, "get_corresponding_node") and parent[1][1] == graph
            if ok:
                given = list(parent[2]) + [v for _, v in parent[3]]
                ok = given == [("attr", link_of_op, "reference_node")] and final_link is None
            if ok and not _implies(ev, p.cond, has_rel) and _opaque_guard(p.cond):
                unread.append(f"the guard reads relation_link.{_opaque_guard(p.cond)}, which the link classes define each in their own way; whether it means 'has a reference' is not read")
                continue
            ok = ok and _implies(ev, p.cond, has_rel)
            rep.check(ok, "C01.R6", construct + "[relation]", f.loc, found=f"parent={show(parent) if parent else None}, link={show(final_link) if final_link else 'unchanged'}",
                      required="parent = node of relation_link.reference_node, link untouched",
                      what="graph parent and relation reference disagree", detail="relation")
        rv = p.value
        rep.check(p.exit == "return" and rv is not None and returns_receiver(model, ev, rv, graph), "C01.R6", construct + "[returns-graph]", f.loc, found=show(rv) if rv else p.exit, required="return graph",
                  what="add_to_graph does not hand back the graph it updated", detail="return")
    rep.floor("feasible paths of add_to_graph", n_paths, 3)
    amb = sorted({a_ for a_ in ev.ambiguous if a_.startswith(("IRelationLink.", "RelationLink.", "IRelationComponent."))})
    if amb:
        unread.append(f"reads {', '.join(amb)} through the operation's link, a property that the link classes define each in their own way: which body runs depends on the link "
                      "an operation holds, and the placement cases are decided for one body only")
    if unread:
        raise AnalysisError(f"{construct}: " + "; ".join(sorted(set(unread))))
    rep.analysed["C01.R6 feasible paths"] = n_paths


def _implies(ev: Evaluator, a: Term, b: Term) -> bool:
    from ..sym import satisfiable
    try:
        return not satisfiable(t_and(a, t_not(b)), ev.enum_members)
    except Unsupported:
        return False


# ---------------------------------------------------------------------------------------------
def r7(model: Model, rep: Report):
    rep.rule("C01.R7", "decomposed_operations hands self.relation_link to exactly the contained operations without relation; extend "
                       "gives the no-relation operations of the appended copy one MultiRelationLink(LATEST, FOLLOWED_BY) over the operations "
                       "of ALL current leaf nodes, and no_relation only when the graph is empty; every node of the copy is added")
    K = model.cls("CircuitCompositeOperation")
    # decomposed_operations -------------------------------------------------
    f = K.resolve("decomposed_operations")
    ev = Evaluator(model, inline_methods=False)
    paths = PathEnumerator(ev).function_paths(f, self_cls=K)
    s = sym(f.self_name)
    construct = "CircuitCompositeOperation.decomposed_operations"
    own_link = ev.attr(s, "relation_link", Frame(f, f.module, {}, K, 0))
    for p in [q for q in paths if q.exit == "return"]:
        lp = loop_of(p)
        if lp is None:
            if p.value is not None and subterms(p.value, lambda y: y[0] == "attr" and y[1] == s and y[2] != "_circuit_graph") and any(loop_of(q) is not None for q in paths if q.exit == "return"):
                continue        # an answer from a stored listing: no hand-over happens on this path (whether it may be stored is C02.L5 / C03.H2)
            raise AnalysisError(f"{construct}: no loop")
        elem = ("bound", "for", lp.node.lineno, show(lp.term))
        op = ("attr", elem, "operation")
        no_rel = t_cmp("is", ("attr", ("attr", op, "relation_link"), "reference_node"), NONE)
        bad = []
        n_store_paths = 0
        for bp in lp.extra["paths"]:
            sts = [e.term for e in bp.events if e.kind == "store" and e.term[2] == "relation_link"]
            implies_norel = _implies(ev, bp.cond, no_rel)
            implies_rel = _implies(ev, bp.cond, t_not(no_rel))
            if sts:
                n_store_paths += 1
                order = ["store" if e.kind == "store" else "decompose" for e in bp.events
                         if (e.kind == "store" and e.term[2] == "relation_link") or (e.kind in ("effect", "assign") and e.term is not None and find_calls(e.term, "decomposed_operations"))]
                if "decompose" in order and order.index("decompose") < order.index("store"):
                    bad.append("the child is decomposed before it receives the block's link (its own first operations are listed with the old link)")
                if not implies_norel:
                    bad.append(f"re-links an operation that has a relation (path [{show(bp.cond)}])")
                for t in sts:
                    if t[1] != op or t[3] != own_link:
                        bad.append(f"assigns {show(t)}")
            elif not implies_rel:
                bad.append(f"an operation without relation keeps no link to the block (path [{show(bp.cond)}])")
        rep.check(not bad and n_store_paths >= 1, "C01.R7", construct + "[hand-over]", f.loc, found="; ".join(bad) or "store iff child has no relation",
                  required="node.operation.relation_link = self.relation_link exactly when the child has no relation",
                  what="nested blocks do not pass their own link to exactly their first operations: " + "; ".join(bad), detail="handover")
    # extend ---------------------------------------------------------------------
    f = K.resolve("extend")
    ev = Evaluator(model, inline_methods=True, opaque={"CircuitCompositeOperation.add", "CircuitCompositeOperation.copy"})
    paths = PathEnumerator(ev).function_paths(f, self_cls=K)
    s = sym(f.self_name)
    other = sym([p for p in f.param_names if p != f.self_name][0])
    construct = "CircuitCompositeOperation.extend"
    fr = Frame(f, f.module, {}, K, 0)
    ev.set_type(s, K)
    graph = ("attr", s, "_circuit_graph")
    leafs = ev.attr(graph, "leaf_nodes", fr)
    empty_forms = []
    for expr in ("self.empty_composite", "self._circuit_graph.empty_graph"):
        try:
            empty_forms.append(ev.expr(ast.parse(expr.replace("self", f.self_name), mode="eval").body, Frame(f, f.module, {f.self_name: s}, K, 0)))
        except Unsupported:
            pass
    n_ret = 0
    for p in [q for q in paths if q.exit == "return"]:
        n_ret += 1
        lp = loop_of(p)
        if lp is None:
            # a way out that appends nothing: only right when the appended block has no nodes
            other_empty = []
            for expr in ("other.empty_composite", "other._circuit_graph.empty_graph"):
                try:
                    ev.set_type(other, K)
                    other_empty.append(ev.expr(ast.parse(expr, mode="eval").body, Frame(f, f.module, {"other": other}, K, 0)))
                except Unsupported:
                    pass
            if any(_implies(ev, p.cond, e_) for e_ in other_empty):
                rep.ok("C01.R7", construct + "[nothing to append]", f.loc, found=f"returns early when the appended block is empty: [{show(p.cond)}]", required="every node of the copy is added")
                continue
            rep.fail("C01.R7", construct + "[all-nodes]", f.loc, found=f"returns without appending when [{show(p.cond)}]", required="every node of the copy is added",
                     what=f"extend() drops the whole appended block on the path [{show(p.cond)}] although the block may hold operations (e.g. only zero-length ones): "
                          "a repeated block is then not repeated", detail="all-nodes")
            continue
        # the hand-over loop is the one that adds to self (a helper that prepares the chain link may loop over the leaves first)
        adders = [e for e in p.events if e.kind == "loop" and any(c[1][1] == s for bp in e.extra["paths"] for _, c in effect_calls(bp.events, "add"))]
        if len(adders) == 1:
            lp = adders[0]
        from .common import devar
        from ..listflow import as_single_comp
        dom_term = lp.term
        elem = ("bound", "for", lp.node.lineno, show(lp.term))
        op = ("attr", elem, "operation")
        lt = devar(as_single_comp(p, lp.term)) if lp.term is not None else None
        if lt is not None and lt[0] == "comp" and len(lt[3]) == 1 and not lt[3][0][1] and lt[2][0] == "attr" and lt[2][2] == "operation" and lt[2][1][0] == "bound":
            # ``for operation in [node.operation for node in <nodes>]``: the element already is the operation of a node of that domain
            dom_term, op = lt[3][0][0], elem
        dom = node_iterator_domain(dom_term)
        it = strip_identity_wrappers(dom_term)
        ok_dom = dom == "ALL" and it[1][1] == ("attr", other, "_circuit_graph")
        rep.check(ok_dom, "C01.R7", construct + "[domain]", f.loc, found=f"{show(dom_term)} -> {dom}", required="all nodes of the appended copy",
                  what="not every node of the appended copy is processed", detail="domain")
        no_rel = t_cmp("is", ("attr", ("attr", op, "relation_link"), "reference_node"), NONE)
        assigned = set()
        bad = []
        for bp in lp.extra["paths"]:
            sts = [e.term for e in bp.events if e.kind == "store" and e.term[2] == "relation_link"]
            adds = [c for e, c in effect_calls(bp.events, "add") if c[1][1] == s]
            if len(adds) != 1 or (list(adds[0][2]) + [v for _, v in adds[0][3]]) != [op]:
                bad.append(f"{len(adds)} add(node.operation) on path [{show(bp.cond)}]")
            if sts:
                if not _implies(ev, bp.cond, no_rel):
                    bad.append("re-links an operation that has a relation")
                for e in bp.events:
                    if e.kind == "store" and e.term[2] == "relation_link":
                        val = getattr(e.node, "value", None)
                        inside = isinstance(val, ast.Name) and any(
                            isinstance(n, (ast.Assign, ast.AnnAssign, ast.AugAssign)) and any(isinstance(t, ast.Name) and t.id == val.id
                                for t in (n.targets if isinstance(n, ast.Assign) else [n.target])) for n in ast.walk(lp.node))
                        if not isinstance(val, ast.Name) or inside:
                            bad.append("the chain link is computed inside the loop, after earlier heads of the copy were added: heads that should "
                                       "start together are chained behind one another")
                for t in sts:
                    if t[1] != op:
                        bad.append(f"assigns {show(t)}")
                    assigned.add(t[3])
                # the store must precede the add
                order = [e.kind if e.kind == "store" else "add" for e in bp.events
                         if (e.kind == "store" and e.term[2] == "relation_link") or (e.kind == "effect" and find_calls(e.term, "add"))]
                if order[:2] != ["store", "add"]:
                    bad.append("the operation is added before it receives the chaining link")
            elif not _implies(ev, bp.cond, t_not(no_rel)):
                bad.append("an operation without relation is not chained")
        rep.check(not bad, "C01.R7", construct + "[hand-over]", f.loc, found="; ".join(bad) or "store iff no relation; add always",
                  required="relation_link = <chain link> exactly when the copy's operation has no relation; self.add(operation) always",
                  what="chaining of the appended copy broken: " + "; ".join(bad), detail="handover")
        # the chain link itself (an inlined helper yields a conditional value: look at each alternative under its guard)
        alts = []
        for lk0 in assigned:
            alts.extend(_alternatives(lk0, p.cond))
        for lk, pcond in alts:
            emptyish = _implies(ev, pcond, t_or(*[e for e in empty_forms])) if empty_forms else False
            if lk == ("call", ("fn", "RelationLink.no_relation"), (), ()) or (lk[0] == "new" and lk[1] == "RelationLink" and dict(lk[2]).get("_reference_node") == NONE):
                rep.check(emptyish, "C01.R7", construct + "[no-relation-only-when-empty]", f.loc, found=f"no_relation when [{show(pcond)}]",
                          required="only when the graph is empty", what="the appended copy starts at 0 although the block already has content", detail="empty-guard")
                continue
            ok = lk[0] == "new" and lk[1] == "MultiRelationLink"
            d = dict(lk[2]) if ok else {}
            refs = d.get("_reference_nodes")
            if refs is not None and refs[0] == "var":
                refs = as_single_comp(p, refs)        # a list filled by one append loop over the leaves is that comprehension
            ok_refs = (refs is not None and refs[0] == "comp" and len(refs[3]) == 1 and not refs[3][0][1]
                       and strip_identity_wrappers(refs[3][0][0]) == leafs and refs[2][0] == "attr" and refs[2][2] == "operation" and refs[2][1][0] == "bound")
            grp = d.get("_relation_to_group", ("enum", "MultiRelationType", "LATEST"))
            typ = d.get("_relation_type", ("enum", "RelationType", "FOLLOWED_BY"))
            rep.check(ok and ok_refs, "C01.R7", construct + "[all-leaves]", f.loc, found=show(refs) if refs else show(lk),
                      required=f"[node.operation for node in {show(leafs)}] (all leaf nodes, no filter)",
                      what="the chain link does not reference the operations of all current leaf nodes", detail="all-leaves")
            rep.check(grp == ("enum", "MultiRelationType", "LATEST") and typ == ("enum", "RelationType", "FOLLOWED_BY"), "C01.R7",
                      construct + "[latest-followed-by]", f.loc, found=f"{show(grp)}, {show(typ)}", required="LATEST, FOLLOWED_BY",
                      what="copies are not chained FOLLOWED_BY the latest leaf", detail="latest")
            rep.check(_implies(ev, pcond, t_not(t_or(*empty_forms))) if empty_forms else True, "C01.R7", construct + "[chain-when-non-empty]", f.loc,
                      found=f"chained when [{show(pcond)}]", required="whenever the graph is not empty", what="guard of the chain link is not 'graph not empty'",
                      detail="chain-guard")
    rep.floor("return paths of extend", n_ret, 1)


def r8(model: Model, rep: Report):
    """The duration a nested block contributes to the equations of whatever follows it (shared with C04.D1/D2)."""
    from .c04 import duration_rule
    sub = Report(rep.prop_id, rep.tier, rep.src_root, quiet=True, write=False)
    duration_rule(model, sub)
    rep.rule("C01.R8", "the duration a nested block feeds into the equations (its own JOINED_END, and every FOLLOWED_BY successor) is "
                       "latest end minus earliest start over ALL contained operations (= C04.D1/D2)")
    for o in sub.obligations:
        o = dict(o)
        o["rule"] = "C01.R8"
        rep.obligations.append(o)


def r9(model: Model, rep: Report):
    """Reported times are the solution of the equations only if memoised start times are invalidated (shared with C03.H1)."""
    from ..effects import Effects
    from ..resolve import CallGraph
    from .c03 import h1
    from .common import share_rule
    cg = CallGraph(model)
    share_rule(rep, model, lambda m, r: h1(m, r, cg, Effects(m, cg)), "C01.R9",
               "the reported time is the CURRENT solution of the equations: every writer of a duration setting, link or graph that the "
               "memoised get_start_time functions read invalidates the memo (= C03.H1)")


def _alternatives(t: Term, cond: Term):
    if t[0] == "ite":
        return _alternatives(t[2], t_and(cond, t[1])) + _alternatives(t[3], t_and(cond, t_not(t[1])))
    return [(t, cond)]


# ---------------------------------------------------------------------------------------------
def r15(model: Model, rep: Report, rule: str = "C01.R15"):
    """Every operation books channels on exactly the qubits it names."""
    rep.rule(rule, "channel_identifiers of every non-composite operation class names exactly the qubits of the operation: one or more identifiers for every qubit-index field "
                   "(qubit_index, control / target index, every element of qubit_indices, unfiltered) and none for anything else -- the implicit predecessor of an operation and "
                   "what a barrier holds back are found through these identifiers")
    ico = model.cls("ICircuitOperation")
    comp = model.cls("CircuitCompositeOperation")
    n = 0
    for K in model.subclasses(ico, concrete_only=True):
        if K is comp or comp in K.mro():
            continue
        f = K.resolve("channel_identifiers")
        if f is None or "abstractmethod" in f.decorators:
            raise AnalysisError(f"{K.name}: no channel_identifiers")
        flds = K.all_fields()
        scalars = [nm for nm, fi in flds.items() if fi.annotation is not None and "qubit" in nm and "ind" in nm and ast.unparse(fi.annotation) in ("int",)]
        lists = [nm for nm, fi in flds.items() if fi.annotation is not None and "qubit" in nm and "ind" in nm and ast.unparse(fi.annotation).replace("typing.", "") in ("List[int]", "list[int]", "Sequence[int]")]
        if not scalars and not lists:
            raise AnalysisError(f"{K.name}: no qubit-index field recognised among {list(flds)}")
        try:
            v = Evaluator(model).value_of(f, self_cls=K)
        except Unsupported as e:
            raise AnalysisError(f"{K.name}.channel_identifiers: {e}")
        from ..sym import _plain_display
        s_ = sym(f.self_name)
        v = _plain_display(v)
        pieces = []
        if v[0] == "concat":
            pieces = [_plain_display(x) for x in v[1]]
        else:
            pieces = [v]
        ids_scalar, ids_list, other = set(), set(), []
        for pc in pieces:
            if pc[0] in ("list", "tuple"):
                for el in pc[1]:
                    if el[0] == "new" and el[1] == "ChannelIdentifier":
                        idt = dict(el[2]).get("_id")
                        if idt is not None and idt[0] == "attr" and idt[1] == s_ and idt[2] in scalars:
                            ids_scalar.add(idt[2])
                        else:
                            other.append(show(idt) if idt is not None else "?")
                    else:
                        other.append(show(el)[:40])
            elif pc[0] == "comp" and len(pc[3]) >= 1 and pc[2][0] == "new" and pc[2][1] == "ChannelIdentifier":
                # one generator ranges over the qubits (a list field, or a display of scalar fields) and feeds ``_id``; any further generator (the channels
                # per qubit) ranges over a display that is not empty; nothing is filtered
                idt = dict(pc[2][2]).get("_id")
                got_l, got_s, bad = set(), set(), not (idt is not None and idt[0] == "bound")
                for dom, conds in pc[3]:
                    if conds:
                        bad = True
                    elif not bad and idt[3] in (show(dom), show(_plain_display(dom))):
                        dom = _plain_display(dom)
                        if dom[0] == "attr" and dom[1] == s_ and dom[2] in lists:
                            got_l.add(dom[2])
                        elif dom[0] in ("list", "tuple") and dom[1] and all(x[0] == "attr" and x[1] == s_ and x[2] in scalars for x in dom[1]):
                            got_s.update(x[2] for x in dom[1])
                        else:
                            bad = True
                    elif not (_plain_display(dom)[0] in ("list", "tuple") and len(_plain_display(dom)[1]) >= 1 and not any(x[0] == "star" for x in _plain_display(dom)[1])):
                        bad = True
                if bad or not (got_l or got_s):
                    other.append(f"{show(pc)[:60]}")
                else:
                    ids_list |= got_l
                    ids_scalar |= got_s
            else:
                other.append(show(pc)[:60])
        n += 1
        missing = sorted((set(scalars) - ids_scalar) | (set(lists) - ids_list))
        rep.check(not missing and not other, rule, f"{K.name}.channel_identifiers", f.loc, found=show(v)[:160], required=f"identifiers for {scalars + lists}",
                  what=f"{K.name} " + (f"books no channel on {missing}" if missing else f"books channels that are not its qubits ({other[:2]})") +
                       ": an operation added next on such a qubit does not find it as predecessor (or finds a stranger), and a barrier does not hold that qubit back", detail="qubits")
    rep.floor("non-composite operation classes (channel coverage)", n, 26)


# ---------------------------------------------------------------------------------------------
def r13(model: Model, rep: Report):
    """A block's channel listing must keep an ALL identifier next to a specific one of the same qubit (they compare equal by design)."""
    rep.rule("C01.R13", "the channels a nested block reports (what the implicit-predecessor search matches against) lose nothing to de-duplication: where "
                        "the listing is de-duplicated through a hash container, ChannelIdentifier's hash distinguishes the channel, so the ALL "
                        "identifier -- equal to every specific one of its qubit under the relaxed __eq__ -- is never dropped after a specific one")
    from .c05 import eq_kind, hash_kind
    CI = model.cls("ChannelIdentifier")
    sites = []
    for f in model.all_functions():
        if f.name != "channel_identifiers" or f.cls is None or "abstractmethod" in f.decorators:
            continue
        if not (f.cls.is_subclass_of("ICircuitCompositeOperation") or f.cls.name in ("CircuitGraphBranch", "DeclarativeCircuit") or f.cls.is_subclass_of("GraphBranch")):
            continue
        for n in ast.walk(f.node):
            if isinstance(n, ast.Call):
                d = dotted(n.func) or ""
                if d.split(".")[-1] in ("unique_in_order", "set", "frozenset", "fromkeys"):
                    sites.append((f, n, d))
    rep.analysed["C01.R13 de-duplicating channel listings"] = [f"{f.qualname}:{n.lineno} {d}" for f, n, d in sites]
    ek, hk = eq_kind(CI), hash_kind(CI)
    if ek != "explicit":
        rep.ok("C01.R13", "ChannelIdentifier[hash]", CI.loc, found=f"eq={ek}: ALL is not equal to a specific channel", required="nothing equal is dropped")
        return
    if not sites:
        rep.ok("C01.R13", "ChannelIdentifier[hash]", CI.loc, found="no block channel listing is de-duplicated through a hash container", required="nothing equal is dropped")
        return
    flds = CI.all_fields()
    ch_fields = [n for n, fi in flds.items() if fi.annotation is not None and "QubitChannel" in ast.unparse(fi.annotation)]
    if not ch_fields:
        raise AnalysisError("ChannelIdentifier: the field holding the QubitChannel was not found")
    ok, why = False, ""
    if hk == "identity":
        ok, why = True, "identity hash"
    elif hk == "fields":
        bad = [n for n in ch_fields if not (flds[n].compare if flds[n].hash is None else flds[n].hash)]
        ok = not bad
        why = "generated from the compared fields " + str([n for n, fi in flds.items() if fi.compare]) if ok else f"the generated hash leaves out {bad}"
    elif hk.startswith("explicit:"):
        K = model.cls(hk.split(":", 1)[1])
        h = K.methods["__hash__"][0]
        accessors = set(ch_fields) | {n for n, g in ((n, CI.resolve(n)) for n in CI.properties) if g is not None and any(
            isinstance(x, ast.Attribute) and x.attr in ch_fields for x in ast.walk(g.node))}
        reads = {x.attr for x in ast.walk(h.node) if isinstance(x, ast.Attribute) and isinstance(x.value, ast.Name) and x.value.id == h.self_name}
        whole = any(isinstance(x, ast.Call) and (dotted(x.func) or "") in ("astuple", "dataclasses.astuple", "repr", "str") for x in ast.walk(h.node))
        ok = bool(reads & accessors) or whole
        why = f"__hash__ reads {sorted(reads)}" + ("" if ok else f", not the channel ({sorted(accessors)})")
    else:
        why = f"hash={hk}"
    # a de-duplicating helper of the package: does it decide "seen before" through a hash container (hash AND equality must agree) or by scanning a list (equality
    # alone -- under the relaxed __eq__ the ALL identifier IS equal to a specific one listed before it, and is dropped whatever the hash says)
    for f_, n_, d_ in sites:
        nm_ = d_.split(".")[-1]
        tgt_ = model.lookup_symbol(f_.module, nm_) if "." not in d_ else None
        from ..model import FunctionInfo as _FI
        if not isinstance(tgt_, _FI):
            continue
        kinds = {}
        for st_ in ast.walk(tgt_.node):
            if isinstance(st_, (ast.Assign, ast.AnnAssign)) and st_.value is not None:
                for t_ in (st_.targets if isinstance(st_, ast.Assign) else [st_.target]):
                    if isinstance(t_, ast.Name):
                        v_ = st_.value
                        if isinstance(v_, (ast.Set, ast.Dict, ast.SetComp, ast.DictComp)) or (isinstance(v_, ast.Call) and isinstance(v_.func, ast.Name) and v_.func.id in ("set", "dict", "frozenset", "OrderedDict")):
                            kinds[t_.id] = "hash"
                        elif isinstance(v_, (ast.List, ast.ListComp)) or (isinstance(v_, ast.Call) and isinstance(v_.func, ast.Name) and v_.func.id in ("list", "deque")):
                            kinds[t_.id] = "equality"
        tests = [c_ for c_ in ast.walk(tgt_.node) if isinstance(c_, ast.Compare) and len(c_.ops) == 1 and isinstance(c_.ops[0], (ast.In, ast.NotIn))
                 and isinstance(c_.comparators[0], ast.Name) and c_.comparators[0].id in kinds]
        by_eq = [c_ for c_ in tests if kinds[c_.comparators[0].id] == "equality"]
        rep.check(not by_eq, "C01.R13", f"{tgt_.qualname}[seen-before test]", tgt_.loc,
                  found=(f"`{ast.unparse(by_eq[0])}` scans a list: equality alone decides" if by_eq else
                         f"{len(tests)} membership test(s) on hash containers" if tests else "no membership test on a local list"),
                  required="a hash container (set / dict): ALL and a specific channel hash differently and are both kept",
                  what=f"{f_.qualname} de-duplicates its channel listing through {tgt_.qualname}, which decides 'seen before' by equality alone: ChannelIdentifier's relaxed __eq__ "
                       "makes the ALL identifier of a qubit equal to a specific one listed before it, so it is dropped and the block no longer occupies the other channels of that "
                       "qubit -- a read-out or flux operation added next is not placed after the block", detail="dedupe-by-equality")
    f0, n0, d0 = sites[0]
    rep.check(ok, "C01.R13", "ChannelIdentifier[hash]", CI.loc, found=why, required="the hash separates channels of one qubit",
              what=f"{f0.qualname} de-duplicates through {d0}; with a hash that ignores the channel the ALL identifier of a qubit is dropped after a specific one, so an "
                   "operation on another channel of that qubit no longer shares a channel with the block and is not scheduled after it: " + why,
              detail="channel-hash")


# ---------------------------------------------------------------------------------------------
def r10(model: Model, rep: Report):
    """The duration that enters the equations is the configured one (strategy -> registry plumbing)."""
    rep.rule("C01.R10", "every non-composite operation reports duration == self.duration_strategy.get_variable_duration(task=self); Fixed -> its stored "
                        "duration; Global -> its registry.get_registry_at(key=its key); Registry -> its registry at its key; the registries look the key up "
                        "(GlobalDurationRegistry by key.value; DurationRegistry by key, set_registry_at stores under the same key); the temporary override "
                        "answers temp_registry.get(key, ...)")
    ico = model.cls("ICircuitOperation")
    comp = model.cls("CircuitCompositeOperation")
    n = 0
    impls = set()
    for K in model.subclasses(ico, concrete_only=True):
        if K is comp or comp in K.mro():
            continue
        f = K.resolve("duration")
        if f is None or "abstractmethod" in f.decorators:
            raise AnalysisError(f"{K.name}: no duration")
        n += 1
        impls.add(f)
        ev = Evaluator(model, inline_methods=False)
        v = ev.value_of(f, self_cls=K)
        s = sym(f.self_name)
        ok = is_call_of(v, "get_variable_duration") and v[1][1][0] == "attr" and v[1][1][1] == s and v[1][1][2] in K.all_fields()
        if ok:
            a, kw = call_args(v)
            ok = (list(a) + list(kw.values())) == [s]
        rep.check(ok, "C01.R10", f"{K.name}.duration", f.loc, found=show(v), required="self.<strategy field>.get_variable_duration(task=self)",
                  what="the operation's duration is not the one its duration strategy gives", detail="op-duration")
    rep.floor("non-composite operation classes", n, 26)
    rep.analysed["C01.R10 distinct duration implementations"] = len(impls)
    # strategies -----------------------------------------------------------------------------
    mod = "structure.registry_duration"
    def value(cls_name, fn_name):
        C = model.cls(cls_name, mod)
        f = C.resolve(fn_name)
        if f is None:
            raise AnalysisError(f"{cls_name}.{fn_name} vanished")
        opq = {x.qualname for x in model.all_functions() if x.name == "get_registry_at" and x is not f}
        return C, f, Evaluator(model, inline_methods=True, opaque=opq).value_of(f, self_cls=C), sym(f.self_name)
    C, f, v, s = value("FixedDurationStrategy", "get_variable_duration")
    rep.check(v == ("attr", s, "duration") and "duration" in C.all_fields(), "C01.R10", "FixedDurationStrategy.get_variable_duration", f.loc, found=show(v), required="self.duration",
              what="a fixed duration strategy does not answer its stored duration", detail="fixed")
    C, f, v, s = value("GlobalDurationStrategy", "get_variable_duration")
    want = ("call", ("attr", ("attr", s, "_registry"), "get_registry_at"), (), (("key", ("attr", s, "key")),))
    got = v
    if is_call_of(v, "get_registry_at"):
        a, kw = call_args(v)
        got = ("call", v[1], (), (("key", (list(a) + list(kw.values()))[0]),)) if len(list(a) + list(kw.values())) == 1 else v
    rep.check(got == want and {"_registry", "key"} <= set(C.all_fields()), "C01.R10", "GlobalDurationStrategy.get_variable_duration", f.loc, found=show(v), required=show(want),
              what="the global duration strategy does not look its own key up in its registry", detail="global")
    C, f, v, s = value("RegistryDurationStrategy", "get_variable_duration")
    want = ("call", ("attr", ("attr", s, "registry"), "get_registry_at"), (), (("key", ("attr", s, "registry_key")),))
    got = v
    if is_call_of(v, "get_registry_at"):
        a, kw = call_args(v)
        got = ("call", v[1], (), (("key", (list(a) + list(kw.values()))[0]),)) if len(list(a) + list(kw.values())) == 1 else v
    rep.check(got == want, "C01.R10", "RegistryDurationStrategy.get_variable_duration", f.loc, found=show(v), required=show(want),
              what="the registry duration strategy does not look its own key up in its registry", detail="registry")
    # registries -----------------------------------------------------------------------------
    C, f, v, s = value("GlobalDurationRegistry", "get_registry_at")
    key = sym([p for p in f.param_names if p != f.self_name][0])
    store = ("attr", s, "_global_registry")
    ok = (is_call_of(v, "get") and v[1][1] == store and v[2][:1] == (("attr", key, "value"),)) or v == ("sub", store, ("attr", key, "value"))
    rep.check(ok, "C01.R10", "GlobalDurationRegistry.get_registry_at", f.loc, found=show(v), required="self._global_registry.get(key.value, ...)",
              what="the global registry does not answer the entry of the asked key", detail="global-lookup")
    C, f, v, s = value("DurationRegistry", "get_registry_at")
    key = sym([p for p in f.param_names if p != f.self_name][0])
    ok = is_call_of(v, "get") and v[1][1][0] == "attr" and v[1][1][1] == s and v[2][:1] == (key,)
    store_field = v[1][1][2] if ok else None
    rep.check(ok, "C01.R10", "DurationRegistry.get_registry_at", f.loc, found=show(v), required="self.<store>.get(key, default)",
              what="the duration registry does not answer the entry of the asked key", detail="registry-lookup")
    g = C.resolve("set_registry_at")
    ps = PathEnumerator(Evaluator(model, inline_methods=False)).function_paths(g, self_cls=C)
    gk, gv = (sym(p) for p in [p for p in g.param_names if p != g.self_name][:2])
    oks = []
    for p in ps:
        sts = [e for e in p.events if e.kind == "store"]
        oks.append(any(_is_sub_store(e, ("attr", sym(g.self_name), store_field), gk, gv) for e in sts) and p.exit != "raise")
    rep.check(bool(oks) and all(oks), "C01.R10", "DurationRegistry.set_registry_at", g.loc, found=[show(e.term) for p in ps for e in p.events if e.kind == "store"],
              required=f"self.{store_field}[key] = value on every path", what="a configured duration is not stored under its key in the table the getter reads", detail="registry-store")
    # temporary override ---------------------------------------------------------------------
    ov = model.function("registry_duration", "temporary_override_get_registry_at")
    param = ov.param_names[0]
    ok, found = False, None
    try:
        ops = PathEnumerator(Evaluator(model, inline_methods=False)).function_paths(ov)
    except Unsupported as e:
        raise AnalysisError(f"temporary_override_get_registry_at: {e}")
    installed = set()
    for p in ops:
        kinds = [e.kind for e in p.events]
        if "yield" not in kinds:
            continue
        iy = kinds.index("yield")
        sts = [e for e in p.events[:iy] if e.kind == "store" and e.term[1] == ("cls", "GlobalDurationRegistry") and e.term[2] == "get_registry_at"]
        installed.update(e.term[3] for e in sts[-1:])
    defs = {n_.name: n_ for n_ in ast.walk(ov.node) if isinstance(n_, ast.FunctionDef) and n_ is not ov.node}
    if len(installed) == 1 and list(installed)[0][0] == "localdef" and list(installed)[0][1] in defs:
        fn = defs[list(installed)[0][1]]
        args = [a.arg for a in fn.args.args]
        rets = [n_ for n_ in ast.walk(fn) if isinstance(n_, ast.Return)]
        stmts = [n_ for n_ in fn.body if not (isinstance(n_, ast.Expr) and isinstance(n_.value, ast.Constant))]
        ok = len(args) == 2 and len(rets) == 1 and len(stmts) == 1 and rets[0].value is not None
        if ok:
            r = rets[0].value
            found = ast.unparse(r)
            ok = (isinstance(r, ast.Call) and isinstance(r.func, ast.Attribute) and r.func.attr == "get" and isinstance(r.func.value, ast.Name) and r.func.value.id == param
                  and r.args and isinstance(r.args[0], ast.Name) and r.args[0].id == args[1]) or \
                 (isinstance(r, ast.Subscript) and isinstance(r.value, ast.Name) and r.value.id == param and isinstance(r.slice, ast.Name) and r.slice.id == args[1])
    rep.check(ok, "C01.R10", "temporary_override_get_registry_at[lookup]", ov.loc, found=found or f"installed before the managed block: {[show(x) for x in installed]}",
              required=f"GlobalDurationRegistry.get_registry_at := (self, key) -> {param}.get(key, ...)", what="inside the override the duration of a key is not the overriding table's entry for that key",
              detail="override-lookup")


def _is_sub_store(e, container: Term, key: Term, value: Term) -> bool:
    t = e.term
    return t is not None and t[0] == "store" and t[1] == container and t[2] == ("index", key) and t[3] == value
