"""C16.Q4 / Q5 -- what the final quantifier of get_requires_parking / get_requires_idle ranges over.

The quantifier must range over every direct neighbour ``n`` of the element that is part of an active gate, together with the frequency group of
``n`` and with THE gate ``n`` is part of (the first one in ``edge_ids`` that contains it).  The repository spells this with three zipped lists and an
index lookup into two parallel comprehensions; other spellings (a scan with ``break`` collected by a helper, a ``setdefault`` table) mean the same.
This module reads the spellings into one description

    for n in <neighbours> if involved(edges, n):   group := G(n),  gate := first_edge(edges, n)

and rewrites the quantified predicate in terms of ``n``, so that the rule states the pairing once.  Anything it cannot read is AnalysisError.
"""
from __future__ import annotations

import ast
from typing import Dict, List, Optional, Tuple

from ..extreme import fuse_comprehensions
from ..model import AnalysisError, FunctionInfo, Model
from ..paths import Path, PathEnumerator, find_calls
from ..sym import FALSE, TRUE, Evaluator, Term, Unsupported, atoms_of, show, subst, subterms, sym, t_and, t_not
from .common import devar

N = ("bound", "n")      # the neighbour the quantifier ranges over (canonical name)


def involved(edges: Term, n: Term) -> Term:
    return ("involved", edges, n)


def first_edge(edges: Term, n: Term) -> Term:
    return ("first_edge", edges, n)


_MODEL: List[Optional[Model]] = [None]


def _simp(t):
    """component of a pair / record built on the spot"""
    if not isinstance(t, tuple) or not t:
        return t
    t = tuple(_simp(x) if isinstance(x, tuple) else x for x in t)
    if t[0] == "item" and isinstance(t[1], tuple) and t[1] and t[1][0] in ("tuple", "list") and isinstance(t[2], int) and 0 <= t[2] < len(t[1][1]):
        return t[1][1][t[2]]
    if t[0] == "attr" and isinstance(t[1], tuple) and t[1] and t[1][0] == "new" and t[2] in dict(t[1][2]):
        c = _MODEL[0].maybe_cls(t[1][1]) if _MODEL[0] is not None else None
        if c is not None and t[2] not in c.properties and not c.resolve_all(t[2]):
            return dict(t[1][2])[t[2]]
    # a field of the i-th record of a list of records built on the spot is the i-th element of the list of that field:
    #   [R(f=x(..), g=y(..)) for ..][i].f  ==  [x(..) for ..][i]     (same for a pair: [(x, y) for ..][i][0])
    if t[0] in ("attr", "item") and isinstance(t[1], tuple) and t[1] and t[1][0] == "sub":
        lst = devar(t[1][1])
        if lst[0] == "comp" and lst[1] == "list":
            proj = _simp((t[0], lst[2], t[2]))
            if proj != (t[0], lst[2], t[2]):
                return ("sub", ("comp", "list", proj, lst[3]), t[1][2])
    # a list of one field of such records: [p.f for p in [R(f=x(..), ..) for ..]]  ==  [x(..) for ..]
    if t[0] == "comp" and len(t[3]) == 1 and not t[3][0][1] and t[2][0] in ("attr", "item") and t[2][1][0] == "bound":
        inner = devar(t[3][0][0])
        if inner[0] == "comp" and inner[1] == "list" and t[2][1][-1] == show(t[3][0][0]):
            proj = _simp((t[2][0], inner[2], t[2][2]))
            if proj != (t[2][0], inner[2], t[2][2]):
                return ("comp", t[1], proj, inner[3])
    if t[0] == "item" and isinstance(t[1], tuple) and t[1] and t[1][0] == "new" and isinstance(t[2], int) and _MODEL[0] is not None:
        from ..sym import is_named_tuple, named_tuple_fields
        c = _MODEL[0].maybe_cls(t[1][1])
        if c is not None and is_named_tuple(c):
            names = named_tuple_fields(c)
            if 0 <= t[2] < len(names) and names[t[2]] in dict(t[1][2]):
                return dict(t[1][2])[names[t[2]]]
    return t


def _flat_qubits(t: Term) -> Optional[Term]:
    """``[q for e in E for q in e.qubit_ids]`` -> E"""
    t = devar(t)
    if t[0] == "comp" and len(t[3]) == 2 and not t[3][0][1] and not t[3][1][1]:
        e_dom, q_dom = t[3][0][0], t[3][1][0]
        if q_dom[0] == "attr" and q_dom[2] == "qubit_ids" and q_dom[1][0] == "bound" and t[2][0] == "bound" and t[2] != q_dom[1] and t[2][3] == show(q_dom):
            return e_dom
    return None


def _edge_per_qubit(t: Term) -> Optional[Term]:
    """``[e for e in E for _ in e.qubit_ids]`` -> E"""
    t = devar(t)
    if t[0] == "comp" and len(t[3]) == 2 and not t[3][0][1] and not t[3][1][1]:
        e_dom, q_dom = t[3][0][0], t[3][1][0]
        if q_dom[0] == "attr" and q_dom[2] == "qubit_ids" and q_dom[1][0] == "bound" and t[2] == q_dom[1]:
            return e_dom
    return None


class Tables:
    """local first-edge tables of a function, read from the loops that fill them: name -> edges term"""

    def __init__(self):
        self.first: Dict[str, Term] = {}


def read_tables(p: Optional[Path]) -> Tables:
    """``for e in E: for q in e.qubit_ids: table.setdefault(q, e)`` (nothing else ever written to ``table``): table[q] is the first edge of q."""
    tb = Tables()
    if p is None:
        return tb
    loops = [e for e in p.events if e.kind == "loop" and isinstance(e.node, ast.For)]
    for L in loops:
        if len(L.extra["paths"]) != 1 or atoms_of(L.extra["paths"][0].cond):
            continue
        bE = ("bound", "for", L.node.lineno, show(L.term))
        inner = [e for e in L.extra["paths"][0].events if e.kind == "loop" and isinstance(e.node, ast.For)]
        if len(inner) != 1 or inner[0].term != ("attr", bE, "qubit_ids"):
            continue
        I = inner[0]
        if len(I.extra["paths"]) != 1 or atoms_of(I.extra["paths"][0].cond) or I.extra["paths"][0].exit not in ("fall", "continue"):
            continue
        bQ = ("bound", "for", I.node.lineno, show(I.term))
        effs = [e for e in I.extra["paths"][0].events if e.kind in ("effect", "store", "aug")]
        if len(effs) != 1 or effs[0].kind != "effect":
            continue
        c = effs[0].term
        if not (c[0] == "call" and isinstance(c[1], tuple) and c[1][0] == "attr" and c[1][2] == "setdefault" and list(c[2]) == [bQ, bE] and not c[3]):
            continue
        tbl = c[1][1]
        if tbl[0] != "var" or devar(tbl) not in (("dict", ()), ("call", "dict", (), ())):
            continue
        name = tbl[1]
        # nothing else writes the table
        others = 0
        for e in _flat(p):
            if e is effs[0]:
                continue
            if e.kind == "store" and e.term is not None and subterms(e.term[1], lambda y: y[0] == "var" and y[1] == name):
                others += 1
            if e.kind == "effect" and e.term is not None:
                for nm in ("setdefault", "update", "pop", "clear", "popitem", "__setitem__", "__delitem__"):
                    for k in find_calls(e.term, nm):
                        r = k[1][1] if isinstance(k[1], tuple) and k[1][0] == "attr" else None
                        if r is not None and r[0] == "var" and r[1] == name and k is not c and k != c:
                            others += 1
        if others == 0:
            tb.first[name] = L.term
    return tb


def _flat(p: Path):
    for e in p.events:
        yield e
        if e.kind == "loop":
            for bp in e.extra["paths"]:
                yield from _flat(bp)


def canon(t, tb: Tables):
    """rewrite the spellings of 'n is part of an active gate' / 'the gate n is part of' into involved(..) / first_edge(..)"""
    if not isinstance(t, tuple) or not t:
        return t
    if t[0] == "var" and len(t) == 4 and t[1] in tb.first:
        return ("first_table", tb.first[t[1]])
    t = tuple(canon(x, tb) if isinstance(x, tuple) else x for x in t)
    if t[0] == "in":
        e = _flat_qubits(t[2])
        if e is not None:
            return involved(e, t[1])
        if isinstance(t[2], tuple) and t[2][0] == "first_table":
            return involved(t[2][1], t[1])
    if t[0] == "quant" and t[1] == "any" and t[2][0] == "comp" and len(t[2][3]) == 1 and not t[2][3][0][1]:
        # any(n in e.qubit_ids for e in E)
        dom = t[2][3][0][0]
        b = [x for x in subterms(t[2][2], lambda y: y[0] == "bound" and y[3] == show(dom))]
        elt = t[2][2]
        if b and elt[0] == "in" and elt[2] == ("attr", b[0], "qubit_ids") and not subterms(elt[1], lambda y: y == b[0]):
            return involved(dom, elt[1])
        if b and elt[0] == "call" and elt[1] == ("attr", b[0], "contains") and len(elt[2]) + len(elt[3]) == 1:
            return involved(dom, (list(elt[2]) + [v for _, v in elt[3]])[0])
    if t[0] == "sub":
        if isinstance(t[1], tuple) and t[1][0] == "first_table":
            return first_edge(t[1][1], t[2])
        e1 = _edge_per_qubit(t[1])
        ix = t[2]
        if e1 is not None and ix[0] == "call" and isinstance(ix[1], tuple) and ix[1][0] == "attr" and ix[1][2] == "index" and len(ix[2]) == 1 and not ix[3]:
            e2 = _flat_qubits(ix[1][1])
            if e2 is not None and e2 == e1:
                return first_edge(e1, ix[2][0])
    return t


def mark_tables(t, tb: Tables):
    """name the recognised first-edge tables before local names are replaced by their values"""
    if not isinstance(t, tuple) or not t or not tb.first:
        return t
    if t[0] == "var" and len(t) == 4 and t[1] in tb.first:
        return ("first_table", tb.first[t[1]])
    return tuple(mark_tables(x, tb) if isinstance(x, tuple) else x for x in t)


def _outer_bound(comp: Term) -> Optional[Term]:
    """the variable of a single-generator comprehension (labels may be stale after fusing)"""
    dom, conds = comp[3][0]
    cands = []
    for b in subterms((comp[2],) + tuple(conds), lambda x: x[0] == "bound" and x[3] == show(dom)):
        if b not in cands:
            cands.append(b)
    if len(cands) == 1:
        return cands[0]
    if not cands:
        inner_labels = set()
        for c in subterms((comp[2],) + tuple(conds), lambda x: x[0] in ("comp", "dictcomp")):
            gens = c[3]
            inner_labels |= {show(g[0]) for g in gens}
        for b in subterms((comp[2],) + tuple(conds), lambda x: x[0] == "bound" and isinstance(x[1], int) and x[3] not in inner_labels):
            if b not in cands:
                cands.append(b)
        if len(cands) == 1:
            return cands[0]
        if not cands:
            return ("bound", "unused")
    return None


def scan_pairs(model: Model, f: FunctionInfo) -> Optional[Term]:
    """A collector ``for n in NB: for e in E: if n in e.qubit_ids: out.append((n, e)); break`` / ``return out`` read as
    ``[(n, first_edge(E, n)) for n in NB if involved(E, n)]`` (in the collector's own parameters)."""
    try:
        ps = [p for p in PathEnumerator(Evaluator(model, inline_methods=False)).function_paths(f) if p.exit != "raise"]
    except Unsupported:
        return None
    if len(ps) != 1 or ps[0].exit != "return" or ps[0].value is None or ps[0].value[0] != "var" or devar(ps[0].value) != ("list", ()):
        return None
    p = ps[0]
    out_name = p.value[1]
    loops = [e for e in p.events if e.kind == "loop"]
    if len(loops) != 1 or not isinstance(loops[0].node, ast.For) or len(loops[0].extra["paths"]) != 1 or atoms_of(loops[0].extra["paths"][0].cond):
        return None
    L = loops[0]
    bN = ("bound", "for", L.node.lineno, show(L.term))
    body = L.extra["paths"][0]
    inner = [e for e in body.events if e.kind == "loop"]
    others = [e for e in body.events if e.kind in ("effect", "store", "aug")]
    if len(inner) != 1 or others or body.exit not in ("fall", "continue"):
        return None
    I = inner[0]
    bE = ("bound", "for", I.node.lineno, show(I.term))
    hit = t_in = None
    for ip in I.extra["paths"]:
        effs = [e for e in ip.events if e.kind in ("effect", "store", "aug")]
        if ip.exit == "break":
            apps = [c for e in effs for c in find_calls(e.term, "append")] if all(e.kind == "effect" for e in effs) else []
            if len(effs) != 1 or len(apps) != 1 or apps[0][1][1][0] != "var" or apps[0][1][1][1] != out_name or hit is not None:
                return None
            hit, t_in = apps[0], ip.cond
        elif ip.exit in ("fall", "continue"):
            if effs:
                return None
        else:
            return None
    if hit is None:
        return None
    member = t_in in (("in", bN, ("attr", bE, "qubit_ids")), ("call", ("attr", bE, "contains"), (bN,), ()), ("call", ("attr", bE, "contains"), (), (("element", bN),)))
    if not member or list(hit[2]) != [("tuple", (bN, bE))]:
        return None
    # nothing else is written to the list anywhere
    for e in _flat(p):
        if e.kind == "effect" and e.term is not None:
            for nm in ("append", "extend", "insert", "pop", "remove", "clear", "sort", "reverse"):
                for k in find_calls(e.term, nm):
                    r = k[1][1] if isinstance(k[1], tuple) and k[1][0] == "attr" else None
                    if r is not None and r[0] == "var" and r[1] == out_name and k != hit:
                        return None
    return ("comp", "list", ("tuple", (N, first_edge(I.term, N))), ((L.term, (involved(I.term, N),)),))


def read_domain(model: Model, it: Term, elt: Term, path: Optional[Path]) -> Tuple[Term, Tuple[Term, ...], Term]:
    """(neighbour list, tests on the neighbour, quantified predicate in terms of N) of ``any(elt for .. in it)``."""
    tb = read_tables(path)
    _MODEL[0] = model
    it_label = show(it)
    it, elt = mark_tables(it, tb), mark_tables(elt, tb)
    it0 = it
    while (it0[0] == "var" and len(it0) == 4) or (it0[0] == "call" and it0[1] in ("list", "tuple") and len(it0[2]) == 1 and not it0[3] and it0[2][0][0] == "call" and it0[2][0][1] == "zip"):
        it0 = it0[3] if it0[0] == "var" else it0[2][0]      # ``list(zip(..))`` ranges over what ``zip(..)`` ranges over
    zb = [b for b in subterms(elt, lambda y: y[0] == "bound" and y[3] == it_label)]
    zb = list(dict.fromkeys(zb))
    if len(zb) != 1:
        raise AnalysisError(f"requires-parking / requires-idle: the quantified predicate does not range over one variable of {show(it)[:100]}; nothing decided")
    args = list(it0[2]) if it0[0] == "call" and it0[1] == "zip" and not it0[3] else None
    single = args is None
    if single:
        args = [it0]
    rows = []
    for a in args:
        a = _expand_collector(model, a)
        c = fuse_comprehensions(devar(a))
        c = _expand_inner_collectors(model, c)
        c = fuse_comprehensions(c)
        if c[0] == "call" and c[1] in ("list", "tuple") and len(c[2]) == 1:
            c = c[2][0]
        if c[0] != "comp" or len(c[3]) != 1:
            raise AnalysisError(f"requires-parking / requires-idle: the quantifier ranges over {show(it)[:160]}; the part {show(a)[:100]} is not read as a list over the neighbours; nothing decided")
        b = N if subterms(c, lambda y: y == N) else _outer_bound(c)      # a collector's rows are already stated for N
        if b is None:
            raise AnalysisError(f"requires-parking / requires-idle: the variable of {show(c)[:120]} is not identified; nothing decided")
        dom = c[3][0][0]
        conds = tuple(canon(_simp(subst(x, {b: N})), tb) for x in c[3][0][1])
        row = canon(_simp(subst(c[2], {b: N})), tb)
        rows.append((dom, conds, row))
    doms = {r[0] for r in rows}
    cnds = {tuple(sorted(r[1], key=repr)) for r in rows}
    if len(doms) != 1 or len(cnds) != 1:
        raise _Misaligned("the zipped lists are not built over the same neighbours with the same tests (positions do not correspond)")
    mp = {}
    if single:
        mp[zb[0]] = rows[0][2]
    else:
        for i, r in enumerate(rows):
            mp[("item", zb[0], i)] = r[2]
    pred = canon(_simp(subst(elt, mp)), tb)
    if subterms(pred, lambda y: y == zb[0]):
        raise AnalysisError("requires-parking / requires-idle: the quantified predicate uses the zipped row as a whole; nothing decided")
    return rows[0][0], rows[0][1], pred


class _Misaligned(Exception):
    pass


Misaligned = _Misaligned


def _collector_of(model: Model, t: Term) -> Optional[Term]:
    if t[0] == "call" and isinstance(t[1], tuple) and t[1][0] == "fn":
        cands = [x for x in model.all_functions() if x.qualname == t[1][1]]
        if len(cands) == 1 and any(isinstance(n, ast.For) for n in ast.walk(cands[0].node)):
            f = cands[0]
            got = scan_pairs(model, f)
            if got is not None:
                given = dict(t[3])
                given.update(dict(zip(f.param_names, t[2])))
                return subst(got, {sym(k): v for k, v in given.items()})
    return None


def _expand_collector(model: Model, t: Term) -> Term:
    v = devar(t)
    got = _collector_of(model, v)
    return got if got is not None else t


def _expand_inner_collectors(model: Model, t):
    if not isinstance(t, tuple) or not t:
        return t
    got = _collector_of(model, t)
    if got is not None:
        return got
    return tuple(_expand_inner_collectors(model, x) if isinstance(x, tuple) else x for x in t)
